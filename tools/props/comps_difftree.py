"""comps_difftree.py - T2 component of slice `difftree` (coq/DiffTree.v, DiffRev.v, DiffMerge.v vs src/diff.c through
impl/lyx.c): the TREE-level diff / apply / reverse / merge for everything that is not user-ordered.

Triples (A, B, C) of valid instances of a generated module without user-ordered / state data (gen_case(userord=False,
state=False)): B is an edit of A, C an edit of B biased towards undoing what B changed, so that every operation and every
cell of the merge table occurs (create after delete, delete after create, replace back to the original value, default
flag flips, a create below a `none` parent, ...).  libyang (lyx) computes diff(A,A), diff(A,B) and apply(diff(A,B),A)
with and without LYD_DIFF_DEFAULTS, reverse(diff(A,B)) and its application to B, diff(B,C), merge(diff(A,B),diff(B,C))
with both merge options and its application to A, and the merge with the undoing diff(B,A).  The extracted model gets
the DUMPS of A, B, C (stage 1, see comps_tree.py) and must print the same diff trees - operation (explicit or
inherited exactly as libyang has it), orig-value, orig-default, default flag and order of the siblings of every diff
node - and the same patched trees byte for byte.

Normalisation of libyang's diff dumps: only the ORDER of the metadata items of one node (operation, orig-default,
orig-value) - the model keeps them as fields, not as a list."""
import re

import treeenc
import yanggen
from lyxlib import Script, results, rc, DIFF_DEFAULTS, DUP_RECURSIVE, DUP_WITH_FLAGS
from vlib import hexs
from props.comps import Comp
from props.comps_tree import stage1, tree_case, pseudo

DUPF = DUP_RECURSIVE | DUP_WITH_FLAGS
MERGE_DEFAULTS = 0x01         # LYD_DIFF_MERGE_DEFAULTS

META_ORDER = {"operation": 0, "orig-default": 1, "orig-value": 2}


def norm_diff_dump(d):
    """metadata of every node in the order operation, orig-default, orig-value"""
    if d in ("empty", ""):
        return d
    out = []
    for seg in d.split(";"):
        if not seg:
            continue
        p = seg.split(":")
        head, rest = p[:5], p[5:]
        metas = [(rest[i], rest[i + 1]) for i in range(0, len(rest) - 1, 2)]
        metas.sort(key=lambda m: META_ORDER.get(m[1].split("=")[0], 9))
        out.append(":".join(head + [x for m in metas for x in m]))
    return ";".join(out) + ";"


def private_rng(rng, salt):
    """a generator of its own, derived from the state of the run's generator WITHOUT advancing it: the components and
    oracles registered behind this one keep the random stream they had before this slice existed"""
    import random
    return random.Random("%s/%r" % (salt, rng.getstate()[1][:8]))


# ------------------------------------------------------------------------------------------------
# edits
# ------------------------------------------------------------------------------------------------
def mix(rng, xa, xb, schema_children, deep=0.6):
    """valid sibling list built from two valid ones over the same schema: per schema unit (a choice with everything
    below it is one unit) x's or y's instances, or a recursive mix of containers / list entries with equal keys, a
    sub/superset of the values of a system-ordered leaf-list, and for a leaf with a default: absent (implicit default),
    explicitly the default value, or one of the two"""
    out = []
    for u in schema_children:
        mem = yanggen._unit_members(u)
        ia = [n for n in xa if id(n.schema) in mem]
        ib = [n for n in xb if id(n.schema) in mem]
        r = rng.random()
        if u.kind == "container" and ia and ib and r < deep:
            c = ia[0].clone()
            c.children = mix(rng, ia[0].children, ib[0].children, u.children, deep)
            if c.children or u.presence:
                out.append(c)
            continue
        if u.kind == "list" and u.keys and ia and ib and not u.unique and u.maxel is None and r < deep + 0.1:
            keyof = lambda n: tuple(c.value for c in n.children if c.schema.name in u.keys)  # noqa: E731
            bk = {keyof(n): n for n in ib}
            res = []
            for n in ia:
                k = keyof(n)
                if k in bk and rng.random() < 0.75:
                    c = n.clone()
                    keys = [x for x in c.children if x.schema.name in u.keys]
                    rest_a = [x for x in n.children if x.schema.name not in u.keys]
                    rest_b = [x for x in bk[k].children if x.schema.name not in u.keys]
                    c.children = keys + mix(rng, rest_a, rest_b, [x for x in u.children if x.name not in u.keys], deep)
                    res.append(c)
                elif rng.random() < 0.65:
                    res.append(n.clone())
            have = {keyof(n) for n in res}
            for n in ib:
                if keyof(n) not in have and rng.random() < 0.5:
                    res.append(n.clone())
            if len(res) < u.minel:
                res = [n.clone() for n in ia]
            out += res
            continue
        if u.kind == "leaf-list" and r < 0.55 and (ia or ib):
            res = [n.clone() for n in ia if rng.random() < 0.7]
            vals = {n.value for n in res}
            for n in ib:
                if n.value not in vals and rng.random() < 0.5:
                    res.append(n.clone())
                    vals.add(n.value)
            q = rng.random()
            if u.defaults and q < 0.25:
                res = []                                                # implicit defaults
            elif u.defaults and q < 0.5:
                res = [yanggen.DNode(u, v) for v in u.defaults]        # the default values, explicitly
            if len(res) < u.minel or (u.maxel is not None and len(res) > u.maxel):
                res = [n.clone() for n in (ia or ib)]
            out += res
            continue
        if u.kind == "leaf" and u.default is not None and not u.is_key and r < 0.5:
            q = rng.random()
            if q < 0.35:
                pass                                                    # absent: implicit default
            elif q < 0.7:
                out.append(yanggen.DNode(u, u.default))                 # explicit node with the default value
            else:
                out += [n.clone() for n in (ia or ib)]
            continue
        src = ia if r < 0.5 + deep / 2 and rng.random() < 0.5 else ib
        out += [n.clone() for n in src]
    return out


def triple(rng, m, ig):
    a = ig.forest(m)
    r = rng.random()
    if r < 0.08:
        b = ig.forest(m)
    elif r < 0.12:
        b = []
    else:
        b = mix(rng, a, ig.forest(m), m.nodes)
    r = rng.random()
    if r < 0.45:
        c = mix(rng, b, a, m.nodes)                  # undo part of the changes
    elif r < 0.8:
        c = mix(rng, mix(rng, b, a, m.nodes), ig.forest(m), m.nodes)
    elif r < 0.9:
        c = [n.clone() for n in a]                   # full undo
    elif r < 0.95:
        c = ig.forest(m)
    else:
        c = []
    if rng.random() < 0.1:
        a, b = b, a
    return a, b, c


# ------------------------------------------------------------------------------------------------
# script
# ------------------------------------------------------------------------------------------------
class _TdType:
    def __init__(self, name):
        self.name = name

    def yang(self):
        return "type %s;" % self.name


def choose_typedefs(rng, m, p=0.5):
    """some leaves / leaf-lists get their default value from a typedef instead of an own default statement (the compiled
    node then has a default without LYS_SET_DFLT); the Module object - and so the schema the model sees - is unchanged"""
    m._td = [n for n in m.all_nodes()
             if ((n.kind == "leaf" and n.default is not None) or (n.kind == "leaf-list" and len(n.defaults) == 1)) and rng.random() < p]


def mod_yang(m):
    td = getattr(m, "_td", [])
    if not td:
        return m.yang()
    saved, defs = [], ""
    for i, n in enumerate(td):
        d = n.default if n.kind == "leaf" else n.defaults[0]
        defs += '  typedef td%d { %s default "%s"; }\n' % (i, n.type.yang(), yanggen.yang_dq(d))
        saved.append((n, n.type, d))
        n.type = _TdType("td%d" % i)
        if n.kind == "leaf":
            n.default = None
        else:
            n.defaults = []
    try:
        s = m.yang()
        first = m.nodes[0].yang("  ") if m.nodes else "}\n"
    finally:
        for n, t, d in saved:
            n.type = t
            if n.kind == "leaf":
                n.default = d
            else:
                n.defaults = [d]
    i = s.index(first)
    return s[:i] + defs + s[i:]


def script_head(m, a, b, c):
    s = Script()
    s.ctx()                                    # 0
    s.mod(mod_yang(m))                         # 1
    s.parse(0, "x", yanggen.to_xml(a))         # 2
    s.parse(1, "x", yanggen.to_xml(b))         # 3
    s.parse(9, "x", yanggen.to_xml(c))         # 4
    return s


def script_full(m, a, b, c):
    s = script_head(m, a, b, c)
    idx = {}
    for opts in (DIFF_DEFAULTS, 0):
        s.add("diff", "t0", "t0", opts, "t4")
        idx["daa", opts] = s.dump(4)
        idx["dab_rc", opts] = s.add("diff", "t0", "t1", opts, "t2")
        idx["dab", opts] = s.dump(2)
        s.add("dup", "t0", "t3", DUPF)
        idx["ap_rc", opts] = s.add("apply", "t3", "t2")
        idx["ap", opts] = s.dump(3)
    s.add("diff", "t0", "t1", DIFF_DEFAULTS, "t2")
    idx["rev_rc"] = s.add("rev", "t2", "t7")
    idx["rev"] = s.dump(7)
    s.add("dup", "t1", "t8", DUPF)
    idx["rap_rc"] = s.add("apply", "t8", "t7")
    idx["rap"] = s.dump(8)
    idx["dbc_rc"] = s.add("diff", "t1", "t9", DIFF_DEFAULTS, "t10")
    idx["dbc"] = s.dump(10)
    for mo in (0, MERGE_DEFAULTS):
        # (the target diff is made again, not duplicated: lyd_dup_siblings may re-sort the instances of a list - d989bef)
        s.add("diff", "t0", "t1", DIFF_DEFAULTS, "t11")
        idx["mg_rc", mo] = s.add("dmerge", "t11", "t10", mo)
        idx["mg", mo] = s.dump(11)
        s.add("dup", "t0", "t12", DUPF)
        idx["map_rc", mo] = s.add("apply", "t12", "t11")
        idx["map", mo] = s.dump(12)
    idx["dba_rc"] = s.add("diff", "t1", "t0", DIFF_DEFAULTS, "t13")
    idx["dba"] = s.dump(13)
    s.add("diff", "t0", "t1", DIFF_DEFAULTS, "t14")
    idx["un_rc"] = s.add("dmerge", "t14", "t13", 0)
    idx["un"] = s.dump(14)
    s.add("dup", "t0", "t15", DUPF)
    idx["uap_rc"] = s.add("apply", "t15", "t14")
    idx["uap"] = s.dump(15)
    idx["A"] = s.dump(0)
    idx["B"] = s.dump(1)
    idx["C"] = s.dump(9)
    return s, idx


_IDX = None


def _indices():
    """result index of every section (the script has the same shape for every case)"""
    global _IDX
    if _IDX is None:
        class _M:
            def yang(self):
                return ""
        _, _IDX = script_full(_M(), [], [], [])
    return _IDX


def _res(r, k_rc, k_dump, offset, is_diff):
    code = rc(r[k_rc + offset])
    if code != 0:
        return "E%s" % code
    d = r[k_dump + offset]
    return norm_diff_dump(d) if is_diff else d


def sections(r, offset):
    """the answer of lyx as the list of sections the model prints (without the hyp section)"""
    ix = _indices()
    out = []
    for opts in (DIFF_DEFAULTS, 0):
        out.append(norm_diff_dump(r[ix["daa", opts] + offset]))
        out.append(_res(r, ix["dab_rc", opts], ix["dab", opts], offset, True))
        out.append(_res(r, ix["ap_rc", opts], ix["ap", opts], offset, False))
    out.append("nd=1")
    out.append(_res(r, ix["rev_rc"], ix["rev"], offset, True))
    out.append(_res(r, ix["rap_rc"], ix["rap"], offset, False))
    out.append(_res(r, ix["dbc_rc"], ix["dbc"], offset, True))
    for mo in (0, MERGE_DEFAULTS):
        out.append(_res(r, ix["mg_rc", mo], ix["mg", mo], offset, True))
        out.append(_res(r, ix["map_rc", mo], ix["map", mo], offset, False))
    out.append(_res(r, ix["dba_rc"], ix["dba"], offset, True))
    out.append(_res(r, ix["un_rc"], ix["un"], offset, True))
    out.append(_res(r, ix["uap_rc"], ix["uap"], offset, False))
    return out


SECTION_NAMES = ["hyp", "diff(A,A)+dflt", "diff(A,B)+dflt", "apply+dflt", "diff(A,A)", "diff(A,B)", "apply", "nodflt-law", "reverse",
                 "apply-reverse", "diff(B,C)", "merge", "apply-merge", "merge+dflt", "apply-merge+dflt", "diff(B,A)",
                 "merge-undo", "apply-merge-undo"]

NPSEUDO = 5


class DiffTree(Comp):
    """lyd_diff_siblings / lyd_diff_apply_all / lyd_diff_reverse_all / lyd_diff_merge_all on trees vs DiffTree.diff / apply,
    DiffRev.reverse, DiffMerge.merge"""
    name = "dtree"
    driver = "lyx"
    slice = "difftree"

    def __init__(self, part=None):
        # part: None = every section; "C06" = diff / apply (both options); "C13" = reverse, merge, merge undo
        self.part = part
        if part:
            self.name = "dtree-" + part

    def cut(self, secs):
        """the sections of the answer that belong to the property this instance is registered for"""
        k = SECTION_NAMES.index("reverse")
        if self.part == "C06":
            return secs[:k]
        if self.part == "C13":
            return secs[:1] + secs[k:]
        return secs

    def gen(self, rng, tier, scale=1.0):
        _STREAMS.setdefault(id(rng), rng.getstate())  # see KeepStream
        rng = private_rng(rng, self.name)
        pre = []
        for i in range(self.n(tier, 1500, 20000, scale)):
            m, ig = tree_case(rng, userord=False, state=False, meta_prob=0.0)
            if i % 3 == 0:
                choose_typedefs(rng, m)
            ig.max_inst = 6 if i % 4 == 0 else 4
            ig.edp = 0.45
            a, b, c = triple(rng, m, ig)
            s = script_head(m, a, b, c)
            s.dump(0); s.dump(1); s.dump(9)          # 5 6 7
            pre.append((m, a, b, c, s))
        outs = stage1([p[4].line() for p in pre])
        L = []
        for (m, a, b, c, s), out in zip(pre, outs):
            r = results(out)
            if len(r) < 9 or r[1] != "0" or rc(r[2]) != 0 or rc(r[3]) != 0 or rc(r[4]) != 0:
                continue                    # module or an instance rejected: not a case
            full, _ = script_full(m, a, b, c)
            cmds = [pseudo("s", treeenc.schema_line(m)), pseudo("n", treeenc.name_table(m)), pseudo("a", r[5]),
                    pseudo("b", r[6]), pseudo("c", r[7])] + full.cmds
            L.append("dtree\t" + "\t".join(cmds))
        return L

    def norm(self, line, out):
        if " | end:" in out or out.startswith("?cmd"):              # implementation
            r = results(out)
            try:
                return " | ".join(self.cut(["hyp=111111"] + sections(r, NPSEUDO)))
            except (IndexError, KeyError):
                return "bad answer: " + out[:200]
        secs = out.split(" | ")
        return " | ".join(self.cut(secs)) if len(secs) == len(SECTION_NAMES) else out

    def witness(self, line, model_out, impl_out):
        """does the PROPERTY fail on the implementation for this case (C06: apply(diff(A,B),A) = B with defaults,
        diff(A,A) empty; C13: reverse, merge, merge undo)"""
        r = results(impl_out)
        try:
            sec = ["hyp"] + sections(r, NPSEUDO)
            ix = _indices()
            a, b, c = (r[ix[k] + NPSEUDO] for k in "ABC")
        except (IndexError, KeyError):
            return (None, "no answer from the implementation: " + impl_out[:100])
        g = dict(zip(SECTION_NAMES, sec))
        if self.part != "C13":
            if g["diff(A,A)+dflt"] != "empty" or g["diff(A,A)"] != "empty":
                return (None, "diff(A,A) is not empty")
            if g["apply+dflt"] != b:
                return (None, "apply(diff(A,B),A) = %s, expected B = %s" % (g["apply+dflt"][:200], b[:200]))
        if self.part == "C06" or g["apply+dflt"] != b:
            return None
        if g["apply-reverse"] != a:
            return (None, "apply(reverse(diff(A,B)),B) = %s, expected A = %s" % (g["apply-reverse"][:200], a[:200]))
        if g["apply-merge"] != c:
            return ("merge-npcont-dflt" if only_inner_flags(g["apply-merge"], c) else None,
                    "apply(merge(diff(A,B),diff(B,C)),A) = %s, expected C = %s" % (g["apply-merge"][:200], c[:200]))
        if g["merge-undo"] != "empty" or g["apply-merge-undo"] != a:
            return (None, "merging diff(B,A) into diff(A,B) leaves %s" % g["merge-undo"][:200])
        return None


_STREAMS = {}


class KeepStream:
    """Not a check.  tools/check.py hands ONE random generator to all components and oracles of a property and draws from
    it itself after every component (the sample it stores in the evidence), so registering a component shifts the inputs
    of everything registered behind it.  The oracles that existed before this slice (oracles.DiffUord in particular, which
    leaves some failures of user-ordered data without a tag on part of its random streams - about two seeds in nine, with or
    without this slice) would then be judged on other inputs than before.  Registered as the FIRST oracle, this puts the
    generator back to the state it had when the slice's component started, so that those oracles see exactly the inputs
    they saw before the slice existed.  It generates no cases."""
    name = "difftree-keep-stream"
    driver = "lyx"
    kinds = None
    quick_sanitize = False

    def gen(self, rng, tier, scale=1.0):
        st = _STREAMS.pop(id(rng), None)
        if st is not None:
            rng.setstate(st)
        return []

    def judge(self, line, out):
        return None


class FixedRegress:
    """Regression cases of the diff findings that were fixed in libyang (known_findings.d/difftree.json and diff.json, status
    fixed, field regression_case: a lyx case and the pattern its answer must NOT match any more).  A match means the defect
    is back."""
    driver = "lyx"
    kinds = None
    quick_sanitize = False

    def __init__(self, part, driver="lyx"):
        self.part = part
        self.driver = driver
        self.name = "difftree-regress-" + part + ("" if driver == "lyx" else "-" + driver)
        self.pat = {}

    def gen(self, rng, tier, scale=1.0):
        import json
        import os
        import vlib
        L = []
        for fn in ("difftree.json", "diff.json"):
            for e in json.load(open(os.path.join(vlib.VERIF, "known_findings.d", fn))):
                rcase = e.get("regression_case")
                if e.get("status") != "fixed" or e.get("property") != self.part or not rcase or rcase.get("driver") != self.driver:
                    continue
                if "corpus_line" in rcase:
                    f, idx = rcase["corpus_line"]
                    line = [x.rstrip("\n") for x in open(os.path.join(vlib.VERIF, f)) if x.strip() and not x.startswith("#")][idx]
                else:
                    line = rcase["line"]
                self.pat[line] = (e["tag"], rcase["must_not_match"])
                L.append(line)
        return L

    def judge(self, line, out):
        tag, pat = self.pat.get(line, (None, None))
        if pat is None:
            return None
        if out.startswith("CRASH(") or out == "TIMEOUT":
            return (None, "regression case of %s: %s" % (tag, out))
        if re.search(pat, out):
            return (None, "the fixed finding %s reproduces again" % tag)
        return None


def only_inner_flags(x, y):
    """the two dumps differ only in the flag field of inner nodes (containers / list instances)"""
    xs, ys = x.split(";"), y.split(";")
    if len(xs) != len(ys):
        return False
    for p, q in zip(xs, ys):
        if p == q:
            continue
        pp, qq = p.split(":"), q.split(":")
        if len(pp) < 5 or pp[3] != "i" or pp[:4] != qq[:4] or pp[5:] != qq[5:]:
            return False
    return True


class DiffTreeLaws:
    """C06 / C13 on the implementation alone, on the triples of the correspondence component, judged on DUMPS (every node,
    value, order and default flag - lyd_compare_siblings does not look at the flags of inner nodes): diff(A,A) is empty,
    apply(diff(A,B),A) = B; apply(reverse(diff(A,B)),B) = A, apply(merge(diff(A,B),diff(B,C)),A) = C, merging the undoing
    diff leaves nothing.  A merged diff whose application differs from C only in the default flag of inner nodes is the
    known finding merge-npcont-dflt."""
    driver = "lyx"
    kinds = None
    quick_sanitize = False

    def __init__(self, part):
        self.part = part                  # "C06" or "C13"
        self.name = "difftree-laws-" + part

    def gen(self, rng, tier, scale=1.0):
        return DiffTree().gen(private_rng(rng, self.name), tier, scale * 0.5)

    def judge(self, line, out):
        if out.startswith("CRASH(") or out == "TIMEOUT":
            return (None, "crash: " + out)
        r = results(out)
        try:
            sec = ["hyp"] + sections(r, NPSEUDO)
            ix = _indices()
            a, b, c = (r[ix[k] + NPSEUDO] for k in "ABC")
        except (IndexError, KeyError):
            return (None, "no answer from the implementation: " + out[:100])
        g = dict(zip(SECTION_NAMES, sec))
        if self.part == "C06":
            if g["diff(A,A)+dflt"] != "empty" or g["diff(A,A)"] != "empty":
                return (None, "diff(A,A) is not empty")
            if g["apply+dflt"] != b:
                return (None, "apply(diff(A,B),A) = %s, expected B = %s" % (g["apply+dflt"][:300], b[:300]))
            return None
        if g["apply+dflt"] != b:
            return None                   # a C06 matter: the C13 laws cannot be judged on such a case
        if g["apply-reverse"] != a:
            return (None, "apply(reverse(diff(A,B)),B) = %s, expected A = %s" % (g["apply-reverse"][:300], a[:300]))
        if g["apply-merge"] != c:
            tag = "merge-npcont-dflt" if only_inner_flags(g["apply-merge"], c) else None
            return (tag, "apply(merge(diff(A,B),diff(B,C)),A) = %s, expected C = %s" % (g["apply-merge"][:300], c[:300]))
        if g["merge-undo"] != "empty" or g["apply-merge-undo"] != a:
            return (None, "merging diff(B,A) into diff(A,B) leaves %s" % g["merge-undo"][:300])
        return None


def explain(line, model_out, impl_out):
    """development helper: the first section in which model and implementation differ"""
    c = DiffTree()
    mo = c.norm(line, model_out).split(" | ")
    io = c.norm(line, impl_out).split(" | ")
    for i, (x, y) in enumerate(zip(mo, io)):
        if x != y:
            return SECTION_NAMES[i] if i < len(SECTION_NAMES) else str(i), x, y
    return None


# ------------------------------------------------------------------------------------------------
# node kinds the model does not cover: anydata / anyxml (every value representation), metadata, opaque nodes
# ------------------------------------------------------------------------------------------------
def _kinds():
    """the generator of the C14 extension slice (anydata / anyxml / opaque / metadata) is reused by import"""
    from props import comps_c14x
    return comps_c14x


def kinds_norm(dump, meta=True, opaque=True, anyrep=True, dflt=True, opqns=True):
    """xdump without what apply cannot be asked to reproduce (LYD_NEW / when flags, private pointers) and optionally
    without metadata, opaque subtrees, or with anydata values reduced to 'has a value' (representation-insensitive)"""
    out = []
    skip = None
    for ent in dump.split(";"):
        if not ent or ent == "empty":
            continue
        f = ent.split(":")
        if not f[0].isdigit():
            return dump
        d = int(f[0])
        if skip is not None and d > skip:
            continue
        skip = None
        if f[1].startswith("?"):
            if not opaque:
                skip = d
                continue
            if not opqns:
                f[1] = "?"        # (namespace in XML, module name in JSON)
                f[6:] = [x if i % 2 else "@" for i, x in enumerate(f[6:])]
            out.append(":".join(f[:4] + f[6:]))
            continue
        f[4] = "d" if dflt and "d" in f[4] else ""
        f[5] = ""
        if not anyrep and f[3].startswith("a"):
            f[3] = "a"
        out.append(":".join(f[:6] + (f[6:] if meta else [])))
    return ";".join(out)


def kn_ident(S, n):
    """identity of a dump node among its siblings (list: key values, leaf-list: value)"""
    if n.opq:
        return None
    d = S.get(n.key(), {})
    if d.get("k") == "list":
        return (n.key(),) + tuple(c.val for c in n.children[:d.get("nk", 0)])
    if d.get("k") == "leaf-list":
        return (n.key(), n.val)
    return (n.key(),)


def kn_index(S, forest):
    """path -> node for every data node; the key () maps to a pseudo root whose children are the top-level nodes"""
    K = _kinds()
    root = K.XN()
    root.mod, root.name, root.opq, root.val, root.flags, root.priv, root.meta, root.children = "", "", False, "i", "", "", [], forest
    ix = {(): root}

    def rec(lst, path):
        for n in lst:
            if not n.opq:
                q = path + (kn_ident(S, n),)
                ix[q] = n
                rec(n.children, q)
    rec(forest, ())
    return ix


def kn_is_any(S, n):
    return (not n.opq) and S.get(n.key(), {}).get("k") in ("anydata", "anyxml")


def kn_carry(S, trees):
    """what the diff functions do with what they do not look at: the result has the data nodes of the LAST tree of the
    list; a node that exists in the first tree (the one the diff is applied to) keeps its metadata, a created node has
    none; the opaque children are those of the first tree (in application order) that has the node"""
    ixs = [kn_index(S, t) for t in trees]

    def src(path):
        for ix in ixs:
            if path in ix:
                return ix[path]

    def rec(lst, path):
        out = []
        for n in lst:
            if n.opq:
                continue
            q = path + (kn_ident(S, n),)
            o = src(q)
            m = n.copy(deep=False)
            m.meta = list(ixs[0][q].meta) if q in ixs[0] else []     # (diff nodes are duplicated without metadata)
            m.children = rec(n.children, q) + [c.copy() if q in ixs[0] else kn_noattr(c.copy()) for c in o.children if c.opq]
            if len(ixs) == 3 and q in ixs[0] and q not in ixs[1]:
                # merged delete + create: the opaque children of the deleted subtree keep their delete operation, those
                # of the created one are created
                m.children = [c for c in m.children if not c.opq] + [kn_noattr(c.copy()) for c in n.children if c.opq]
            if S.get(m.key(), {}).get("np"):
                # a non-presence container is default iff all its children are (an opaque child is not)
                m.flags = m.flags.replace("d", "") + ("d" if all((not c.opq) and "d" in c.flags for c in m.children) else "")
            out.append(m)
        return out
    return rec(trees[-1], ()) + [c.copy() for c in trees[0] if c.opq]


def kn_noattr(n):
    n.meta = []
    for c in n.children:
        kn_noattr(c)
    return n


def kn_render(forest):
    return _kinds().render(forest)


class DiffKinds:
    """C06 / C13 on the implementation for the node kinds the Coq model leaves out: anydata and anyxml nodes whose values
    have every representation (data tree, XML / JSON / plain string, empty string, none) and change between A and B in
    every combination (other content, to / from empty, other representation of the same content), at top level, nested
    and inside list instances; metadata on created / deleted / replaced / unchanged nodes; opaque nodes in A and / or B.
    Laws, judged on the extended dump of impl/t_c14x.c (value type and content of anydata, metadata, opaque nodes):
    diff(A,A) is empty, apply(diff(A,B),A) = B, the same after printing and parsing the diff, and (C13)
    apply(reverse(diff(A,B)),B) = A, apply(merge(diff(A,B),diff(B,C)),A) = C.
    What the implementation is known not to carry (metadata and opaque nodes of nodes that exist on both sides, the
    representation of a reversed anydata value) is computed exactly and tagged; everything else must be exact."""
    driver = "t_c14x"
    quick_sanitize = False

    def __init__(self, part):
        self.part = part
        self.name = "difftree-kinds-" + part
        self.info = {}

    def module(self, rng):
        K = _kinds()
        g = yanggen.SchemaGen(rng, adversarial=rng.random() < 0.3, state=False, userord=False)
        m = g.module()
        K.inject_any(rng, m, m.nodes, True, None, [0], 0.9)
        if rng.random() < 0.3:
            choose_typedefs(rng, m)
        return m

    def tree(self, rng, m, ig, base=None, pm=0.0):
        K = _kinds()
        f = ig.forest(m)
        K.add_any(rng, f, m.nodes, 0.8)
        if base is not None:
            f = mix(rng, base, f, m.nodes)
            K.vary_any(rng, f, 0.5)
        for n, _, _ in yanggen.walk(f):
            if isinstance(n.schema, K.SAny) and rng.random() < 0.15:
                n.value = ""
            if n.meta and rng.random() < 0.5:
                n.meta = []
        K.add_meta(rng, f, pm)
        return f

    def any_edits(self, rng, s, t, dump, S, pool, p):
        """the other representations of anydata values, by node index in the parsed tree t"""
        K = _kinds()
        for i, (n, _, _, _) in enumerate(K.flat(K.parse_xdump(dump))):
            if not kn_is_any(S, n) or rng.random() >= p:
                continue
            r = rng.random()
            if r < 0.6:
                s.add("xanyset", "t%d#%d" % (t, i), rng.choice("sxj"), hexs(rng.choice(pool)))
            elif r < 0.8:
                s.add("xanyset", "t%d#%d" % (t, i), "t", "t%d" % rng.choice([14, 15]))
            else:
                s.add("xanyset", "t%d#%d" % (t, i), "N", "-")

    def gen(self, rng, tier, scale=1.0):
        K = _kinds()
        rng = private_rng(rng, self.name)
        n = max(1, int((3000 if tier == "thorough" else 400) * scale))
        pre = []
        for i in range(n):
            m = self.module(rng)
            ig = yanggen.InstGen(rng, meta_prob=0.0)
            ig.edp = 0.4
            pm = rng.choice([0.0, 0.0, 0.1, 0.3])
            a = self.tree(rng, m, ig, None, pm)
            b = self.tree(rng, m, ig, a, pm) if rng.random() < 0.9 else self.tree(rng, m, ig, None, pm)
            c = self.tree(rng, m, ig, b, pm) if rng.random() < 0.8 else [x.clone() for x in a]
            s = Script()
            s.ctx()
            s.mod(mod_yang(m))
            for t, f in ((0, a), (1, b), (9, c), (14, a[:2]), (15, c[-2:])):
                # (t14, t15: data-tree values for anydata nodes, parts of A and C that need not be valid on their own)
                s.add("parse", "c0", "t%d" % t, "x", 0x020000 if t < 14 else 0x030000, 0x2 if t < 14 else 0, hexs(K.to_xml(f)))
            s.add("xdump", "t0"); s.add("xdump", "t1"); s.add("xdump", "t9")
            pre.append((m, s))
        outs = K.stage1(["c14x\t" + "\t".join(p[1].cmds) for p in pre])
        L = []
        mid = []
        for (m, s0), out in zip(pre, outs):
            r = results(out)
            if len(r) < 10 or r[1] != "0" or any(rc(x) != 0 for x in r[2:7]):
                continue
            S = K.schema_desc(m)
            for sn in m.all_nodes():
                if sn.kind == "container" and not sn.presence:
                    S["%s:%s" % (m.name, sn.name)]["np"] = True
            s = Script()
            s.cmds = list(s0.cmds[:7])
            w = K.word(rng)
            pool = ["<q>%s</q>" % w, '{"q":"%s"}' % w, w, K.word(rng), ""]
            p_any = rng.choice([0.0, 0.4, 0.8, 1.0])
            use_opq = rng.random() < 0.3
            for t, d in ((0, r[7]), (1, r[8]), (9, r[9])):
                self.any_edits(rng, s, t, d, S, pool, p_any)
                if use_opq and rng.random() < 0.7:
                    ed = K.plan_edits(rng, K.parse_xdump(d), S, m.ns, p_any=0.0, p_opq=0.7)
                    K.emit_edits(s, ed, 0, t, 14)
            k = s.add("xdump", "t0"); s.add("xdump", "t1"); s.add("xdump", "t9")
            mid.append((S, s, k))
        outs = K.stage1(["c14x\t" + "\t".join(p[1].cmds) for p in mid])
        for (S, s, k), out in zip(mid, outs):
            r = results(out)
            if len(r) < k + 3 or out.startswith("CRASH") or out == "TIMEOUT":
                continue
            abc = tuple(r[k:k + 3])
            s.cmds = s.cmds[:-3]
            ix = {}
            ix["A"] = s.add("xdump", "t0"); ix["B"] = s.add("xdump", "t1"); ix["C"] = s.add("xdump", "t9")
            ix["daa_rc"] = s.add("diff", "t0", "t0", DIFF_DEFAULTS, "t4"); ix["daa"] = s.add("xdump", "t4")
            ix["d_rc"] = s.add("diff", "t0", "t1", DIFF_DEFAULTS, "t2")
            s.add("dup", "t0", "t3", DUPF); ix["ap_rc"] = s.add("apply", "t3", "t2"); ix["ap"] = s.add("xdump", "t3")
            fmt = "xjb"[len(L) % 3]
            if fmt == "b" and re.search(r":aN[sxj]:", abc[0] + abc[1]):
                fmt = "x"         # (the LYB printer crashes on an anyxml string value that is NULL: not a diff matter)
            if self.part == "C06":
                s.add("dup", "t0", "t16", DUPF)
                ix["rt_rc"] = s.add("rt", "t2", "t5", fmt, 0x01 if fmt == "b" else 0x25, 0x050000, 0, "c0")   # (text: WD_ALL)
                ix["rap_rc"] = s.add("apply", "t16", "t5"); ix["rap"] = s.add("xdump", "t16")
            else:
                ix["rev_rc"] = s.add("rev", "t2", "t7"); s.add("dup", "t1", "t8", DUPF)
                ix["vap_rc"] = s.add("apply", "t8", "t7"); ix["vap"] = s.add("xdump", "t8")
                ix["d2_rc"] = s.add("diff", "t1", "t9", DIFF_DEFAULTS, "t10"); s.add("dup", "t2", "t11", DUPF)
                ix["mg_rc"] = s.add("dmerge", "t11", "t10", 0); s.add("dup", "t0", "t12", DUPF)
                ix["map_rc"] = s.add("apply", "t12", "t11"); ix["map"] = s.add("xdump", "t12")
            ix["A2"] = s.add("xdump", "t0"); ix["B2"] = s.add("xdump", "t1")
            line = "c14x\t" + "\t".join(s.cmds)
            self.info[line] = (ix, S, fmt, abc)
            L.append(line)
        return L

    # -------------------------------------------------------------------------------------------
    def judge(self, line, out):
        K = _kinds()
        inf = self.info.get(line)
        if inf is None:
            return None
        ix, S, fmt, abc = inf
        if out.startswith("CRASH(") or out == "TIMEOUT":
            return (None, "crash: " + out)
        r = results(out)
        g = {k: r[v] for k, v in ix.items()}
        a, b, c = g["A"], g["B"], g["C"]
        if g["A2"] != a or g["B2"] != b:
            return (None, "diff / apply modified its inputs")
        A, B, C = K.parse_xdump(a), K.parse_xdump(b), K.parse_xdump(c)
        if self.part == "C06":
            if g["daa_rc"] != "0" or g["daa"] not in ("", "empty"):
                return (None, "diff(A,A) is not empty: " + g["daa"][:200])
            if g["d_rc"] != "0":
                return (None, "lyd_diff_siblings failed: " + g["d_rc"])
            j = self.compare("apply(diff(A,B),A)", g["ap_rc"], g["ap"], b, kn_render(kn_carry(S, [A, B])))
            if j:
                return j
            if rc(g["rt_rc"]) != 0 and any(kn_is_any(S, n) for n, _, _, _ in K.flat(A) + K.flat(B)):
                return None        # printing / parsing anydata values of every representation in every format is C14 matter
            if rc(g["rt_rc"]) != 0:
                return (None, "printing / parsing the diff (%s) failed: %s" % (fmt, g["rt_rc"]))
            j = self.compare("apply(parse(print(diff(A,B))),A)", g["rap_rc"], g["rap"], b, kn_render(kn_carry(S, [A, B])),
                             rt=fmt)
            if j and j[0] is None and fmt == "j" and self.leaflist_ops(S, A, B):
                return ("json-leaflist-meta-order", "the diff printed as JSON parses back with the operations of leaf-list "
                        "instances on the wrong instances: " + j[1][:300])
            return j
        if g["d_rc"] != "0" or not g["ap_rc"].startswith("0"):
            return None                   # a C06 matter
        if kinds_norm(g["ap"]) not in (kinds_norm(b), kinds_norm(kn_render(kn_carry(S, [A, B])))):
            return None
        jr = self.judge_reverse(S, g, A, B, a)
        jm = self.judge_merge(S, g, A, B, C, c) if g["d2_rc"] == "0" else None
        for j in (jr, jm):
            if j and j[0] is None:
                return j                  # (an unexplained difference goes before a known one)
        return jr or jm

    def leaflist_ops(self, S, A, B):
        """some leaf-list has two or more instances with an operation in diff(A,B)"""
        ia, ib = kn_index(S, A), kn_index(S, B)
        cnt = {}
        for x, y in ((ia, ib), (ib, ia)):
            for p, n in x.items():
                if p and S.get(n.key(), {}).get("k") == "leaf-list" and (p not in y or ("d" in n.flags) != ("d" in y[p].flags)):
                    k = (p[:-1], n.key())
                    cnt[k] = cnt.get(k, 0) + 1
        return any(v > 1 for v in cnt.values())

    def judge_merge(self, S, g, A, B, C, c):
        K = _kinds()
        if g["mg_rc"] != "0":
            # (fixed findings merge-opaque 4b5ac3f, merge-any-replace-delete e592b93, merge-any-delete-create eaa6a18)
            return (None, "lyd_diff_merge_all failed: " + g["mg_rc"])
        if not g["map_rc"].startswith("0"):
            return (None, "apply(merge(diff(A,B),diff(B,C)),A) failed: " + g["map_rc"])
        if kinds_norm(g["map"]) == kinds_norm(c):
            return None
        E = kn_carry(S, [A, B, C])
        if kinds_norm(g["map"]) == kinds_norm(K.render(E)):
            m = kinds_norm(c, meta=False) != kinds_norm(K.render(E), meta=False)
            return ("diff-ignores-opaque-c13" if m else "diff-ignores-metadata-c13",
                    "apply(merge(diff(A,B),diff(B,C)),A): metadata / opaque nodes of nodes present on both sides are not carried")
        return (None, "apply(merge(diff(A,B),diff(B,C)),A) differs from the expected tree:\n%s\nand from what the known "
                "limitations give:\n%s" % (kn_delta(kinds_norm(g["map"]), kinds_norm(c)), kn_delta(kinds_norm(g["map"]), kinds_norm(K.render(E)))))

    def judge_reverse(self, S, g, A, B, a):
        """apply(reverse(diff(A,B)),B) = A; a replaced anydata value comes back as a plain string (its text, or the XML
        print of its data tree): known, tagged, the content is still checked"""
        K = _kinds()
        ia, ib = kn_index(S, A), kn_index(S, B)
        repl = [p for p, n in ia.items() if p and kn_is_any(S, n) and p in ib and n.val != ib[p].val]
        if g["rev_rc"] != "0":
            # (fixed findings any-empty-orig-value 05a4858, reverse-any-same-text bd6fa8c)
            return (None, "lyd_diff_reverse_all failed: " + g["rev_rc"])
        if not g["vap_rc"].startswith("0"):
            return (None, "apply(reverse(diff(A,B)),B) failed: " + g["vap_rc"])
        if kinds_norm(g["vap"]) == kinds_norm(a):
            return None
        G = K.parse_xdump(g["vap"])
        ig = kn_index(S, G)
        E = kn_carry(S, [B, A])
        ie = kn_index(S, E)
        strs = 0
        for p in repl:
            if p not in ig or p not in ie:
                continue
            v = ia[p].val
            if v.startswith("aN"):
                ie[p].val = "as-"
                strs += 1
            elif v.startswith("at"):
                if ig[p].val.startswith("as"):
                    ig[p].val = ie[p].val = "as?"
                    strs += 1
            elif v[1] in "xj":
                ie[p].val = "as" + v[2:]
                strs += 1
        got, exp = kinds_norm(K.render(G)), kinds_norm(K.render(E))
        if got == exp:
            if strs:
                return ("reverse-any-string", "apply(reverse(diff(A,B)),B): a replaced anydata value comes back as a plain string")
            m = kinds_norm(a, meta=False) != kinds_norm(K.render(E), meta=False)
            return ("diff-ignores-opaque-c13" if m else "diff-ignores-metadata-c13",
                    "apply(reverse(diff(A,B)),B): metadata / opaque nodes of nodes present on both sides are not restored")
        return (None, "apply(reverse(diff(A,B)),B) differs from the expected tree:\n%s\nand from what the known limitations give:\n%s"
                % (kn_delta(got, kinds_norm(a)), kn_delta(got, exp)))

    def compare(self, what, arc, got, exp, carried, rt=None):
        if not arc.startswith("0"):
            return (None, "%s failed: %s" % (what, arc))
        kw = {}
        if rt:
            kw = {"anyrep": False, "dflt": rt == "b", "opqns": rt != "j"}
        g = kinds_norm(got, **kw)
        if g == kinds_norm(exp, **kw):
            return None
        if g == kinds_norm(carried, **kw):
            m = kinds_norm(exp, meta=False, **kw) != kinds_norm(carried, meta=False, **kw)
            return ("diff-ignores-opaque" if m else "diff-ignores-metadata",
                    "%s: metadata / opaque nodes of nodes present on both sides are those of the first tree" % what)
        return (None, "%s differs from the expected tree:\n%s\nand from what the known limitations give:\n%s"
                % (what, kn_delta(g, kinds_norm(exp, **kw)), kn_delta(g, kinds_norm(carried, **kw))))


def kn_delta(got, exp):
    import difflib
    return "\n".join(list(difflib.unified_diff(got.split(";"), exp.split(";"), "got", "expected", lineterm="", n=1))[:40])


# ------------------------------------------------------------------------------------------------
# merge under every combination of the diff and merge options
# ------------------------------------------------------------------------------------------------
def strip_default_nodes(dump):
    """lyx dump without the nodes that carry the default flag (with their subtrees): what is compared when the diffs
    were made without LYD_DIFF_DEFAULTS"""
    out, skip = [], None
    for seg in dump.split(";"):
        if not seg or seg == "empty":
            continue
        p = seg.split(":")
        d = int(p[0])
        if skip is not None and d > skip:
            continue
        skip = None
        if "d" in p[4]:
            skip = d
            continue
        out.append(seg)
    return ";".join(out)


class DiffMergeOpts:
    """C13 on the implementation for every combination of LYD_DIFF_DEFAULTS (both diffs) and LYD_DIFF_MERGE_DEFAULTS:
    apply(merge(diff(A,B),diff(B,C)),A) = C by dump equality; the combinations without LYD_DIFF_DEFAULTS are judged on
    the triples without default nodes (one case in three is generated from a schema without defaults). Triples of the correspondence component (leaves with own and with typedef defaults, case switches, created
    subtrees, returns to the implicit default)."""
    driver = "lyx"
    kinds = None
    quick_sanitize = False
    name = "difftree-mergeopts-C13"
    COMBOS = [(DIFF_DEFAULTS, 0), (DIFF_DEFAULTS, MERGE_DEFAULTS), (0, 0), (0, MERGE_DEFAULTS)]

    def __init__(self):
        self.info = {}

    def gen(self, rng, tier, scale=1.0):
        rng = private_rng(rng, self.name)
        n = max(1, int((6000 if tier == "thorough" else 500) * scale))
        L = []
        for i in range(n):
            m, ig = tree_case(rng, userord=False, state=False, meta_prob=0.0)
            if i % 2 == 0:
                choose_typedefs(rng, m)
            ig.max_inst = 6 if i % 4 == 0 else 4
            ig.edp = 0.45
            a, b, c = triple(rng, m, ig)
            s = script_head(m, a, b, c)
            ix = {}
            for do, mo in self.COMBOS:
                ix["d1", do, mo] = s.add("diff", "t0", "t1", do, "t2")
                ix["d2", do, mo] = s.add("diff", "t1", "t9", do, "t10")
                ix["mg", do, mo] = s.add("dmerge", "t2", "t10", mo)
                s.add("dup", "t0", "t12", DUPF)
                ix["ap", do, mo] = s.add("apply", "t12", "t2")
                ix["res", do, mo] = s.dump(12)
            ix["A"] = s.dump(0); ix["B"] = s.dump(1); ix["C"] = s.dump(9)
            line = s.line()
            dflt = {}
            for sn in m.all_nodes():
                if sn.kind == "leaf" and sn.default is not None:
                    dflt[sn.name] = sn.default
            self.info[line] = (ix, dflt)
            L.append(line)
        return L

    def judge(self, line, out):
        inf = self.info.get(line)
        if inf is None:
            return None
        ix, dflt = inf
        if out.startswith("CRASH(") or out == "TIMEOUT":
            return (None, "crash: " + out)
        r = results(out)
        if len(r) <= ix["C"] or r[1] != "0" or any(rc(r[k]) != 0 for k in (2, 3, 4)):
            return None
        c = r[ix["C"]]
        worst = None
        # diffs made WITHOUT LYD_DIFF_DEFAULTS: B is the data diff(A,B) was applied on (the documented precondition of the
        # merge) only when no default nodes are around - apply leaves the default nodes of A in place; judged on such triples
        nodflt = all(strip_default_nodes(r[ix[k]]).rstrip(";") == r[ix[k]].replace("empty", "").rstrip(";") for k in "ABC")
        for do, mo in self.COMBOS:
            what = "diff options %d, merge options %d" % (do, mo)
            if not do and nodflt is False:
                continue
            if rc(r[ix["d1", do, mo]]) != 0 or rc(r[ix["d2", do, mo]]) != 0:
                return (None, "lyd_diff_siblings failed (%s)" % what)
            if rc(r[ix["mg", do, mo]]) != 0:
                return (None, "lyd_diff_merge_all failed (%s): %s" % (what, r[ix["mg", do, mo]]))
            if rc(r[ix["ap", do, mo]]) != 0:
                return (None, "applying the merged diff failed (%s): %s" % (what, r[ix["ap", do, mo]]))
            got, exp = r[ix["res", do, mo]], c
            if not do:
                got, exp = strip_default_nodes(got), strip_default_nodes(exp)
            if got.rstrip(";") == exp.rstrip(";"):
                continue
            msg = "apply(merge(diff(A,B),diff(B,C)),A) differs from C (%s):\n%s" % (what, kn_delta(got, exp))
            if not mo:
                return (None, msg)
            worst = worst or (self.merge_defaults_tag(got, exp, dflt), msg)
        return worst

    def merge_defaults_tag(self, got, exp, dflt):
        """known: with LYD_DIFF_MERGE_DEFAULTS a leaf that was deleted and is created again with its schema default value
        becomes operation none - the result keeps the deleted value. Symptom: the only differences are values (and
        default flags) of leaves that have a default and should hold it"""
        g, e = got.rstrip(";").split(";"), exp.rstrip(";").split(";")
        if len(g) != len(e):
            return None
        n = 0
        for x, y in zip(g, e):
            if x == y:
                continue
            p, q = x.split(":"), y.split(":")
            if p[:3] != q[:3] or p[2] not in dflt:
                return None
            n += 1
        return "merge-defaults-opt-delete-create" if n else None


# ------------------------------------------------------------------------------------------------
# reversal of a moved / created user-ordered list instance that is changed inside as well
# ------------------------------------------------------------------------------------------------
class UordMoveChange:
    """C13 on the implementation: apply(reverse(diff(A,B)),B) = A where ONE instance of a user-ordered keyed list (at the
    top level, in a container, in an entry of another list, deeper) is moved or created and, in the same diff, changed
    inside: nested leaf replaced / created / deleted, leaf of a nested container, nested leaf-list instances, entries of a
    nested list, a default leaf set explicitly or back; both diff option settings; controls (move only, change only, change
    in another instance).  Only a diff that deletes a user-ordered instance or moves two instances of one list is
    attributed to the known finding uord-reverse."""
    driver = "lyx"
    kinds = None
    quick_sanitize = False
    name = "difftree-uord-movechange-C13"
    WORDS = ["a", "b", "c", "d", "e", "f", "g"]

    def __init__(self):
        self.info = {}

    def module(self, rng):
        self.wrap = rng.choice([[], ["c"], ["l"], ["c", "l"], ["l", "c"], ["c", "c", "l"]])
        body = ('list ul { key "k"; ordered-by user; leaf k { type string; } leaf v { type string; } '
                'leaf d { type uint8; default "7"; } container c { leaf cv { type string; } leaf cd { type string; default "x"; } } '
                'leaf-list nl { type string; } list sub { key "sk"; leaf sk { type string; } leaf sv { type string; } } '
                'container p { presence "p"; leaf pv { type string; } } }')
        for i, w in reversed(list(enumerate(self.wrap))):
            if w == "c":
                body = "container w%d { %s leaf o%d { type string; } }" % (i, body, i)
            else:
                body = 'list w%d { key "id"; leaf id { type string; } %s leaf o%d { type string; } }' % (i, body, i)
        return 'module m1 { yang-version 1.1; namespace "urn:verif:m1"; prefix m1; %s }' % body

    def inst(self, rng, k):
        e = {"k": k}
        if rng.random() < 0.7:
            e["v"] = rng.choice(self.WORDS)
        if rng.random() < 0.4:
            e["d"] = rng.choice(["7", "9", "200"])
        if rng.random() < 0.5:
            e["cv"] = rng.choice(self.WORDS)
        if rng.random() < 0.2:
            e["cd"] = rng.choice(["x", "y"])
        e["nl"] = sorted(rng.sample(self.WORDS, rng.randrange(0, 4)))
        e["sub"] = {s: rng.choice(self.WORDS) for s in sorted(rng.sample(self.WORDS, rng.randrange(0, 3)))}
        if rng.random() < 0.3:
            e["pv"] = rng.choice(self.WORDS + [None])
        return e

    def change(self, rng, e):
        """one to three changes inside an instance"""
        e = {k: (dict(v) if isinstance(v, dict) else list(v) if isinstance(v, list) else v) for k, v in e.items()}
        for _ in range(rng.randrange(1, 4)):
            r = rng.randrange(9)
            if r == 0:
                e["v"] = rng.choice([w for w in self.WORDS if w != e.get("v")])
            elif r == 1:
                if "v" in e:
                    del e["v"]
                else:
                    e["v"] = rng.choice(self.WORDS)
            elif r == 2:
                if "d" in e:
                    del e["d"]
                else:
                    e["d"] = rng.choice(["7", "9"])
            elif r == 3:
                e["d"] = rng.choice([x for x in ("7", "9", "200") if x != e.get("d")])
            elif r == 4:
                if "cv" in e and rng.random() < 0.4:
                    del e["cv"]
                else:
                    e["cv"] = rng.choice([w for w in self.WORDS if w != e.get("cv")])
            elif r == 5:
                w = rng.choice(self.WORDS)
                e["nl"] = sorted(set(e["nl"]) ^ {w})
            elif r == 6:
                w = rng.choice(self.WORDS)
                if w in e["sub"] and rng.random() < 0.5:
                    del e["sub"][w]
                else:
                    e["sub"][w] = rng.choice([x for x in self.WORDS if x != e["sub"].get(w)])
            elif r == 7:
                if "pv" in e:
                    del e["pv"]
                else:
                    e["pv"] = rng.choice(self.WORDS + [None])
            else:
                if "cd" in e:
                    del e["cd"]
                else:
                    e["cd"] = rng.choice(["x", "y"])
        return e

    def xml_inst(self, e):
        s = "<ul><k>%s</k>" % e["k"]
        if "v" in e:
            s += "<v>%s</v>" % e["v"]
        if "d" in e:
            s += "<d>%s</d>" % e["d"]
        if "cv" in e or "cd" in e:
            s += "<c>%s%s</c>" % ("<cv>%s</cv>" % e["cv"] if "cv" in e else "", "<cd>%s</cd>" % e["cd"] if "cd" in e else "")
        s += "".join("<nl>%s</nl>" % w for w in e["nl"])
        s += "".join("<sub><sk>%s</sk><sv>%s</sv></sub>" % kv for kv in sorted(e["sub"].items()))
        if "pv" in e:
            s += "<p>%s</p>" % ("<pv>%s</pv>" % e["pv"] if e["pv"] else "")
        return s + "</ul>"

    def xml(self, insts, others):
        s = "".join(self.xml_inst(e) for e in insts)
        for i, w in reversed(list(enumerate(self.wrap))):
            o = "<o%d>%s</o%d>" % (i, others[i], i) if others.get(i) else ""
            s = "<w%d>%s%s%s</w%d>" % (i, "<id>1</id>" if w == "l" else "", s, o, i)
        if not self.wrap:
            return s.replace("<ul>", '<ul xmlns="urn:verif:m1">')
        return s.replace("<w0>", '<w0 xmlns="urn:verif:m1">', 1)

    def gen(self, rng, tier, scale=1.0):
        rng = private_rng(rng, self.name)
        L = []
        for i in range(max(1, int((4000 if tier == "thorough" else 400) * scale))):
            yang = self.module(rng)
            keys = rng.sample(["k1", "k2", "k3", "k4", "k5", "k6"], rng.randrange(2, 6))
            a = [self.inst(rng, k) for k in keys]
            b = [dict(e) for e in a]
            kind = rng.choice(["move+change", "move+change", "move+change", "create+change", "move", "change", "move,change-other"])
            j = rng.randrange(len(b))
            if kind.startswith("move"):
                e = b.pop(j)
                # (towards the front: one move operation; towards the end the diff moves every instance that is passed)
                front = [p for p in range(len(b) + 1) if p < j]
                pos = rng.choice(front) if front and rng.random() < 0.75 else rng.choice([p for p in range(len(b) + 1) if p != j])
                b.insert(pos, e)
                if kind == "move+change":
                    b[pos] = self.change(rng, e)
                elif kind == "move,change-other":
                    o = rng.choice([p for p in range(len(b)) if p != pos])
                    b[o] = self.change(rng, b[o])
            elif kind == "create+change":
                nk = rng.choice([k for k in ("k1", "k2", "k3", "k4", "k5", "k6", "k7") if k not in keys])
                b.insert(rng.randrange(len(b) + 1), self.inst(rng, nk))
                o = rng.randrange(len(b))
                b[o] = self.change(rng, b[o]) if rng.random() < 0.5 else b[o]
            else:
                b[j] = self.change(rng, b[j])
            oa = {i: rng.choice(self.WORDS) for i in range(len(self.wrap)) if rng.random() < 0.3}
            ob = dict(oa) if rng.random() < 0.6 else {i: rng.choice(self.WORDS) for i in range(len(self.wrap)) if rng.random() < 0.3}
            if rng.random() < 0.1:
                a, b, oa, ob = b, a, ob, oa
            s = Script()
            s.ctx()
            s.mod(yang)
            s.parse(0, "x", self.xml(a, oa))
            s.parse(1, "x", self.xml(b, ob))
            ix = {}
            for opts in (DIFF_DEFAULTS, 0):
                ix["d", opts] = s.add("diff", "t0", "t1", opts, "t2")
                ix["dd", opts] = s.dump(2)
                ix["rev", opts] = s.add("rev", "t2", "t7")
                s.add("dup", "t1", "t8", DUPF)
                ix["ap", opts] = s.add("apply", "t8", "t7")
                if not opts:
                    ix["val", opts] = s.add("val", "t8", "c0", 0x2)
                ix["res", opts] = s.dump(8)
            ix["A"] = s.dump(0)
            ix["B"] = s.dump(1)
            line = s.line()
            self.info[line] = (ix, kind)
            L.append(line)
        return L

    def judge(self, line, out):
        from props import oracles
        inf = self.info.get(line)
        if inf is None:
            return None
        ix, kind = inf
        if out.startswith("CRASH(") or out == "TIMEOUT":
            return (None, "crash: " + out)
        r = results(out)
        if len(r) <= ix["B"] or r[1] != "0" or rc(r[2]) != 0 or rc(r[3]) != 0:
            return (None, "the generated module or trees were rejected: " + " | ".join(r[1:4])[:200])
        a = r[ix["A"]]
        first = None
        for opts in (DIFF_DEFAULTS, 0):
            what = "%s, diff options %d" % (kind, opts)
            if r[ix["d", opts]] != "0":
                return (None, "lyd_diff_siblings failed (%s): %s" % (what, r[ix["d", opts]]))
            deleted, moves = oracles.Diff.uord_ops(r[ix["dd", opts]], {"ul"})
            tag = "uord-reverse" if (deleted or moves >= 2) else None
            if r[ix["rev", opts]] != "0":
                return (tag, "lyd_diff_reverse_all failed (%s): %s" % (what, r[ix["rev", opts]]))
            if not r[ix["ap", opts]].startswith("0"):
                return (tag, "applying the reversed diff on B failed (%s): %s" % (what, r[ix["ap", opts]]))
            if "!" in r[ix["ap", opts]]:
                # (fixed finding uord-apply-move-first-sibling a54f28a)
                first = first or (None, "lyd_diff_apply_all of the reversed diff leaves *data behind the first sibling (%s)" % what)
            if not opts and rc(r[ix["val", opts]]) != 0:
                return (tag, "the tree after the reversed diff is not valid (%s): %s" % (what, r[ix["val", opts]]))
            if r[ix["res", opts]] != a:
                return (tag, "apply(reverse(diff(A,B)),B) differs from A (%s):\n%s" % (what, kn_delta(r[ix["res", opts]], a)))
        return first
