"""comps_types.py - correspondence components of slice `types` (property C03): integer, decimal64 and
boolean values and the range restriction; driver impl/t_types.c, model coq/{IntLex,Dec64,TypesMisc}.v.

Leaf names encode the type (same table in impl/t_types.c and ocaml/run_types.ml).

witness(line, model_out, impl_out) compares the implementation's answer with a strict RFC 7950 reading
(section 9.2 / 9.3 / 9.5, no white space) written down independently in Python below. Tags of the listed
deviations:
  ws-tolerated         surrounding isspace() characters accepted (stated as part of the accepted language)
  nul-truncation       integer value with an embedded NUL accepted as the text before the NUL. Outside the property: a
                       lexical value is a string of YANG characters (RFC 7950 6.1.3 excludes #x00), no parser can deliver
                       a NUL, and the C API takes C strings (value_len selects a prefix of one). The correspondence (T2)
                       still runs these inputs - the model truncates at the NUL as strndup() does - but the RFC oracle
                       does not judge them (it did in round 1: a false alarm of the oracle, see DESIGN.md).
A disagreement with the RFC that is none of these gets the tag None.

The three decimal64 deviations of round 1 (sign only accepted as 0.0, "-.5"/"+.5" accepted, value ending in '.'
accepted when the byte after the value is a digit) were fixed in /repo by commits f731599 and f933623; their tags
are retired: such inputs are rejected by the RFC reading, by the model and by the code, and a reappearance is
reported untagged (Dec64Next and Dec64ExactBuf are the regression checks for the over-read)."""
import re
from fractions import Fraction

from props.comps import Comp
from vlib import hexs, unhex

I64MIN, I64MAX, U64MAX = -2 ** 63, 2 ** 63 - 1, 2 ** 64 - 1
INT_BOUNDS = {"i8": (-128, 127), "i16": (-32768, 32767), "i32": (-2 ** 31, 2 ** 31 - 1), "i64": (I64MIN, I64MAX),
              "u8": (0, 255), "u16": (0, 65535), "u32": (0, 2 ** 32 - 1), "u64": (0, U64MAX)}
DEC_FD = {"d1": 1, "d2": 2, "d9": 9, "d18": 18}
# compiled range parts (decimal64: scaled by 10^fraction-digits); module text in impl/t_types.c
PARTS = {
    "i8r": [(-100, -10), (0, 0), (5, 20), (100, 127)],
    "i16r": [(-32768, -32000), (-1, 1), (32767, 32767)],
    "i32r": [(-2 ** 31, -1000), (-5, 5), (10, 10), (1000, 2000000000)],
    "i64r": [(I64MIN, I64MIN + 1), (-1, 1), (I64MAX - 1, I64MAX)],
    "u8r": [(1, 10), (20, 20), (200, 255)],
    "u16r": [(0, 0), (1000, 2000), (65535, 65535)],
    "u32r": [(10, 20), (2 ** 32 - 1, 2 ** 32 - 1)],
    "u64r": [(0, 9), (I64MAX, I64MAX + 1), (U64MAX - 1, U64MAX)],
    "d1r": [(I64MIN, -1005), (-10, 10), (9223372036854775800, I64MAX)],
    "d2r": [(-1050, -125), (0, 0), (314, 10000)],
    "d9r": [(-1, 1), (1000000000, 2500000000)],
    "d18r": [(-1500000000000000000, -1), (500000000000000000, 9000000000000000000)],
}
INT_LEAVES = list(INT_BOUNDS) + [k for k in PARTS if k[0] in "iu"]
DEC_LEAVES = list(DEC_FD) + [k for k in PARTS if k[0] == "d"]
LL_LEAVES = ["L" + k for k in list(INT_BOUNDS) + list(DEC_FD) + ["b"]]
WS = [b" ", b"\t", b"\n", b"\r", b"\x0b", b"\x0c"]
NEAR_WS = [b"\x08", b"\x0e", b"\x1c", b"\x1f", b"\x7f", b"\x85", b"\xa0", b"\xc2\xa0", b"\xe2\x80\x83"]
SMALL_ALPHABET = b"+-01259 x."


def base_name(name):
    if name.startswith("L"):
        name = name[1:]
    return name


def type_of(name):
    """-> (kind, key, parts) with kind in int/dec/bool"""
    n = base_name(name)
    parts = PARTS.get(n)
    b = n[:-1] if n.endswith("r") else n
    if b in INT_BOUNDS:
        return "int", b, parts
    if b in DEC_FD:
        return "dec", b, parts
    if b == "b":
        return "bool", b, None
    raise KeyError(name)


def in_parts(parts, v):
    return parts is None or any(lo <= v <= hi for lo, hi in parts)


def dec_canon(fd, n):
    if n == 0:
        return "0.0"
    ds = str(abs(n)).zfill(fd + 1)
    fp = ds[-fd:].rstrip("0") or "0"
    return ("-" if n < 0 else "") + ds[:-fd] + "." + fp


def rfc_value(name, s):
    """strict RFC 7950 reading: -> stored value (int / scaled int / bool) or None when not in the lexical/value space"""
    kind, b, parts = type_of(name)
    if kind == "bool":
        return {b"true": True, b"false": False}.get(s)
    if kind == "int":
        m = re.fullmatch(rb"([+-]?)([0-9]+)", s)
        if not m:
            return None
        v = int(m.group(2)) * (-1 if m.group(1) == b"-" else 1)
        lo, hi = INT_BOUNDS[b]
        return v if lo <= v <= hi and in_parts(parts, v) else None
    fd = DEC_FD[b]
    m = re.fullmatch(rb"([+-]?)([0-9]+)(?:\.([0-9]+))?", s)
    if not m:
        return None
    q = Fraction(int(m.group(2) + (m.group(3) or b"")), 10 ** len(m.group(3) or b"")) * 10 ** fd
    if q.denominator != 1:
        return None
    v = int(q) * (-1 if m.group(1) == b"-" else 1)
    return v if I64MIN <= v <= I64MAX and in_parts(parts, v) else None


def rfc_canon(name, v):
    kind, b, _ = type_of(name)
    if kind == "bool":
        return "true" if v else "false"
    if kind == "int":
        return str(v)
    return dec_canon(DEC_FD[b], v)


def rfc_store(name, s):
    """-> 'E' or hex of the canonical string, as the drivers print it"""
    v = rfc_value(name, s)
    return "E" if v is None else hexs(rfc_canon(name, v))


def strip_ws(s):
    return s.strip(b" \t\n\r\x0b\x0c")


def classify(name, s, impl):
    """impl = first token of the driver output. -> None when it is the strict RFC answer, else (tag, detail)"""
    want = rfc_store(name, s)
    if impl == want:
        return None
    kind = type_of(name)[0]
    det = "value %r on %s: implementation %s, RFC 7950 %s" % (s, name, impl, want)
    if want == "E" and impl != "E":
        t = strip_ws(s)
        if kind != "bool" and t != s and rfc_store(name, t) == impl:
            return "ws-tolerated", det
        if kind == "int" and b"\0" in s and not s.startswith(b"\0"):
            t = strip_ws(s.split(b"\0")[0])
            if rfc_store(name, t) == impl:
                return "nul-truncation", det
    return None, det


def defect_tag(name, s):
    """tag of the listed deviation under which the (white-space stripped) value s is accepted although it is
    outside the RFC language, or None"""
    kind = type_of(name)[0]
    if kind == "int" and b"\0" in s and not s.startswith(b"\0"):
        return "nul-truncation"
    return None


# ------------------------------------------------------------------------------------------------
# input material
# ------------------------------------------------------------------------------------------------
def small_strings(maxlen):
    out = [b""]
    layer = [b""]
    for _ in range(maxlen):
        layer = [p + bytes([c]) for p in layer for c in SMALL_ALPHABET]
        out += layer
    return out


def int_forms(rng, v, full=False):
    """lexical spellings of the integer v (valid and nearly valid)"""
    d = str(abs(v)).encode()
    sg = b"-" if v < 0 else b""
    out = [sg + d]
    if v >= 0:
        out.append(b"+" + d)
    if v == 0:
        out += [b"-0", b"+0", b"-00", b"00", b"-000000000000000000000000"]
    out.append(sg + b"0" + d)
    out.append(sg + b"0" * rng.choice([2, 7, 19, 20, 21, 40]) + d)
    w = rng.choice(WS)
    out += [w + sg + d, sg + d + w, w + sg + d + rng.choice(WS) + rng.choice(WS)]
    if full:
        for w in WS:
            out += [w + sg + d, sg + d + w, sg + w + d, sg + d[:1] + w + d[1:]]
        for w in NEAR_WS:
            out += [w + sg + d, sg + d + w]
        out += [sg + d + b"x", b"x" + sg + d, sg + d + b" x", sg + d + b".0", sg + d + b".", sg + d + b"e0", b"0x" + d,
                sg + sg + d, b"+" + sg + d, sg + d + b"-", sg + d + b"\0", sg + d + b"\0x", sg + d + b" \0 9", b"\0" + sg + d,
                b" \0" + sg + d, sg + d + b"L", sg + d + b"\xd9\xa1", b"\xef\xbc\x91" + d, sg + d + b" " * 50, b"\n" * 30 + sg + d]
    return out


def dec_forms(rng, fd, n, full=False):
    """lexical spellings of the decimal64 value n * 10^-fd"""
    ds = str(abs(n)).zfill(fd + 1)
    ip, fp = ds[:-fd].encode(), ds[-fd:].encode()
    sg = b"-" if n < 0 else b""
    fps = fp.rstrip(b"0")
    out = [sg + ip + b"." + fp, sg + ip + b"." + (fps or b"0")]
    if not fps:
        out += [sg + ip, sg + ip + b".", sg + ip + b".0", sg + ip + b"." + b"0" * (fd + 1), sg + ip + b"." + b"0" * 30]
    out.append(sg + ip + b"." + fp + b"0" * rng.choice([1, 2, 5, 20]))
    out.append(sg + ip + b"." + fp + rng.choice([b"1", b"5", b"01", b"9"]))
    if n >= 0:
        out.append(b"+" + ip + b"." + fp)
    out.append(sg + b"0" * rng.choice([1, 3, 20, 25]) + ip + b"." + fp)
    if ip == b"0":
        out += [sg + b"." + fp, b"+." + fp, b"." + fp, sg + b"." + (fps or b"0")]
    w = rng.choice(WS)
    out += [w + sg + ip + b"." + fp, sg + ip + b"." + fp + w, w + sg + ip + b"." + fps + rng.choice(WS)]
    if full:
        c = sg + ip + b"." + fp
        for w in WS:
            out += [w + c, c + w, sg + w + ip + b"." + fp, sg + ip + w + b"." + fp, sg + ip + b"." + w + fp, sg + ip + w, sg + ip + b"." + w]
        for w in NEAR_WS:
            out += [w + c, c + w]
        out += [c + b"x", b"x" + c, c + b" x", c + b".", c + b".1", sg + ip + b".." + fp, sg + ip + b"," + fp, c + b"e1", c + b"\0",
                c + b"\0x", b"\0" + c, sg + sg + c, c + b"-", sg + ip + b"\0." + fp, c + b"  \t\n", sg + ip + b".x", sg + ip + b". ",
                sg + ip + b" ." + fp]
    return out


SIGN_ONLY = [b"-", b"+", b"- ", b"+ ", b" -", b" +", b" - ", b"\t+\n", b"-\t", b"-\x0b\x0c", b"--", b"+-", b"-+", b"-.", b"+.", b".",
             b"-. ", b"-.x", b"-x", b"- 1", b"+ 1", b"-.5", b"+.5", b".5", b" -.5 ", b"-.50", b"-.05", b"+.0", b"-.0", b"-.00000", b"-0",
             b"+0", b"-0.0", b"-.", b"-\0", b"+\0", b"-\0 1", b"", b" ", b"\t\n", b"\0", b"0", b"0.", b"0.0", b".0", b"00.00"]
LONG_DIGITS = [b"9" * 19, b"9" * 20, b"9" * 21, b"9" * 40, b"9" * 100, b"1" + b"0" * 19, b"1" + b"0" * 20, b"1" + b"0" * 63,
               b"1" + b"0" * 64, b"1" + b"0" * 300, b"0" * 300 + b"1", b"0" * 64, b"18446744073709551615", b"18446744073709551616",
               b"18446744073709551614", b"18446744073709551620", b"18446744073709551609", b"1844674407370955161", b"1844674407370955162",
               b"184467440737095516150", b"9223372036854775807", b"9223372036854775808", b"9223372036854775809", b"36893488147419103232",
               b"340282366920938463463374607431768211456", b"27670116110564327424", b"9223372036854775807" + b"0" * 5, b"4" * 1000]


class TComp(Comp):
    driver = "t_types"
    slice = "types"

    def norm(self, line, out):
        return out

    def witness(self, line, m, o):
        f = line.split("\t")
        if f[0] in ("intv", "decv", "boolv", "decvn"):
            tok = o.split(" ")
            if len(tok) > 1:
                return None, "entry points disagree on %r (%s): %s" % (unhex(f[2]), f[1], o)
            if not re.fullmatch(r"E|-|([0-9a-f]{2})+", tok[0]):
                return None, "implementation failed on %r (%s): %s" % (unhex(f[2]), f[1], o)
            return classify(f[1], unhex(f[2]), tok[0])
        if f[0] in ("cmp", "sort"):
            a, b = unhex(f[2]), unhex(f[3])
            # judge on the white-space-stripped values so that only the comparison itself is judged
            st = (lambda x: x) if type_of(f[1])[0] == "bool" else strip_ws      # no white space around booleans
            va, vb = rfc_value(f[1], st(a)), rfc_value(f[1], st(b))
            if va is None or vb is None:
                want = "E"
            elif f[0] == "cmp":
                want = "0" if va == vb else "1"
            else:
                lo, hi = (vb, va) if vb < va else (va, vb)
                want = hexs(rfc_canon(f[1], lo)) + " " + hexs(rfc_canon(f[1], hi))
            if o != want:
                tag = None
                if want == "E" and o != "E":
                    # an operand outside the RFC language was stored: attribute it to the listed deviation, if any
                    tags = [defect_tag(f[1], x) for x, v in ((a, va), (b, vb)) if v is None]
                    tag = tags[0] if tags and all(tags) else None
                return tag, "%s of %r and %r on %s: implementation %s, RFC 7950 %s" % (f[0], a, b, f[1], o, want)
            return None
        if f[0] == "range":
            v = int(f[2])
            parts = [(int(f[i]), int(f[i + 1])) for i in range(3, len(f) - 1, 2)]
            srt = all(lo <= hi for lo, hi in parts) and all(parts[i][1] < parts[i + 1][0] for i in range(len(parts) - 1))
            if srt and parts:
                want = "1" if in_parts(parts, v) else "0"
                if o != want:
                    return None, "value %d, ascending parts %r: implementation %s, expected %s" % (v, parts, o, want)
            return None
        return None


class IntStore(TComp):
    """lyd_value_validate/lyd_new_term on int8..uint64 leaves vs IntLex.int_store/int_canon"""
    name = "intv"

    def gen(self, rng, tier, scale=1.0):
        L = []
        thorough = tier == "thorough"

        def add(leaf, s):
            L.append("intv\t%s\t%s" % (leaf, hexs(s)))
        # exhaustive small strings: quick <= 3 on i8/u8 (+ a sample of length 4), thorough <= 4 on i8/u8 and <= 5 sampled
        smalls = small_strings(4)
        for s in smalls:
            if len(s) <= 3 or thorough or rng.random() < 0.06:
                add("i8", s)
                add("u8", s)
        if thorough:
            for _ in range(self.n(tier, 0, 60000, scale)):
                s = bytes(rng.choice(SMALL_ALPHABET) for _ in range(rng.choice([5, 5, 6, 7])))
                add(rng.choice(["i8", "u8", "i8r", "u8r", "i16", "u64", "i64"]), s)
        # boundary-dense: every min/max and every range bound, +-1 and +-2, in many spellings
        for leaf in INT_LEAVES:
            _, b, parts = type_of(leaf)
            pts = set(INT_BOUNDS[b]) | {0, 1, -1, 9, 10, 11, 99, 100}
            for lo, hi in parts or []:
                pts |= {lo, hi}
            # bounds of the other widths matter too (overflow classes of strtoll/strtoull)
            for lo, hi in INT_BOUNDS.values():
                pts |= {lo, hi}
            for p in sorted(pts):
                for v in (p - 2, p - 1, p, p + 1, p + 2):
                    for s in int_forms(rng, v, full=(thorough or (v in INT_BOUNDS[b] and rng.random() < 0.5))):
                        add(leaf, s)
            for s in LONG_DIGITS:
                for t in (s, b"-" + s, b"+" + s, b" " + s + b"\n"):
                    add(leaf, t)
            for s in SIGN_ONLY:
                add(leaf, s)
        # random structured values with mutations
        for _ in range(self.n(tier, 1500, 150000, scale)):
            leaf = rng.choice(INT_LEAVES)
            b = type_of(leaf)[1]
            lo, hi = INT_BOUNDS[b]
            r = rng.random()
            if r < 0.4:
                v = rng.randint(lo, hi)
            elif r < 0.7:
                v = rng.choice([lo, hi, 0]) + rng.randint(-300, 300)
            else:
                v = rng.randint(-2 ** 66, 2 ** 66)
            s = rng.choice(int_forms(rng, v, full=rng.random() < 0.3))
            if rng.random() < 0.2:
                s = bytes(rng.choice(s) if rng.random() < 0.9 else rng.choice(b"+- \t0x.9") for _ in range(len(s)))
            add(leaf, s)
        return L


class Dec64Store(TComp):
    """lyd_value_validate/lyd_new_term on decimal64 leaves vs Dec64.dec64_store/dec64_canon"""
    name = "decv"

    def gen(self, rng, tier, scale=1.0):
        L = []
        thorough = tier == "thorough"

        def add(leaf, s):
            L.append("decv\t%s\t%s" % (leaf, hexs(s)))
        for s in small_strings(4):
            if len(s) <= 3 or thorough or rng.random() < 0.06:
                add("d1", s)
                add("d2", s)
        if thorough:
            for _ in range(self.n(tier, 0, 80000, scale)):
                s = bytes(rng.choice(SMALL_ALPHABET) for _ in range(rng.choice([5, 5, 6, 7, 9])))
                add(rng.choice(DEC_LEAVES), s)
        for leaf in DEC_LEAVES:
            _, b, parts = type_of(leaf)
            fd = DEC_FD[b]
            pts = {I64MIN, I64MAX, 0, 1, -1, 10 ** fd, -10 ** fd, 10 ** fd - 1, 10 ** (fd - 1), 5 * 10 ** (fd - 1), 15 * 10 ** (fd - 1),
                   10 ** 18, -10 ** 18, 123456789012345678}
            for lo, hi in parts or []:
                pts |= {lo, hi}
            for p in sorted(pts):
                for n in (p - 1, p, p + 1, p - 10 ** fd, p + 10 ** fd, p * 10, p // 10):
                    for s in dec_forms(rng, fd, n, full=(thorough or rng.random() < 0.15)):
                        add(leaf, s)
            for s in LONG_DIGITS:
                for t in (s, b"-" + s, s + b".0", b"0." + s, b"-0." + s, s[:-fd] + b"." + s[-fd:], b"-" + s[:-fd] + b"." + s[-fd:],
                          s[:-fd - 1] + b"." + s[-fd - 1:], s[:-fd + 1] + b"." + s[-fd + 1:] if fd > 1 else s):
                    add(leaf, t)
            for s in SIGN_ONLY:
                add(leaf, s)
            for k in range(0, fd + 3):
                for last in (b"0", b"1"):
                    if k:
                        add(leaf, b"1." + b"0" * (k - 1) + last)
                        add(leaf, b"-0." + b"0" * (k - 1) + last + b"0" * 3)
        for _ in range(self.n(tier, 1500, 150000, scale)):
            leaf = rng.choice(DEC_LEAVES)
            fd = DEC_FD[type_of(leaf)[1]]
            r = rng.random()
            if r < 0.4:
                n = rng.randint(-10 ** (fd + 2), 10 ** (fd + 2))
            elif r < 0.7:
                n = rng.choice([I64MIN, I64MAX, 0]) + rng.randint(-300, 300)
            else:
                n = rng.randint(-2 ** 65, 2 ** 65)
            s = rng.choice(dec_forms(rng, fd, n, full=rng.random() < 0.3))
            if rng.random() < 0.2:
                s = bytes(rng.choice(s) if rng.random() < 0.9 else rng.choice(b"+- \t0x.9") for _ in range(len(s)))
            add(leaf, s)
        return L


class Dec64Next(TComp):
    """regression of the over-read fixed by /repo commit f731599 (lyplg_type_parse_dec64 used to read value[len + 1]
    beyond value_len): lyd_value_validate with chosen bytes placed right after the value. The model has no such
    input any more, so the implementation's answer must not depend on them"""
    name = "decvn"

    def gen(self, rng, tier, scale=1.0):
        L = []
        vals = [b"1.", b"-1.", b"+1.", b"0.", b"-.", b"+.", b".", b"1", b"1.5", b"1.0", b" 1.", b"1. ", b"12345.", b"-", b"+", b"1..", b"1.x",
                b"00.", b"9223372036854775807.", b"922337203685477580.", b"-9223372036854775808.", b"1.50", b"x.", b"1 ."]
        nxts = [b"0", b"5", b"9", b"\0", b" ", b".", b"<", b"\"", b"x", b"/", b":", b"55", b"5x", b"\n"]
        for leaf in DEC_LEAVES:
            for v in vals:
                for nx in nxts:
                    L.append("decvn\t%s\t%s\t%s" % (leaf, hexs(v), hexs(nx)))
        for _ in range(self.n(tier, 300, 30000, scale)):
            s = bytes(rng.choice(b"+-0159 .") for _ in range(rng.randrange(0, 6)))
            if rng.random() < 0.6:
                s += b"."
            L.append("decvn\t%s\t%s\t%s" % (rng.choice(DEC_LEAVES), hexs(s), hexs(bytes([rng.choice(b"0123456789 .x<\"\0")]))))
        return L


class BoolStore(TComp):
    """boolean leaves vs TypesMisc.bool_store"""
    name = "boolv"

    def gen(self, rng, tier, scale=1.0):
        vals = [b"true", b"false", b"", b"True", b"TRUE", b"FALSE", b"False", b"1", b"0", b"t", b"f", b"tru", b"truee", b"fals", b"falsee",
                b" true", b"true ", b"\ttrue", b"true\n", b" false", b"false ", b"truefalse", b"true\0", b"false\0", b"true\0x", b"tru\0",
                b"\0true", b"yes", b"no", b"on", b"off", b"null", b"tr ue", b"t\0ue", b"false\0\0", b"trux", b"falsx", b"xrue", b"xalse"]
        L = ["boolv\tb\t" + hexs(v) for v in vals]
        for _ in range(self.n(tier, 300, 20000, scale)):
            s = bytearray(rng.choice([b"true", b"false"]))
            for _ in range(rng.choice([0, 1, 1, 2])):
                r = rng.random()
                if r < 0.4 and s:
                    s[rng.randrange(len(s))] = rng.choice(b"truefalsTF \0\t")
                elif r < 0.7:
                    s.insert(rng.randrange(len(s) + 1), rng.choice(b"truefals \0\n"))
                elif s:
                    del s[rng.randrange(len(s))]
            L.append("boolv\tb\t" + hexs(bytes(s)))
        return L


def value_pool(rng, leaf, k):
    """k lexical values for the leaf, mostly valid, clustered so that equal values are frequent"""
    kind, b, _ = type_of(leaf)
    out = []
    if kind == "bool":
        return [rng.choice([b"true", b"false", b"true", b"false", b"x", b" true"]) for _ in range(k)]
    if kind == "int":
        lo, hi = INT_BOUNDS[b]
        centers = [lo, hi, 0, rng.randint(lo, hi)]
        for _ in range(k):
            v = rng.choice(centers) + rng.randint(-2, 2)
            out.append(rng.choice(int_forms(rng, v)))
        return out
    fd = DEC_FD[b]
    centers = [I64MIN, I64MAX, 0, 10 ** fd, rng.randint(-10 ** (fd + 1), 10 ** (fd + 1))]
    for _ in range(k):
        n = rng.choice(centers) + rng.choice([-10 ** fd, -10, -1, 0, 0, 1, 10, 10 ** fd])
        out.append(rng.choice(dec_forms(rng, fd, n)))
    return out


class ValCmp(TComp):
    """lyd_value_compare / lyd_compare_single vs the model's compare on stored values"""
    name = "cmp"

    def gen(self, rng, tier, scale=1.0):
        L = []
        fixed = [("i8", b"1", b"+1"), ("i8", b"01", b"1"), ("i8", b"-0", b"0"), ("u8", b"-0", b"+0"), ("i8", b" 1", b"1\n"), ("i8", b"-128", b"127"),
                 ("u64", b"18446744073709551615", b"18446744073709551614"), ("u64", b"9223372036854775808", b"9223372036854775807"),
                 ("i64", b"-9223372036854775808", b"9223372036854775807"), ("d1", b"1", b"1.0"), ("d2", b"1.5", b"1.50"),
                 ("d2", b"-", b"0"), ("d2", b"+", b"-0.00"), ("d18", b"0.000000000000000001", b"0.000000000000000010"),
                 ("d18", b"-9.223372036854775808", b"9.223372036854775807"), ("d1", b"-.5", b"-0.5"), ("b", b"true", b"false"),
                 ("b", b"true", b"true"), ("b", b"false", b"false"), ("b", b"true", b"x"), ("i8", b"1", b"1\0x"), ("i8", b"1", b"x"),
                 ("i8", b"x", b"1")]
        for leaf, a, b in fixed:
            L.append("cmp\t%s\t%s\t%s" % (leaf, hexs(a), hexs(b)))
        leaves = INT_LEAVES + DEC_LEAVES + ["b"]
        for _ in range(self.n(tier, 250, 15000, scale)):
            leaf = rng.choice(leaves)
            pool = [p for p in value_pool(rng, leaf, 4) if b"\0" not in p]
            for a in pool[:2]:
                for b in pool:
                    L.append("cmp\t%s\t%s\t%s" % (leaf, hexs(a), hexs(b)))
        return L


class ValSort(TComp):
    """order of two instances of a system-ordered leaf-list (lyds, plugin sort callback) vs the model's sort"""
    name = "sort"

    def gen(self, rng, tier, scale=1.0):
        L = []
        fixed = [("Li8", b"1", b"2"), ("Li8", b"2", b"1"), ("Li8", b"-1", b"1"), ("Li8", b"1", b"-1"), ("Li8", b"-128", b"127"),
                 ("Li8", b"127", b"-128"), ("Li8", b"10", b"9"), ("Lu8", b"10", b"9"), ("Lu8", b"255", b"0"), ("Lu64", b"18446744073709551615", b"0"),
                 ("Lu64", b"9223372036854775808", b"9223372036854775807"), ("Lu64", b"9223372036854775807", b"9223372036854775808"),
                 ("Li64", b"-9223372036854775808", b"9223372036854775807"), ("Li64", b"9223372036854775807", b"-9223372036854775808"),
                 ("Ld1", b"10.0", b"9.9"), ("Ld1", b"-0.1", b"0.1"), ("Ld1", b"0.1", b"-0.1"), ("Ld2", b"1.5", b"1.50"), ("Ld2", b"-", b"+"),
                 ("Ld18", b"9.223372036854775807", b"-9.223372036854775808"), ("Ld18", b"0.000000000000000002", b"0.000000000000000001"),
                 ("Lb", b"true", b"false"), ("Lb", b"false", b"true"), ("Lb", b"true", b"true"), ("Li8", b"1", b"x"), ("Li8", b"x", b"1"),
                 ("Lu32", b"4294967295", b"2147483648"), ("Li32", b"-2147483648", b"2147483647"), ("Lu16", b"65535", b"32768"),
                 ("Li16", b"-32768", b"32767")]
        for leaf, a, b in fixed:
            L.append("sort\t%s\t%s\t%s" % (leaf, hexs(a), hexs(b)))
        for _ in range(self.n(tier, 250, 15000, scale)):
            leaf = rng.choice(LL_LEAVES)
            pool = [p for p in value_pool(rng, leaf, 4) if b"\0" not in p]
            for a in pool[:2]:
                for b in pool:
                    L.append("sort\t%s\t%s\t%s" % (leaf, hexs(a), hexs(b)))
        return L


class RangeCheck(TComp):
    """lyplg_type_validate_range on hand-made part lists (ascending as the compiler makes them, and also unsorted /
    overlapping / empty ones) vs TypesMisc.validate_range"""
    name = "range"

    def gen(self, rng, tier, scale=1.0):
        L = []

        def add(kind, v, parts):
            L.append("range\t%s\t%d\t%s" % (kind, v, "\t".join("%d\t%d" % p for p in parts)) if parts else "range\t%s\t%d" % (kind, v))
        for kind, lo, hi in (("s", I64MIN, I64MAX), ("u", 0, U64MAX)):
            add(kind, 0, [])
            add(kind, hi, [])
            for _ in range(self.n(tier, 400, 30000, scale)):
                k = rng.choice([1, 1, 2, 3, 4, 6])
                r = rng.random()
                if r < 0.3:
                    pts = sorted(rng.randint(max(lo, -50), 50) for _ in range(2 * k))
                elif r < 0.6:
                    pts = sorted(rng.choice([lo, hi, I64MAX, I64MAX + 1 if kind == "u" else 0]) + rng.randint(-5, 5) for _ in range(2 * k))
                    pts = [min(max(p, lo), hi) for p in pts]
                else:
                    pts = sorted(rng.randint(lo, hi) for _ in range(2 * k))
                parts = [(pts[2 * i], pts[2 * i + 1]) for i in range(k)]
                if rng.random() < 0.25:
                    rng.shuffle(parts)          # not ascending: never produced by the schema compiler
                cands = [lo, hi, 0 if kind == "s" else I64MAX]
                for a, b in parts:
                    cands += [a - 1, a, a + 1, b - 1, b, b + 1]
                for v in cands:
                    if lo <= v <= hi:
                        add(kind, v, parts)
        return L


class Dec64ExactBuf:
    """oracle (ASan build): lyd_value_validate() on a value held in a heap block of exactly value_len bytes must not
    read outside the block. Regression check: before /repo commit f731599 lyplg_type_parse_dec64 read value[len + 1]
    for a value that ends in a period; any report is now unexpected (no tag)."""
    name = "decvx"
    driver = "t_types"
    kinds = ["asan"]
    quick_sanitize = True

    def gen(self, rng, tier, scale=1.0):
        vals = [b"1.", b"-1.", b"0.", b"-.", b"+.", b" 1.", b"12.", b"1.5", b"1", b"-", b"1.0", b"1. ", b".", b"1..", b"x", b"", b" ",
                b"+", b"1.50", b"-0.5 ", b"9223372036854775807.", b"123456789012345678901234567890."]
        L = ["decvx\t%s\t%s" % (leaf, hexs(v)) for leaf in ("d1", "d18", "d2r") for v in vals]
        L += ["decvx\t%s\t%s" % (leaf, hexs(v)) for leaf in ("i8", "u64", "b") for v in (b"1", b"1 ", b"-", b"true", b"12", b"+", b" ")]
        n = 200 if tier != "thorough" else 20000
        for _ in range(int(n * scale)):
            s = bytes(rng.choice(b"+-0159 .") for _ in range(rng.randrange(0, 6)))
            L.append("decvx\t%s\t%s" % (rng.choice(DEC_LEAVES + ["i8", "u8", "i64"]), hexs(s)))
        return L

    def judge(self, line, out):
        f = line.split("\t")
        if out.startswith("CRASH") or out == "TIMEOUT":
            s = unhex(f[2])
            return None, "lyd_value_validate(%s, %r, len %d) on an exactly sized heap block: %s" % (f[1], s, len(s), out)
        return None


class RfcStoreOracle:
    """oracle: the verdict and canonical string of lyd_value_validate()/lyd_new_term() on integer, decimal64 and
    boolean leaves against the strict RFC 7950 reading written in Python above (independent of the Coq model).
    The documented white-space tolerance is not reported; every other departure is, under the tags listed in the
    module docstring (None for an unexpected one)."""
    name = "types-rfc"
    driver = "t_types"

    def gen(self, rng, tier, scale=1.0):
        L = []
        for c in (IntStore(), Dec64Store(), Dec64Next(), BoolStore()):
            L += c.gen(rng, tier, 0.3 * scale)
        return L

    def judge(self, line, out):
        f = line.split("\t")
        tok = out.split(" ")
        if len(tok) > 1:
            return None, "entry points disagree on %r (%s): %s" % (unhex(f[2]), f[1], out)
        if not re.fullmatch(r"E|-|([0-9a-f]{2})+", tok[0]):
            return None, "implementation failed on %r (%s): %s" % (unhex(f[2]), f[1], out)
        r = classify(f[1], unhex(f[2]), tok[0])
        if r and r[0] not in ("ws-tolerated", "nul-truncation"):
            return r
        return None


ALL = [IntStore, Dec64Store, Dec64Next, BoolStore, ValCmp, ValSort, RangeCheck]
