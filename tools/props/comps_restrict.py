"""comps_restrict.py - correspondence components and RFC oracle of slice `restrict` (property C11): range / length
restrictions along typedef chains; driver impl/t_restrict.c, model coq/Restrict.v (ocaml/run_restrict.ml).

Components (T2, model vs lys_compile_type_range / lys_parse_mem + lyd_value_validate):
  RangeDirect   rngd   the compiler of one restriction text called directly with a hand-made base restriction
  RangeChain    chain  typedef chains of depth 1-4 through the YANG parser, the compiled parts of the leaf type and
                       the acceptance of values around every boundary
Oracle (search, the library vs an independent Python reading of RFC 7950 9.2.4 / 9.4.4 / ABNF range-arg):
  RestrictRfc   chains whose texts are RFC-grammatical or carry ONE labelled departure from the grammar; the value set
                of the derived type must be the intersection along the chain. Tags of the listed deviations:
    range-repeated-dots         1..9..3 accepted as 1..3
    range-max-touching          x..M | max accepted although the parts overlap
    range-dec64-sign-only       decimal64 boundary - or + accepted as 0
    range-lenient-number        + sign, leading zeros, -0 for unsigned / length, -.5
    range-touching-base         3..7 rejected under 1..5 | 6..9 (value set is a subset, no single base part holds it)
    range-kw-position           min not as first / max not as last boundary rejected (0..min, max..max)
    range-dec64-trailing-zeros  1.50 rejected as boundary of a decimal64 with fraction-digits 1
Fixed in /repo and no longer tolerated (a reappearance is a plain violation; the generators keep producing the shapes):
parts not separated by | (1 50; commit 72878af) and two | in a row (1||, heap over-read; commit b6c3725).
"""
import re
from fractions import Fraction

from props.comps import Comp
from vlib import hexs, unhex

I64MIN, I64MAX, U64MAX = -2 ** 63, 2 ** 63 - 1, 2 ** 64 - 1
INT_BOUNDS = {"int8": (-128, 127), "int16": (-32768, 32767), "int32": (-2 ** 31, 2 ** 31 - 1), "int64": (I64MIN, I64MAX),
              "uint8": (0, 255), "uint16": (0, 65535), "uint32": (0, 2 ** 32 - 1), "uint64": (0, U64MAX)}


class Ty:
    """a restricted built-in type; values are the stored integers (decimal64: scaled by 10^fd)"""

    def __init__(self, name, fd=0):
        self.name = name
        self.fd = fd
        self.length = name in ("string", "binary")
        if name == "decimal64":
            self.lo, self.hi = I64MIN, I64MAX
        elif self.length:
            self.lo, self.hi = 0, U64MAX
        else:
            self.lo, self.hi = INT_BOUNDS[name]

    def key(self):
        return "%s\t%d" % (self.name, self.fd)

    def fmt(self, v, rng=None, style=None):
        """text of the stored value v; style: None canonical-ish, or one of the lexical variants"""
        if self.name != "decimal64":
            return str(v)
        fd = self.fd
        ds = str(abs(v)).zfill(fd + 1)
        ip, fp = ds[:-fd], ds[-fd:]
        sg = "-" if v < 0 else ""
        st = style if style is not None else (rng.randrange(4) if rng else 0)
        if st == 0:                             # shortest: integer when possible
            fp2 = fp.rstrip("0")
            return sg + ip + ("." + fp2 if fp2 else "")
        if st == 1:                             # canonical data form
            return sg + ip + "." + (fp.rstrip("0") or "0")
        if st == 2:                             # all fraction digits
            return sg + ip + "." + fp
        fp2 = fp.rstrip("0")
        return sg + ip + ("." + fp2 if fp2 else "")

    def pool(self, rng):
        """boundary-dense numbers (stored integers), some beyond the type"""
        lo, hi = self.lo, self.hi
        base = {lo, lo + 1, lo + 2, hi, hi - 1, hi - 2, 0, 1, 2, 3, 5, 6, 7, 9, 10, 11}
        if lo < 0:
            base |= {-1, -2, -5, -10}
        if self.name == "decimal64":
            s = 10 ** self.fd
            base |= {s, 2 * s, 5 * s, -s, s // 2 if s > 1 else 1, 15 * s // 10, 10 * s, s + 1, s - 1,
                     9 * s, -9 * s, -5 * s}
            if self.fd == 18:
                base |= {9 * s + 1, -9 * s - 1}
        if self.length:
            base |= {20, 21, 63, 64, 65, 255, 256, 70000}
        if hi > 1000:
            base |= {100, 127, 128, 255, 256, 1000, 65535, 65536}
        out = sorted(v for v in base if lo <= v <= hi)
        return out

    def beyond(self):
        return [self.lo - 1, self.hi + 1, self.hi + 2, 2 ** 63, 2 ** 64, -2 ** 63 - 1, 10 ** 20, -10 ** 20]


TYPES = [Ty("int8"), Ty("uint8"), Ty("int32"), Ty("uint64"), Ty("decimal64", 1), Ty("decimal64", 2), Ty("decimal64", 18),
         Ty("string"), Ty("int16"), Ty("uint16"), Ty("uint32"), Ty("int64"), Ty("binary"), Ty("decimal64", 9)]
TY_WEIGHT = [6, 6, 4, 4, 4, 4, 4, 5, 1, 1, 1, 3, 2, 1]
WS_YANG = [" ", "\t", "\n", "  ", " \t "]
WS_ALL = WS_YANG + ["\r", "\x0b", "\x0c", "\r\n"]


def ws(rng, always=False, chars=WS_YANG):
    r = rng.random()
    if r < (0.0 if always else 0.45):
        return ""
    if r < 0.9:
        return " "
    return rng.choice(chars)


def render(rng, ty, parts, chars=WS_YANG, style=None):
    """parts: list of (lo, hi) with lo/hi = int | 'min' | 'max'; hi None = single value"""
    out = ws(rng, chars=chars) if rng.random() < 0.2 else ""
    for i, (lo, hi) in enumerate(parts):
        if i:
            out += ws(rng, chars=chars) + "|" + ws(rng, chars=chars)
        out += lo if isinstance(lo, str) else ty.fmt(lo, rng, style)
        if hi is not None:
            out += ws(rng, chars=chars) + ".." + ws(rng, chars=chars)
            out += hi if isinstance(hi, str) else ty.fmt(hi, rng, style)
    if rng.random() < 0.2:
        out += ws(rng, chars=chars)
    return out


def pick_parts(rng, ty, inside=None, kmax=4):
    """ascending disjoint parts drawn from the pool (inside = list of (lo, hi) to stay within, or None)"""
    pool = ty.pool(rng)
    if inside:
        cand = set()
        for lo, hi in inside:
            for v in (lo, lo + 1, hi - 1, hi, (lo + hi) // 2, lo + 2, hi - 2):
                if lo <= v <= hi:
                    cand.add(v)
            cand |= {v for v in pool if lo <= v <= hi}
        pool = sorted(cand)
    k = rng.randrange(1, kmax + 1)
    n = min(len(pool), rng.randrange(k, 2 * k + 1))
    pts = sorted(rng.sample(pool, n))
    parts = []
    i = 0
    while i < len(pts):
        if i + 1 < len(pts) and rng.random() < 0.6:
            lo, hi = pts[i], pts[i + 1]
            # a part must not span a gap of the enclosing restriction (most of the time)
            if inside and not any(a <= lo and hi <= b for a, b in inside) and rng.random() < 0.85:
                parts.append((lo, None))
                i += 1
                continue
            parts.append((lo, hi))
            i += 2
        else:
            parts.append((pts[i], None))
            i += 1
    return parts


def with_keywords(rng, ty, parts, base):
    """replace the first lower bound by min / the last upper bound by max now and then"""
    parts = list(parts)
    bmin = base[0][0] if base else ty.lo
    bmax = base[-1][1] if base else ty.hi
    if parts and rng.random() < 0.3:
        lo, hi = parts[0]
        if lo == bmin or rng.random() < 0.3:
            parts[0] = ("min", hi)
    if parts and rng.random() < 0.3:
        lo, hi = parts[-1]
        if hi is None:
            if lo == bmax or rng.random() < 0.15:
                parts[-1] = ("max", None)
        elif hi == bmax or rng.random() < 0.3:
            parts[-1] = (lo, "max")
    return parts


def resolve(parts, ty, base):
    bmin = base[0][0] if base else ty.lo
    bmax = base[-1][1] if base else ty.hi
    out = []
    for lo, hi in parts:
        lo = bmin if lo == "min" else bmax if lo == "max" else lo
        hi = lo if hi is None else (bmin if hi == "min" else bmax if hi == "max" else hi)
        out.append((lo, hi))
    return out


MUTATIONS = ["swap", "touch", "overlap", "nobar", "dots2", "bar2", "trailbar", "leadbar", "midmax", "latemin", "garbage",
             "beyond", "desc", "plus", "zeros", "fracmany", "trunc", "widen", "signonly", "nodigit", "dotonly", "maxtouch"]


def mutate_text(rng, ty, parts, base, chars):
    """one malformed / illegal variant of a legal restriction"""
    m = rng.choice(MUTATIONS)
    parts = list(parts)
    txt = None
    if m == "swap" and len(parts) > 1:
        i = rng.randrange(len(parts) - 1)
        parts[i], parts[i + 1] = parts[i + 1], parts[i]
    elif m == "touch" and len(parts) > 1:
        i = rng.randrange(len(parts) - 1)
        lo, hi = parts[i]
        end = hi if hi is not None else lo
        if isinstance(end, int):
            parts[i + 1] = (end, parts[i + 1][1] if isinstance(parts[i + 1][1], int) and parts[i + 1][1] >= end else None)
    elif m == "overlap" and len(parts) > 1:
        i = rng.randrange(len(parts) - 1)
        nlo = parts[i + 1][0]
        if isinstance(nlo, int) and isinstance(parts[i][0], int):
            parts[i] = (parts[i][0], nlo + rng.choice([0, 1]))
    elif m == "desc":
        i = rng.randrange(len(parts))
        lo, hi = parts[i]
        if isinstance(lo, int) and isinstance(hi, int):
            parts[i] = (hi, lo)
    elif m == "beyond":
        i = rng.randrange(len(parts))
        v = rng.choice(ty.beyond())
        parts[i] = (v, None) if rng.random() < 0.5 or not isinstance(parts[i][0], int) else (parts[i][0], v)
    elif m == "widen" and base:
        # one step outside a base part
        b = rng.choice(base)
        v = rng.choice([b[0] - 1, b[1] + 1])
        parts = [(v, None)] if rng.random() < 0.3 else sorted(parts + [(v, None)], key=lambda p: p[0] if isinstance(p[0], int) else (ty.lo - 2 if p[0] == "min" else ty.hi + 2))
    elif m == "midmax" and len(parts) > 1:
        parts[rng.randrange(len(parts) - 1)] = ("max", None)
    elif m == "latemin" and len(parts) > 1:
        parts[rng.randrange(1, len(parts))] = ("min", None)
    elif m == "maxtouch":
        lo, hi = parts[-1]
        bmax = base[-1][1] if base else ty.hi
        parts[-1] = (lo if isinstance(lo, int) and lo <= bmax else bmax, "max") if rng.random() < 0.5 else (bmax, None)
        parts.append(("max", None))
    txt = render(rng, ty, parts, chars)
    if m == "nobar" and "|" in txt:
        i = [k for k, ch in enumerate(txt) if ch == "|"]
        k = rng.choice(i)
        txt = txt[:k] + rng.choice([" ", "", "  "]) + txt[k + 1:]
    elif m == "nobar":
        txt = txt + rng.choice([" ", ""]) + ty.fmt(rng.choice(ty.pool(rng)), rng)
    elif m == "dots2" and ".." in txt:
        k = txt.index("..")
        txt = txt[:k] + rng.choice(["....", ".. ..", "..." , ". ."]) + txt[k + 2:]
    elif m == "dots2":
        txt = txt + ".." + ty.fmt(rng.choice(ty.pool(rng)), rng) + ".." + ty.fmt(rng.choice(ty.pool(rng)), rng)
    elif m == "bar2":
        txt = txt.replace("|", "||", 1) if "|" in txt else txt + "||" + ty.fmt(ty.hi, rng)
    elif m == "trailbar":
        txt = txt + rng.choice(["|", " | ", "..", " .. "])
    elif m == "leadbar":
        txt = rng.choice(["|", " | ", "..", " .. "]) + txt
    elif m == "garbage":
        k = rng.randrange(len(txt) + 1)
        txt = txt[:k] + rng.choice(["x", ",", ";", ".", "e", "m", "mi", "ma", "minn", "-", "+", "0x1", "_", "/", "*", "'"]) + txt[k:]
    elif m == "plus":
        txt = re.sub(r"(?<![0-9.])([0-9])", lambda mo: "+" + mo.group(1), txt, count=1)
    elif m == "zeros":
        txt = re.sub(r"(?<![0-9.])([0-9])", lambda mo: rng.choice(["0", "00", "-0", "-"]) + mo.group(1), txt, count=1)
    elif m == "fracmany" and ty.name == "decimal64":
        txt = re.sub(r"([0-9]+)(\.[0-9]+)?", lambda mo: mo.group(1) + (mo.group(2) or ".") + rng.choice(["0", "00", "1"]) * rng.choice([1, ty.fd, ty.fd + 1]), txt, count=1)
    elif m == "trunc":
        txt = txt[:rng.randrange(len(txt) + 1)]
    elif m == "signonly":
        txt = re.sub(r"-?[0-9]+(\.[0-9]+)?", lambda mo: rng.choice(["-", "+"]), txt, count=1)
    elif m == "nodigit":
        txt = re.sub(r"(-?)[0-9]+\.([0-9]+)", lambda mo: (mo.group(1) or rng.choice(["", "+", "-"])) + "." + mo.group(2), txt, count=1)
    elif m == "dotonly":
        txt = re.sub(r"([0-9]+)(?![0-9.])", lambda mo: mo.group(1) + ".", txt, count=1)
    return txt


def probe_values(ty, levels, rng, limit=28):
    """values around every boundary of every level (texts)"""
    vs = set()
    for parts in levels:
        for lo, hi in parts:
            for v in (lo - 1, lo, lo + 1, hi - 1, hi, hi + 1):
                vs.add(v)
    vs |= {ty.lo, ty.hi, ty.lo - 1, ty.hi + 1, 0}
    vs = sorted(vs)
    if ty.length:
        vs = [v for v in vs if 0 <= v <= 300]
    if len(vs) > limit:
        vs = sorted(rng.sample(vs, limit))
    out = []
    for v in vs:
        if ty.length:
            out.append(str(v))
        elif ty.name == "decimal64":
            out.append(ty.fmt(v, style=1))
        else:
            out.append(str(v))
    return out


def gen_chain(rng, ty, chars=WS_YANG, p_mut=0.25, depth=None):
    """-> (list of texts or None, list of resolved levels as far as they are legal)"""
    depth = depth or rng.choice([1, 1, 2, 2, 3, 4])
    texts = []
    levels = []
    base = None
    for d in range(depth):
        if d and rng.random() < (0.3 if ty.name == "string" else 0.12):
            # no restriction of its own: the compiled type of the base is shared; for strings also a level with only a
            # pattern, which COPIES the inherited (possibly multi-part) length
            texts.append("~p" if ty.name == "string" and rng.random() < 0.7 else None)
            continue
        parts = pick_parts(rng, ty, inside=base)
        parts = with_keywords(rng, ty, parts, base)
        if rng.random() < p_mut:
            texts.append(mutate_text(rng, ty, parts, base, chars))
        else:
            texts.append(render(rng, ty, parts, chars))
        base = resolve(parts, ty, base)
        levels.append(base)
    return texts, levels


def chain_line(ty, texts, values):
    """a text None = typedef without a restriction; "~p" = (string) typedef that adds only a pattern"""
    return "chain\t%s\t%d\t%s\t%d%s" % (ty.key(), len(texts), "\t".join("~" if t is None else "~p" if t == "~p" else hexs(t.encode("latin-1")) for t in texts),
                                      len(values), "".join("\t" + hexs(v) for v in values))


def direct_line(ty, text, base):
    return "rngd\t%s\t%s\t%d%s" % (ty.key(), hexs(text.encode("latin-1")), len(base), "".join("\t%d\t%d" % p for p in base))


FIXED_DIRECT = [
    # (type, fd, text, base)
    ("uint8", 0, "5 1", []), ("uint8", 0, "1 2 | 3", []), ("uint8", 0, "1 | 5 3", []), ("uint8", 0, "1..2..3", []),
    ("uint8", 0, "1..9..3", []), ("uint8", 0, "1....5", []), ("uint8", 0, "min5", []), ("uint8", 0, "5max", []),
    ("int8", 0, "1-2", []), ("int8", 0, "127 | max", []), ("int8", 0, "5..127 | max", []), ("int8", 0, "+5", []),
    ("int8", 0, "05", []), ("uint8", 0, "-0", []), ("uint8", 0, "1 50", [(1, 10)]), ("uint8", 0, "7 | max", [(1, 5), (7, 7)]),
    ("decimal64", 1, "1.50", []), ("decimal64", 1, "-.5", []), ("decimal64", 2, "1.5..2", []), ("decimal64", 2, "1...2", []),
    ("decimal64", 18, "10", []), ("decimal64", 18, "9.223372036854775807", []), ("decimal64", 18, "min..max", []),
    ("string", 0, "-1", []), ("string", 0, "-0..5", []), ("uint64", 0, "0..18446744073709551615", []),
    ("uint64", 0, "18446744073709551616", []), ("decimal64", 1, "-", []), ("decimal64", 1, "+", []), ("decimal64", 1, "-..5", []),
    ("int8", 0, "-", []), ("decimal64", 2, "-.", []), ("decimal64", 2, "1.", []), ("uint8", 0, "3..7", [(1, 5), (6, 9)]),
    ("uint8", 0, "0..min", []), ("uint8", 0, "max..max", []), ("uint8", 0, "min..min", []),
    ("uint8", 0, " \t\n\r\x0b\x0c1\x0b", []), ("uint8", 0, "1 ..\x0c2", []), ("uint8", 0, "min", []), ("uint8", 0, "max", []),
    ("uint8", 0, "min|max", []), ("uint8", 0, "minmax", []), ("uint8", 0, "min 3 max", []), ("uint8", 0, "mi", []),
    ("uint8", 0, "", []), ("uint8", 0, " ", []), ("uint8", 0, "|", []), ("uint8", 0, "1|", []), ("uint8", 0, "1||2", []),
    ("uint8", 0, "1||2 3", []), ("uint8", 0, "5..3", []), ("uint8", 0, "5..5", []), ("uint8", 0, "1..2|2..3", []),
    ("uint8", 0, "256", []), ("int8", 0, "-129", []), ("int8", 0, "-128..127", []),
    ("uint8", 0, "2..3", [(1, 5), (7, 7)]), ("uint8", 0, "7", [(1, 5), (7, 7)]), ("uint8", 0, "7..8", [(1, 5), (7, 7)]),
    ("uint8", 0, "6", [(1, 5), (7, 7)]), ("uint8", 0, "5..7", [(1, 5), (7, 7)]), ("uint8", 0, "1|3|5|7", [(1, 5), (7, 7)]),
    ("uint8", 0, "min..max", [(1, 5), (7, 7)]), ("uint8", 0, "min..5|max", [(1, 5), (7, 7)]), ("uint8", 0, "8", [(1, 5), (7, 7)]),
    ("uint8", 0, "0", [(1, 5), (7, 7)]), ("int64", 0, "min..-9223372036854775808|9223372036854775807..max", []),
    ("uint64", 0, "9223372036854775807|9223372036854775808", []), ("uint64", 0, "9223372036854775808..max", [(0, U64MAX)]),
    ("uint64", 0, "1..max", [(0, 5), (2 ** 63, U64MAX)]), ("uint64", 0, "18446744073709551615", [(0, 5), (2 ** 63, U64MAX)]),
    ("int8", 0, "-5..-1|1..5", [(-10, -1), (1, 10)]), ("int8", 0, "-5..5", [(-10, -1), (0, 10)]),
]


class RangeDirect(Comp):
    """lys_compile_type_range() on one restriction text with a hand-made base restriction vs Restrict.compile_range"""
    name = "rngd"
    driver = "t_restrict"
    slice = "restrict"

    def rand_base(self, rng, ty):
        if rng.random() < 0.35:
            return []
        return resolve(pick_parts(rng, ty, kmax=3), ty, None)

    def gen(self, rng, tier, scale=1.0):
        L = []
        for name, fd, text, base in FIXED_DIRECT:
            L.append(direct_line(Ty(name, fd), text, base))
        for _ in range(self.n(tier, 2500, 150000, scale)):
            ty = rng.choices(TYPES, TY_WEIGHT)[0]
            base = self.rand_base(rng, ty)
            parts = pick_parts(rng, ty, inside=base or None)
            parts = with_keywords(rng, ty, parts, base or None)
            r = rng.random()
            if r < 0.45:
                text = render(rng, ty, parts, WS_ALL)
            elif r < 0.9:
                text = mutate_text(rng, ty, parts, base or None, WS_ALL)
            else:
                # token soup
                toks = ["min", "max", "|", "..", " ", "\t", ".", "-", "+", "0", "1", "5", "9", "10", "255", "256", "-1", "1.5", "m", "x"]
                toks += [ty.fmt(v, rng) for v in rng.sample(ty.pool(rng), 3)]
                text = "".join(rng.choice(toks) for _ in range(rng.randrange(0, 9)))
            if "\x00" in text:
                continue
            L.append(direct_line(ty, text, base))
        # exhaustive short texts over a small alphabet for uint8 / decimal64 fd 1 (with and without a base)
        alpha = ["1", "5", "|", "..", " ", "m", "min", "max", "-", "."]
        depth = 4 if tier == "thorough" else 3
        stack = [[]]
        texts = []
        while stack:
            cur = stack.pop()
            texts.append("".join(cur))
            if len(cur) < depth:
                for a in alpha:
                    stack.append(cur + [a])
        for t in texts:
            L.append(direct_line(Ty("uint8"), t, []))
            L.append(direct_line(Ty("uint8"), t, [(1, 3), (5, 5)]))
            L.append(direct_line(Ty("decimal64", 1), t, []))
        return L


class RangeChain(Comp):
    """typedef chains (depth 1-4) through lys_parse_mem: compiled parts of the leaf type and value acceptance vs
    Restrict.compile_chain + the value stores of slice types"""
    name = "chain"
    driver = "t_restrict"
    slice = "restrict"

    def gen(self, rng, tier, scale=1.0):
        L = []
        fixed = [
            (Ty("uint8"), ["1..10", "1 50"], ["1", "2", "50", "49", "51", "10"]),
            (Ty("uint8"), ["5 1"], ["1", "5", "3"]),
            (Ty("uint8"), ["1..10", None, "2..3"], ["1", "2", "3", "4"]),
            (Ty("string"), ["1..10", None, "2..3"], ["1", "2", "3", "4"]),
            (Ty("binary"), ["1..10", "2..3 | 5"], ["1", "2", "3", "4", "5", "6"]),
            (Ty("decimal64", 2), ["1..10", "2.5..3 | 5"], ["2.49", "2.5", "3.00", "3.01", "5", "5.0"]),
            (Ty("int8"), ["1..10 | 20..30", "min..max"], ["0", "1"]),
            (Ty("int8"), ["1..10 | 20..30", "min..10 | 20..max"], ["0", "1", "10", "11", "19", "20", "30", "31"]),
            (Ty("int8"), ["1 .. 10\t|\n 20..30"], ["0", "1"]),
            (Ty("uint8"), ["1..5 | 6..9", "3..7"], ["3", "7"]),
            (Ty("uint64"), ["0..5 | 9223372036854775808..max", "1..5 | 18446744073709551615"], ["0", "1", "18446744073709551615", "18446744073709551614"]),
            (Ty("int64"), ["min..-1 | 1..max", "min | max"], ["-9223372036854775808", "9223372036854775807", "0", "-9223372036854775807"]),
            (Ty("decimal64", 18), ["-9.2..9.2", "-9.2 | 0 | 9.2"], ["-9.2", "9.2", "0.0", "9.200000000000000001", "9.199999999999999999"]),
            (Ty("decimal64", 1), [None, "1..2"], ["0.9", "1.0", "2", "2.1"]),
            (Ty("uint8"), [None, None], ["0", "255", "256"]),
        ]
        for ty, texts, vals in fixed:
            L.append(chain_line(ty, texts, vals))
        for _ in range(self.n(tier, 1800, 60000, scale)):
            ty = rng.choices(TYPES, TY_WEIGHT)[0]
            texts, levels = gen_chain(rng, ty)
            if any(t and ("\\" in t or '"' in t) for t in texts):
                continue
            vals = probe_values(ty, levels, rng)
            L.append(chain_line(ty, texts, vals))
        return L


class StringChain(Comp):
    """chains of string typedefs whose levels have a length statement, pattern statements, both or neither: compiled length
    parts, the compiled patterns of the leaf type IN ORDER and the acceptance of probe lengths vs
    RestrictStr.compile_str_chain (length and patterns inherited independently)"""
    name = "strchain"
    driver = "t_restrict"
    slice = "restrict"

    def gen(self, rng, tier, scale=1.0):
        L = []
        ty = Ty("string")
        fixed = [[("1..3 | 6..8 | 12", 1), (None, 1)], [("1..3 | 6..8 | 12", 1), (None, 1), ("6..8", 0)],
                 [("1..3 | 6..8 | 12", 1), ("6..8", 0), (None, 2), (None, 0)], [(None, 0), (None, 0)], [(None, 2), ("2..4", 0)],
                 [("1..3 | 6..8", 0), (None, 1), ("2..3 | 6..7", 1)], [("1..3 | 6..8", 0), (None, 1), ("2..9", 1)]]
        for lv in fixed:
            L.append(self.line(lv, ["0", "1", "2", "3", "4", "5", "6", "7", "8", "9", "11", "12", "13"]))
        for _ in range(self.n(tier, 300, 20000, scale)):
            depth = rng.choice([1, 2, 2, 3, 3, 4, 5])
            base, lv, levels = None, [], []
            for d in range(depth):
                shape = rng.choice(["len", "len", "both", "pat"]) if d == 0 else rng.choice(["pat", "pat", "len", "both", "none"])
                text = None
                if shape in ("len", "both"):
                    small = [(0, 14)] if base is None else [(lo, min(hi, 14)) for lo, hi in base if lo <= 14]
                    parts = pick_parts(rng, ty, inside=small or base)
                    text = render(rng, ty, parts, [" "], style=0) if rng.random() < 0.9 else mutate_text(rng, ty, parts, base, [" "])
                    try:
                        base = resolve(parts, ty, base)
                        levels.append(base)
                    except Exception:
                        pass
                lv.append((text, rng.choice([1, 1, 2]) if shape in ("pat", "both") else 0))
            if any(t and ("\\" in t or '"' in t) for t, _ in lv):
                continue
            L.append(self.line(lv, probe_values(ty, levels or [[(0, 3)]], rng, limit=18)))
        return L

    @staticmethod
    def line(lv, vals):
        return "strchain\t%d\t%s\t%d%s" % (len(lv), "\t".join("%s\t%d" % ("~" if t is None else hexs(t.encode("latin-1")), np) for t, np in lv),
                                           len(vals), "".join("\t" + v for v in vals))


# ------------------------------------------------------------------------------------------------
# RFC oracle
# ------------------------------------------------------------------------------------------------
OPTSEP = r"(?:[ \t]|\r?\n)*"


def rfc_parse(ty, text):
    """strict ABNF (RFC 7950 section 14: range-arg / length-arg), tolerant only of optsep around the whole argument.
    -> list of (lo, hi) with 'min'/'max'/Fraction, or None"""
    if ty.name == "decimal64":
        num = r"-?(?:0|[1-9][0-9]*)(?:\.[0-9]+)?"
    elif ty.length:
        num = r"(?:0|[1-9][0-9]*)"
    else:
        num = r"-?(?:0|[1-9][0-9]*)"
    bnd = r"(?:min|max|%s)" % num
    part = r"(%s)(?:%s\.\.%s(%s))?" % (bnd, OPTSEP, OPTSEP, bnd)
    pieces = text.split("|")
    out = []
    for pc in pieces:
        m = re.fullmatch(OPTSEP + part + OPTSEP, pc)
        if not m:
            return None
        lo, hi = m.group(1), m.group(2)
        out.append((lo if lo in ("min", "max") else Fraction(lo), None if hi is None else (hi if hi in ("min", "max") else Fraction(hi))))
    return out


def rfc_compile(ty, base, text, one_part=False):
    """-> ('ok', parts as stored integers) | ('err', reason); one_part: a derived part must lie inside ONE part of the
    base as written (libyang's reading) instead of inside the value set of the base"""
    ps = rfc_parse(ty, text)
    if ps is None:
        return ("err", "syntax")
    bmin = base[0][0] if base else ty.lo
    bmax = base[-1][1] if base else ty.hi
    scale = 10 ** ty.fd if ty.name == "decimal64" else 1
    res = []
    for lo, hi in ps:
        vals = []
        for b in (lo, hi):
            if b is None:
                vals.append(None)
            elif b == "min":
                vals.append(bmin)
            elif b == "max":
                vals.append(bmax)
            else:
                q = b * scale
                if q.denominator != 1:
                    return ("err", "not in the value space")
                v = int(q)
                if not (ty.lo <= v <= ty.hi):
                    return ("err", "beyond the type")
                vals.append(v)
        res.append((vals[0], vals[0] if vals[1] is None else vals[1]))
    prev = None
    for lo, hi in res:
        if lo > hi or (prev is not None and lo <= prev):
            return ("err", "not ascending / disjoint")
        prev = hi
    if base is not None:
        bset = base if one_part else merge(base)
        for lo, hi in res:
            if not any(a <= lo and hi <= b for a, b in bset):
                return ("err", "not a subset of the base")
    return ("ok", res)


def merge(parts):
    out = []
    for lo, hi in sorted(parts):
        if out and lo <= out[-1][1] + 1:
            out[-1] = (out[-1][0], max(out[-1][1], hi))
        else:
            out.append((lo, hi))
    return out


def parse_parts(s):
    if s == "none":
        return None
    out = []
    for p in s.split(","):
        m = re.fullmatch(r"(-?[0-9]+)\.\.(-?[0-9]+)", p)
        out.append((int(m.group(1)), int(m.group(2))))
    return out


def value_of(ty, txt):
    """stored integer of a probe value text, or None when it is not a lexical value of the type"""
    if ty.length:
        return int(txt)
    m = re.fullmatch(r"([+-]?)([0-9]+)(?:\.([0-9]+))?", txt)
    if not m or (m.group(3) is not None and ty.name != "decimal64"):
        return None
    q = Fraction(int(m.group(2) + (m.group(3) or "")), 10 ** len(m.group(3) or "")) * (10 ** ty.fd if ty.name == "decimal64" else 1)
    if q.denominator != 1:
        return None
    v = int(q) * (-1 if m.group(1) == "-" else 1)
    return v if ty.lo <= v <= ty.hi else None


# label -> (tag, what the library does that the RFC reading does not)
LABELS = {
    "nobar": (None, "accept"),           # fixed by 72878af: accepting it again is a violation
    "dots2": ("range-repeated-dots", "accept"),
    "maxtouch": ("range-max-touching", "accept"),
    "signonly": ("range-dec64-sign-only", "accept"),
    "lenient": ("range-lenient-number", "accept"),
    "touchbase": ("range-touching-base", "reject"),
    "kwpos": ("range-kw-position", "reject"),
    "trailzero": ("range-dec64-trailing-zeros", "reject"),
}


class RestrictRfc:
    """C11 (search): typedef chains whose restriction texts follow the RFC 7950 grammar or depart from it in ONE labelled
    way; the library must accept exactly the legal ones, and the leaf must accept exactly the values of the intersection
    of the restrictions along the chain (Python reading of RFC 7950 9.2.4 / 9.4.4, independent of the Coq model)."""
    name = "restrict-rfc"
    driver = "t_restrict"
    kinds = None
    quick_sanitize = False

    def n(self, tier, quick, thorough, scale=1.0):
        return max(1, int((thorough if tier == "thorough" else quick) * scale))

    def labelled(self, rng, ty, base):
        """-> (label, text) one departure the library is known to treat differently, else None"""
        lab = rng.choice(list(LABELS))
        pool = [v for v in ty.pool(rng) if not base or any(a <= v <= b for a, b in base)]
        if not pool:
            return None
        bmax = base[-1][1] if base else ty.hi
        bmin = base[0][0] if base else ty.lo
        f = lambda v: ty.fmt(v, style=0)            # noqa: E731
        if lab == "nobar":
            vs = sorted(rng.sample(pool, min(len(pool), rng.choice([2, 3]))))
            if len(vs) < 2:
                return None
            out = ty.lo if rng.random() < 0.5 or not base else None
            # optionally a value outside the base after the first part: the widening
            if base and rng.random() < 0.6:
                cands = [v for v in (base[-1][1] + 1, base[0][0] - 1, base[-1][1] + 7) if ty.lo <= v <= ty.hi and v > vs[0]]
                if cands:
                    vs = [vs[0], cands[0]]
            return lab, " ".join(f(v) for v in vs)
        if lab == "dots2":
            vs = sorted(rng.sample(pool, min(len(pool), 2)))
            if len(vs) < 2 or (base and not any(a <= vs[0] and vs[1] <= b for a, b in base)):
                return None
            return lab, rng.choice(["%s....%s", "%s.. ..%s"]) % (f(vs[0]), f(vs[1])) if rng.random() < 0.5 else \
                "%s..%s..%s" % (f(vs[0]), f(rng.choice(pool + [vs[1]])), f(vs[1]))
        if lab == "maxtouch":
            if base and base[-1][0] == base[-1][1] and len(base) > 1:
                return None
            lo = rng.choice([v for v in pool if v <= bmax and (not base or base[-1][0] <= v)] or [bmax])
            return lab, ("%s..%s | max" % (f(lo), f(bmax))) if lo < bmax else "%s | max" % f(bmax)
        if lab == "signonly":
            if ty.name != "decimal64" or (base and not any(a <= 0 <= b for a, b in base)):
                return None
            return lab, rng.choice(["-", "+"])
        if lab == "lenient":
            v = rng.choice(pool)
            t = f(v)
            alts = []
            if v >= 0:
                alts += ["+" + t, "0" + t, "00" + t]
            else:
                alts += ["-0" + t[1:]]
            if v == 0:
                alts += ["-0"] if (ty.length or ty.lo == 0) else []
            if ty.name == "decimal64" and t.startswith("0."):
                alts += ["+" + t[1:], "-" + t[1:]] if v > 0 and (not base or any(a <= -v <= b for a, b in base)) else ["+" + t[1:]]
            t2 = rng.choice(alts)
            if t2.startswith("-.") and v > 0:
                return None
            return lab, t2
        if lab == "touchbase":
            if not base:
                return None
            for (a, b), (c, d) in zip(base, base[1:]):
                if b + 1 == c:
                    return lab, "%s..%s" % (f(b), f(c))
            return None
        if lab == "kwpos":
            if rng.random() < 0.5:
                return lab, "max..max"
            return lab, "%s..min" % f(bmin)
        if lab == "trailzero":
            if ty.name != "decimal64":
                return None
            v = rng.choice(pool)
            return lab, ty.fmt(v, style=2) + "0"
        return None

    def gen(self, rng, tier, scale=1.0):
        L = []
        for _ in range(self.n(tier, 1200, 40000, scale)):
            ty = rng.choices(TYPES, TY_WEIGHT)[0]
            depth = rng.choice([1, 2, 2, 3, 4])
            texts, levels, label = [], [], "-"
            base = None
            for d in range(depth):
                r = rng.random()
                if d and r < 0.1:
                    texts.append("~p" if ty.name == "string" and rng.random() < 0.6 else None)
                    continue
                if label == "-" and r < 0.1:
                    # chains with touching base parts need a base that has them
                    lt = self.labelled(rng, ty, base)
                    if lt:
                        label = lt[0]
                        texts.append(lt[1])
                        break
                if r > 0.9 and d:
                    # RFC-grammatical but illegal: widening by one at a boundary / not ascending
                    b = rng.choice(base)
                    v = rng.choice([b[0] - 1, b[1] + 1])
                    if ty.lo <= v <= ty.hi:
                        texts.append(ty.fmt(v, style=0))
                        break
                parts = pick_parts(rng, ty, inside=base)
                if rng.random() < 0.15 and len(parts) > 1 and not base:
                    # make two parts touch (1..5 | 6..9)
                    i = rng.randrange(len(parts) - 1)
                    lo, hi = parts[i]
                    end = hi if hi is not None else lo
                    nlo, nhi = parts[i + 1]
                    if end + 1 <= (nhi if nhi is not None else nlo):
                        parts[i + 1] = (end + 1, nhi if nhi is not None and nhi > end + 1 else None)
                parts = with_keywords(rng, ty, parts, base)
                texts.append(render(rng, ty, parts, [" ", "\t", "\n"], style=0))
                base = resolve(parts, ty, base)
                levels.append(base)
            vals = probe_values(ty, levels or [[(ty.lo, ty.hi)]], rng, limit=20)
            L.append(chain_line(ty, texts, vals) + "\t#" + label)
        return L

    def judge(self, line, out):
        f = line.split("\t")
        ty = Ty(f[1], int(f[2]))
        n = int(f[3])
        texts = [None if h in ("~", "~p") else unhex(h).decode("latin-1") for h in f[4:4 + n]]
        nv = int(f[4 + n])
        vals = [unhex(h).decode("latin-1") for h in f[5 + n:5 + n + nv]]
        label = f[5 + n + nv][1:] if len(f) > 5 + n + nv else "-"
        if out.startswith("CRASH") or out == "TIMEOUT" or out.startswith("?"):
            return (None, "driver: " + out)
        # the RFC reading
        base = None
        expect = "ok"
        why = ""
        sets = []
        for t in texts:
            if t is None:
                continue
            r = rfc_compile(ty, base, t)
            if r[0] == "err":
                expect, why = "err", r[1] + " (" + repr(t) + ")"
                break
            base = r[1]
            sets.append(base)
        got_err = out == "E"
        tag = LABELS.get(label, (None, None))
        if expect == "err":
            if got_err:
                return None
            if tag[1] == "accept":
                return (tag[0], "accepted although: " + why)
            return (None, "accepted although the RFC reading rejects: " + why + " -> " + out)
        if got_err:
            if tag[1] == "reject":
                return (tag[0], "rejected although legal")
            # legal as a value set, but some derived part spans two touching parts of its base (1..5 | 6..9 -> 3..7)?
            base1 = None
            for t in texts:
                if t is None:
                    continue
                r = rfc_compile(ty, base1, t, one_part=True)
                if r[0] == "err":
                    if r[1] == "not a subset of the base":
                        return ("range-touching-base", "rejected although the value set is a subset of the base: " + repr(t))
                    break
                base1 = r[1]
            return (None, "rejected although the chain is legal by the RFC reading")
        ps, _, bits = out.partition(" ")
        got = parse_parts(ps)
        if base is None:
            if got is not None:
                return (None, "parts without any restriction: " + ps)
        elif got is None or merge(got) != merge(base):
            return (None, "compiled parts %s denote another set than the last restriction %s" % (ps, base))
        if len(bits) != len(vals):
            return (None, "protocol: %d answers for %d values" % (len(bits), len(vals)))
        for v, b in zip(vals, bits):
            x = value_of(ty, v)
            want = x is not None and all(any(lo <= x <= hi for lo, hi in s) for s in sets)
            if want != (b == "1"):
                return (None, "value %s %s, but it is %s the intersection of the chain" %
                        (v, "accepted" if b == "1" else "rejected", "in" if want else "outside"))
        return None
