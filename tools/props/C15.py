"""C15 - a node's path identifies that node; paths create what they name"""
from props import comps_ytext as Y, comps_paths, comps_pathmodel, oracles

PID = "C15"
LEVEL = "proof"


def components():
    return [Y.PathQ(), comps_pathmodel.PathModel()]


def oracles_():
    return [Y.PathQRT(), oracles.Paths(), comps_paths.PathsOps()]


TRUSTED = [
    "pathmodel: the compiled schema and the parsed data tree are read from libyang itself (impl/t_pathmodel.c dumps "
    "module, name, node type, LYS_KEYLESS / LYS_CONFIG_W / LYS_KEY / LYS_PRESENCE, the built-in type and the canonical "
    "value of every node in lys_getnext() / sibling order); the model takes these dumps as input, so schema compilation, "
    "the data parsers, value canonicalisation of PARSED values and lyd_insert_node() ordering are trusted inputs of the "
    "path round trip, not verified by it",
    "pathmodel: pointer equality of schema nodes is modelled as equality of (module name, node name) among the children "
    "of one schema parent; hash-table lookups (children_ht, node hashes) are modelled by the linear search they fall "
    "back to",
    "pathmodel: integer values go through coq/IntLex.v (model of lyplg_type_store_int / _uint; its own tie to libyang is "
    "the types slice of C03), boolean / enumeration / string acceptance is transcribed in PathModel.canon",
    "PathModel.v, PathQuote.v are hand transcriptions of the C functions named in MANIFEST note; the theorems are about "
    "these models, libyang is tied to them only by the differential runs (T2) on generated inputs",
]

MANIFEST = {
    "text": "Two Coq developments about executable MODELS of the C code, each tied to libyang by differential runs (T2); plus "
            "API-level oracles on the implementation. "
            "(1) Properties_C15_pathmodel.v, model PathModel.v of the WHOLE round trip. For ALL schemas S and trees t with "
            "swf S, dwf S t, quotes_ok t (boolean well-formedness predicates, see note) and EVERY node x at position p: "
            "C15_pathmodel_roundtrip_stages / C15_pathmodel_find_own - the path lyd_path() prints is accepted by the "
            "tokenizer, ly_path_parse() and ly_path_compile() (target single and many, same compiled path) and "
            "ly_path_eval_partial() returns exactly x; C15_pathmodel_new_empty - lyd_new_path() with that path and the value of "
            "x on the EMPTY tree creates exactly the spine (x and its ancestors, list instances with their keys), under the "
            "extra hypothesis top_first (a top-level ancestor addressed by position is the first instance); "
            "C15_pathmodel_new_exists - on t itself it reports LY_EEXIST and creates nothing, for every node (a node with "
            "LYD_DEFAULT, i.e. an empty non-presence container: success, nothing created). The same four with ANY admissible "
            "spelling of the key / configuration leaf-list values in the predicates (var_ok: canon type spelling = stored "
            "canonical value, not both quote characters) and of the created node's own value (val_ok): "
            "C15_pathmodel_roundtrip_stages_variant, C15_pathmodel_find_variant, C15_pathmodel_new_empty_variant, "
            "C15_pathmodel_new_exists_variant ([k='+07'], [k=' 7 '] find / create the node whose canonical int8 key is 7); "
            "C15_pathmodel_printed_is_variant: the printed path is the variant that spells the stored values. Necessity of "
            "hypotheses: C15_pathmodel_both_quotes_refuted (quotes_ok; known finding path-both-quotes at path level), "
            "C15_pathmodel_top_position_refuted (top_first: /m1:tk[2] on the empty tree is LY_EINVAL; libyang checks the "
            "position only of the first node it creates). After lyd_change_term(): C15_pathmodel_change_term_paths - "
            "change_term t p w = Some t' puts canon type w into the term node at p (identity follows the current values; the "
            "model has no separate hash); IF the changed tree satisfies dwf S t' and quotes_ok t' again (decidable; in "
            "particular the new key tuple / leaf-list value is not a sibling's - this preservation is a hypothesis, not proved "
            "from a freshness condition) THEN every node of t' is found by its NEW printed path, exactly it, and lyd_new_path() "
            "reports LY_EEXIST; the move of a system-ordered instance to its sorted place is not modelled. Example "
            "C15_pathmodel_change_term_example: regression for the class of seeded change C15-8 (stale hash after a change) "
            "on the example tree, incl. an int8 key given as ' +09 '. Example C15_pathmodel_example: a non-trivial two-module tree with "
            "typed keys meets the hypotheses; the same tree, as libyang parses it, is a corpus case of the T2 component. "
            "Tie (T2 pathmodel, impl/t_pathmodel.c): extracted model vs libyang on generated two-module schemas (augments, "
            "equal local names, key-name families, 1-3 keys of type string / int8..uint64 / boolean / enumeration, key-less "
            "lists, state leaf-lists with duplicates, nested lists, choices, presence containers, anydata, RPC input / output, "
            "notifications) and JSON trees: lyd_path() of EVERY node byte for byte; swf / dwf / quotes_ok computed by the model "
            "on every generated case; ly_path_parse() accept / reject, lyd_find_path() result (node, partial match, not found, "
            "error) and lyd_new_path2() result on the empty tree and on the tree (created chain and attach point, LY_EEXIST, "
            "LY_EINVAL, LY_EVALID) for the printed path of every node and for mutated paths (dropped / duplicated / reordered "
            "key predicates, wrong / missing / redundant prefixes also on key names, positions 0 / out of range / 2^32, "
            "predicates on the wrong node kind, numbers for literals, other lexical forms of typed values - accepted and "
            "rejected ones -, white space, trailing garbage, foreign XPath tokens). Query G ties "
            "C15_pathmodel_change_term_paths: for key / configuration leaf-list nodes (string, or an integer type in any "
            "lexical form; new value unused in the tree) the model runs change_term, evaluates dwf / quotes_ok of the changed "
            "tree and the conclusions for the changed node, the driver runs lyd_change_term() on libyang's tree and checks by "
            "pointer identity that the newly printed path finds the node and re-creation reports LY_EEXIST; both must answer ok "
            "(the sibling order after the change is NOT compared). ORACLE level only (not modelled, not proved): Y - "
            "lyd_find_xpath() of every printed path of data / notification trees selects exactly the node; inside G, the "
            "lyd_find_xpath() check of the new path. "
            "(2) Properties_C15_ytext.v, model PathQuote.v of predicate quoting. C15_path_literal_roundtrip: for every key name "
            "that is an identifier and every value without both quote characters, the predicate lyd_path() prints, whatever "
            "follows it, is read back as exactly (name, value) by the path side (token minus first and last byte) and by the "
            "XPath literal rule; C15_path_literal_both_quotes_refuted: witness a'b\"c is rejected by both readers (known "
            "finding path-both-quotes, status known: XPath 1.0 literals have no escape); "
            "C15_inst_predicate_roundtrip_partial / C15_inst_predicate_backslash_refuted: ly_parse_instance_predicate() (no "
            "caller in the library) reads the predicates back unless the value ends in a backslash; Example "
            "C15_path_literal_example. Tie (T2 pathq, impl/t_ytext.c): lyd_path() of a leaf-list and a one-key list instance "
            "of a fixed module for generated values, and whether lyd_find_path / lyd_find_xpath return the node, vs the model. "
            "(3) Oracles on the implementation only: pathq_rt (the T2 cases judged against the property), paths (every node of "
            "generated one-module trees: path -> lyd_find_path / lyd_find_xpath return exactly the node, lyd_new_path in an "
            "empty tree rebuilds the node and its ancestors, re-creation reports LY_EEXIST), paths-ops (impl/t_paths.c: the "
            "same by pointer identity on data, RPC / action request, reply and notification trees over adversarial "
            "identifier shapes, two modules with equal local names, duplicates where legal, typed keys incl. identityref, "
            "instance-identifier, decimal64, bits, union in non-canonical spelling; path without last predicate selects all "
            "instances; lyd_path() compared with an independent rendering; whole tree rebuilt from its paths). The former "
            "finding xpath-noprefix-other-module is fixed (/repo b180fe8) and is a violation if it reappears.",
    "note": "MODELLED, not verified C: PathQuote.v transcribes lyd_path_list_predicate / lyd_path_leaflist_predicate quoting, the "
            "Literal rule of lyxp_expr_parse, ly_path_compile_predicate / eval_literal unquoting, the quoted-string scan of "
            "ly_parse_instance_predicate. PathModel.v transcribes lyd_path(LYD_PATH_STD) with lyd_list_pos(), the tokens of "
            "lyxp_expr_parse() that ly_path_parse() can consume (any other token or tokenizer error = reject), ly_path_parse / "
            "ly_path_check_predicate (BEGIN_EITHER, PREFIX_FIRST, PRED_SIMPLE, duplicate-key test as coded), _ly_path_compile / "
            "ly_path_compile_snode / ly_path_compile_predicate, ly_path_eval_partial with lyd_find_sibling_first / "
            "lyd_compare_single list identity, lyd_new_path_ (options 0) with lyd_new_path_check_find_lypath and "
            "lyd_create_list; lyd_change_term as PathModel.change_term (value replaced by its canonical form, no re-sorting); "
            "values through PathModel.canon (string: valid UTF-8; int8..uint64: coq/IntLex.v - white space, "
            "sign, leading zeros, bounds; boolean; enumeration): lyd_path prints the canonical value, predicates and created "
            "values are stored through the type, evaluation compares canonical forms. Hypotheses of the theorems: swf (names "
            "are identifiers; keyed lists have >= 1 key, keys lead, belong to the list's module, distinct names; key-less lists "
            "without LYS_CONFIG_W; terms have no children), dwf (every node conforms to a schema child of its parent's schema "
            "node; inner nodes without value, terms hold the canonical value of their type; list instances start with their "
            "keys; positional instances contiguous, all other nodes unique by schema node / key tuple / leaf-list value among "
            "siblings; fewer than 2^31 siblings), quotes_ok (no key or configuration leaf-list value with both quote "
            "characters). OUTSIDE the model (E_UNSUP, never generated): other types (identityref, instance-identifier, "
            "decimal64, bits, union, empty: oracle paths-ops only), range / length / pattern, relative paths, XPath variables, "
            "bytes above 127 outside literals (parse_ncname model is ASCII), anydata values other than empty, anyxml, opaque "
            "nodes, LYD_DEFAULT other than on empty non-presence containers of parsed trees, path options other than 0 "
            "(UPDATE, OPAQ), the sibling position lyd_insert_node() gives a node created in a non-empty tree (only created "
            "chain and attach point are modelled), the re-sorting lyd_change_term() does and a proof that a fresh value preserves dwf "
            "(hypothesis of C15_pathmodel_change_term_paths), lyd_find_xpath() (oracle level: Y, paths, paths-ops, pathq / pathq_rt). "
            "32-bit wrap of lyd_list_pos and the atoi() truncation of the index-0 test are modelled as coded.",
    "technique": "Coq proofs about executable models (whole path round trip; quote/unquote) + differential correspondence of the "
                 "extracted models with libyang + API oracles on every node",
}
