"""C15 - a node's path identifies that node; paths create what they name"""
from props import comps_ytext as Y, comps_paths, oracles

PID = "C15"
LEVEL = "proof"


def components():
    return [Y.PathQ()]


def oracles_():
    return [Y.PathQRT(), oracles.Paths(), comps_paths.PathsOps()]


MANIFEST = {
    "text": "Coq theorems (Properties_C15_ytext.v): the predicate literal lyd_path() prints for a key / leaf-list value is read "
            "back as exactly that value by the path parser and by the XPath literal rule, for every value not containing both quote "
            "characters (refuted with a witness otherwise). Tie: extracted model vs lyd_path/lyd_find_path/lyd_find_xpath (T2). "
            "Every node of generated trees: path -> find_path/find_xpath returns exactly the node, new_path rebuilds the spine, "
            "re-creation reports LY_EEXIST (API oracle, search). PathsOps: the same on data, RPC / action request, reply and "
            "notification trees over schemas with adversarial identifier shapes and two modules with equal local names, with "
            "duplicates where they are legal and typed keys in non-canonical spelling; lyd_path() compared with an independent "
            "rendering of the path; whole tree rebuilt from its paths.",
    "note": "Modelled C: lyd_path_list_predicate/leaflist_predicate quoting, literal scanning of lyxp_expr_parse and "
            "ly_path_compile_predicate. Path compilation/evaluation beyond literals is covered by the oracle only.",
    "technique": "Coq proof (quote/unquote round trip) + differential correspondence + API oracle on every node",
}
