"""C15 - a node's path identifies that node; paths create what they name"""
from props import comps_ytext as Y, comps_paths, comps_pathmodel, oracles

PID = "C15"
LEVEL = "proof"


def components():
    return [Y.PathQ(), comps_pathmodel.PathModel()]


def oracles_():
    return [Y.PathQRT(), oracles.Paths(), comps_paths.PathsOps()]


TRUSTED = [
    "pathmodel: the compiled schema and the parsed data tree are read from libyang itself (impl/t_pathmodel.c dumps "
    "module, name, node type, LYS_KEYLESS / LYS_CONFIG_W / LYS_KEY / LYS_PRESENCE and canonical value of every node in "
    "lys_getnext() / sibling order); the model takes these dumps as input, so schema compilation, the data parsers and "
    "lyd_insert_node() ordering are trusted inputs of the path round trip, not verified by it",
    "pathmodel: pointer equality of schema nodes is modelled as equality of (module name, node name) among the children "
    "of one schema parent; hash-table lookups (children_ht) are modelled by the linear search they fall back to",
]

MANIFEST = {
    "text": "Coq theorems (Properties_C15_pathmodel.v) about the executable model PathModel.v of the WHOLE round trip, for "
            "ALL well-formed trees and every node: lyd_path() prints a path that the tokenizer, ly_path_parse() and "
            "ly_path_compile() (target single and many) accept, ly_path_eval_partial() returns exactly that node "
            "(C15_pathmodel_roundtrip_stages / _find_own); lyd_new_path() with that path and value on the empty tree creates "
            "exactly the spine - the node and its ancestors, list instances with their keys (_new_empty, top-level position "
            "1); on the tree itself it reports LY_EEXIST for every node, nothing created (_new_exists; default = empty "
            "non-presence containers: success, nothing created). Hypotheses are boolean predicates (swf, dwf, quotes_ok) that "
            "every generated tree is checked to satisfy; the both-quotes hypothesis and the top-level-position hypothesis are "
            "shown necessary by refutation theorems with witnesses. The four theorems are also proved with ANY admissible "
            "lexical form of the key / leaf-list values in the predicates and of the created node's value (*_variant: "
            "[k='+07'], [k=' 7 '] find and create the node whose canonical int8 key is 7; var_ok / val_ok state "
            "admissibility through canon). Tie (T2 pathmodel): extracted model vs libyang on "
            "generated two-module schemas (augments, equal local names, 1-3 keys, key-less lists, state leaf-lists with "
            "duplicates, nested lists, choices, RPC input / output, notifications) and trees: lyd_path() of EVERY node byte "
            "for byte; ly_path_parse() accept / reject, lyd_find_path() result (node, partial match, not found, error) and "
            "lyd_new_path2() result (created chain and attach point, LY_EEXIST, LY_EINVAL, LY_EVALID) on the printed and on "
            "mutated paths (dropped / duplicated / reordered key predicates, wrong / missing / redundant prefixes, positions "
            "0 / out of range / 2^32, predicates on the wrong node kind, numbers for literals, other lexical forms of typed values "
            "(accepted and rejected ones), white space, trailing garbage, foreign XPath tokens); plus two property-level "
            "expectations inside the same component: lyd_find_xpath() of every printed path selects exactly the node (Y), and "
            "after lyd_change_term() of a key / leaf-list value the new printed path still identifies the node (G: path "
            "search, XPath search, LY_EEXIST). "
            "Coq theorems (Properties_C15_ytext.v): the predicate literal lyd_path() prints for a key / leaf-list value is read "
            "back as exactly that value by the path parser and by the XPath literal rule, for every value not containing both quote "
            "characters (refuted with a witness otherwise). Tie: extracted model vs lyd_path/lyd_find_path/lyd_find_xpath (T2). "
            "Every node of generated trees: path -> find_path/find_xpath returns exactly the node, new_path rebuilds the spine, "
            "re-creation reports LY_EEXIST (API oracle, search). PathsOps: the same on data, RPC / action request, reply and "
            "notification trees over schemas with adversarial identifier shapes and two modules with equal local names, with "
            "duplicates where they are legal and typed keys in non-canonical spelling; lyd_path() compared with an independent "
            "rendering of the path; whole tree rebuilt from its paths.",
    "note": "Modelled C (ytext): lyd_path_list_predicate/leaflist_predicate quoting, literal scanning of lyxp_expr_parse and "
            "ly_path_compile_predicate. Modelled C (pathmodel): lyd_path(LYD_PATH_STD) with lyd_list_pos(), the tokens of "
            "lyxp_expr_parse() that ly_path_parse() can consume (any other token or tokenizer error = reject), ly_path_parse / "
            "ly_path_check_predicate (PREFIX_FIRST, PRED_SIMPLE, duplicate-key test as coded), _ly_path_compile / "
            "ly_path_compile_snode / ly_path_compile_predicate, ly_path_eval_partial with lyd_find_sibling_first / "
            "lyd_compare_single list identity, lyd_new_path_ with lyd_new_path_check_find_lypath and lyd_create_list. "
            "Typed values (pathmodel): keys, leaf-lists and leaves of type string, int8..uint64 (coq/IntLex.v: white space, sign, "
            "leading zeros, bounds), boolean, enumeration through PathModel.canon: lyd_path prints the canonical value, "
            "ly_path_compile_predicate / lyd_new_path store the predicate and the value through the type, evaluation "
            "compares canonical forms. Restrictions of pathmodel: no other types (identityref, instance-identifier, "
            "decimal64, bits, union, empty: oracle paths-ops only), no range / length / pattern; absolute paths; no XPath "
            "variables; bytes above 127 only inside literals (the model of parse_ncname is ASCII); anydata created with the "
            "empty value only, anyxml not generated; LYD_DEFAULT only as it arises in parsed trees (empty non-presence "
            "containers); for creation in a non-empty tree only the created chain and its attach point are modelled, not the "
            "sibling position lyd_insert_node() gives it; lyd_find_xpath() is not part of the model (oracles paths / "
            "paths-ops check it). 32-bit wrap of lyd_list_pos and atoi() truncation are modelled; the theorems assume fewer "
            "than 2^31 siblings.",
    "technique": "Coq proof (quote/unquote round trip) + differential correspondence + API oracle on every node",
}
