"""C19 - a context can be rebuilt from its own yang-library description"""
from props import comps_yl as Y

PID = "C19"
LEVEL = "proof"
ASAN_QUICK = True


def components():
    return [Y.ModHash(), Y.CcWrap(), Y.YlRoundTrip()]


def oracles_():
    return [Y.ModHashSens(), Y.ModHashConcat(), Y.ChangeCount(), Y.YlOracle()]


TRUSTED = [
    "impl/t_yl.c generates the YANG texts of the abstract module records and serves them through the import callback; "
    "its callback serves the latest revision for an import without revision-date (as a search directory does)",
]
ASSUMPTIONS = [
    "the round-trip theorem assumes imports_pinned (an import without revision-date names a module with one revision in the "
    "sources) and covers module loading, implementing and feature setting only; compilation is compared on the "
    "implementation (LYS_OUT_YANG_COMPILED print of every implemented module), not modelled",
]

MANIFEST = {
    "text": "Coq (Properties_C19_yl.v): ModHash.v transcribes ly_ctx_get_modules_hash() with lysp_feature_next() and its never "
            "reset index; modhash never runs out of fuel and equals the one-at-a-time hash of the concatenated strings; "
            "equal ordered observables give equal hashes; name, revision and implemented byte of every module and (fixed "
            "code) every enabled feature change the byte stream; as coded the features of every module but the first are "
            "skipped (general theorem + witness 2169919692), and the stream is not injective (witnesses 2151593976, "
            "3673482515) while the NUL-delimited encoding is; the uint16_t counter differs after 1..65535 events and wraps "
            "after 65536; YangLib.v: describe/rebuild with the round-trip theorem under imports_pinned. Tie: extracted model "
            "vs ly_ctx_get_modules_hash on generated contexts (records read back from the context), yang-library entries "
            "and rebuilt contexts vs describe/rebuild; oracles on the API for sensitivity, counter and round trip.",
    "note": "Not modelled: compilation, deviations, submodule entries, datastore list, search directories, "
            "LY_CTX_ALL_IMPLEMENTED/REF_IMPLEMENTED, the revision-less import logic beyond the unambiguous case. Known findings: "
            "yl-hash-fi, yl-hash-concat, yl-cc-explicit-compile, yl-import-only-rev.",
    "technique": "Coq proof over hand-written model + differential correspondence (extracted OCaml vs C) + API oracles",
}
