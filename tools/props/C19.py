"""C19 - a context can be rebuilt from its own yang-library description"""
from props import comps_yl as Y

PID = "C19"
LEVEL = "proof"
ASAN_QUICK = True


def components():
    return [Y.ModHash(), Y.CcWrap(), Y.CcOps(), Y.YlRoundTrip()]


def oracles_():
    return [Y.ModHashSens(), Y.ModHashConcat(), Y.ChangeCount(), Y.YlOracle(), Y.YlxOracle()]


TRUSTED = [
    "impl/t_yl.c generates the YANG texts of the abstract module records (features, submodule graphs, imports with augment / "
    "deviation statements, groupings wrapping the groupings of the imports) and serves them through the import callback or a "
    "temporary search directory; both serve the latest revision for a request without revision",
    "tools/props/comps_yl.py: generators, the judges of the API oracles and a Python mirror of YangLib.includes_order that is only "
    "used to generate loadable submodule graphs",
]
ASSUMPTIONS = [
    "C19_yanglib_roundtrip and C19_describe_rebuild_describe assume rt_ok: one record per (name, revision); every module text in the "
    "sources; every import means a module of the context with decreasing import depth; an import or load request without revision "
    "names a module with a single revision in context and sources (imports_pinned); one implemented revision per name; distinct "
    "feature names per module; non-implemented modules have no enabled feature and are internal or reachable from an implemented "
    "module; augment / deviation statements go through imports and their targets are implemented in the original; the rebuilding "
    "context holds only modules of the original (implemented ones in any feature state)",
    "the hash theorems on the byte stream assume non-empty names, revisions and feature names (wf_mod); the submodule theorems "
    "assume wf_incs (includes name existing submodules, no self-include) and distinct includes of the module",
    "compilation is not modelled: equality of compiled schemas is compared on the implementation only (LYS_OUT_YANG_COMPILED "
    "print of every implemented module)",
]

MANIFEST = {
    "text": "Coq (Properties_C19_yl.v, all closed under the global context). ModHash.v transcribes ly_ctx_get_modules_hash() with "
            "lysp_feature_next() (as of /repo c8adb05): C19_modhash_is_hash_of_chunks / _of_stream (no fuel exhaustion; for wf_mod "
            "modules the value is the one-at-a-time hash of the concatenated strings), C19_modhash_congruent(_obs) (equal ordered "
            "observables give equal hashes), C19_modhash_stream_reads_name_rev_impl and C19_modhash_stream_reads_every_feature "
            "(changing name, revision, implemented byte or one enabled feature of any module changes the byte stream; a statement "
            "about the stream, not about hash collisions; regression Example C19_former_fi_witness), "
            "C19_modhash_stream_injective_refuted / C19_modhash_name_revision_boundary_refuted (strings are fed without "
            "separators: finding yl-hash-concat) and C19_spec_stream_injective (the NUL-delimited encoding is injective). Counter "
            "(uint16_t): C19_change_count_differs / _consecutive (differs after 1..65535 events), C19_change_count_strict_refuted "
            "(wraps after 65536); C19_set_implemented_counted (model set_impl_op = lys_set_features with its change flag, "
            "_lys_set_implemented, lys_implement under LY_CTX_EXPLICIT_COMPILE; hypotheses: one record per (name, revision), the "
            "module has no augment / deviation statements): a lys_set_implemented call that changes the implemented flag or an "
            "enabled feature is counted at least (and at most) once, a call that changes nothing is not counted, so the counter "
            "differs exactly after changing calls; regression Example C19_counter_seed_witnesses (disable-only change / implement "
            "not counted in the two seeded variants). YangLib.v transcribes ly_ctx_get_yanglib_data (module / import-only-module entries with name, "
            "revision, namespace, features, deviations, submodules), ly_ctx_new_yldata, ly_ctx_load_module (lys_parse_load, import "
            "resolution, _lys_set_implemented / lys_set_features with NULL / * / array, implementing augment and deviation "
            "targets) and lysp_load_submodules (as of /repo 272016c): C19_describe_tells_obs, C19_includes_array_is_closure, "
            "C19_description_lists_closure_features, C19_description_lists_closure_submodules, C19_description_submodule_entries "
            "(enabled features and submodules of the include closure each exactly once; regression Examples "
            "C19_former_sub_skip_witness, C19_includes_order_examples), C19_description_deviation_list (exactly the implemented "
            "modules that deviate the module), C19_yanglib_roundtrip (under rt_ok the rebuilt context has exactly the records of "
            "the original, as a set; also into a populated context) with C19_roundtrip_needs_imports_pinned, "
            "C19_describe_rebuild_describe (same import-only entries, module entries equal with the deviation list as a set), "
            "Examples C19_hypotheses_satisfiable, C19_roundtrip_into_populated_context, C19_roundtrip_hypotheses_with_deviation, "
            "C19_deviation_roundtrip_computed, C19_unpinned_import_is_unmodelled. Tie (T2, extracted model vs C on generated "
            "module sets): records read back from the context + ly_ctx_get_modules_hash (feature array order = includes_order), "
            "the uint16_t field, per ly_ctx_load_module / lys_set_implemented call under LY_CTX_EXPLICIT_COMPILE the counter "
            "difference, modules added and whether the records changed (YangLib.load_op / set_impl_op, also with augment / deviation "
            "targets; component ccops), yang-library entries of the re-parsed data and the records of the context rebuilt by "
            "ly_ctx_new_ylmem (also into populated contexts, with augment / deviation dependencies). Oracle level only (API, no "
            "model): hash sensitivity, change counter after every changing operation (also LY_CTX_EXPLICIT_COMPILE), and the "
            "round trip in all variants (options of the rebuilding context, callback / search directory, yldata / ylmem / ylpath "
            "in JSON and XML, new or existing context, feature changes after the loads, dependencies through import-only "
            "modules) with equal compiled prints, described features = lys_feature_value, described submodules = includes.",
    "note": "Modelled rather than verified: the C functions above are hand-transcribed into Gallina and tied by differential "
            "runs only. Not modelled: compilation (schema equality and node order are implementation-level comparisons), location "
            "leaves, datastore list, legacy modules-state list, search directory lookup, LY_CTX_ALL_IMPLEMENTED / REF_IMPLEMENTED / "
            "ENABLE_IMP_FEATURES, imports without revision-date when several revisions are in play (model answers E_UNMODELLED), "
            "the number of counter events of lys_compile (so counter differences without LY_CTX_EXPLICIT_COMPILE and of "
            "ly_ctx_compile are oracle-level only: change-count), the revert of a failing operation, if-feature dependencies between features. Known findings: yl-hash-concat, "
            "yl-import-only-rev, yl-augment-order. Fixed: yl-hash-fi (c8adb05), yl-cc-explicit-compile (d4e18d7), "
            "yl-sub-include-skipped (272016c).",
    "technique": "Coq proof over hand-written model + differential correspondence (extracted OCaml vs C) + API oracles",
}
