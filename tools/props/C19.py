"""C19 - a context can be rebuilt from its own yang-library description"""
from props import comps_yl as Y

PID = "C19"
LEVEL = "proof"
ASAN_QUICK = True


def components():
    return [Y.ModHash(), Y.CcWrap(), Y.YlRoundTrip()]


def oracles_():
    return [Y.ModHashSens(), Y.ModHashConcat(), Y.ChangeCount(), Y.YlOracle(), Y.YlxOracle()]


TRUSTED = [
    "impl/t_yl.c generates the YANG texts of the abstract module records and serves them through the import callback; "
    "its callback serves the latest revision for an import without revision-date (as a search directory does)",
]
ASSUMPTIONS = [
    "the round-trip theorem assumes imports_pinned (an import without revision-date names a module with one revision in the "
    "sources) and covers module loading, implementing and feature setting only; compilation is compared on the "
    "implementation (LYS_OUT_YANG_COMPILED print of every implemented module), not modelled",
]

MANIFEST = {
    "text": "Coq (Properties_C19_yl.v): ModHash.v transcribes ly_ctx_get_modules_hash() with lysp_feature_next() (index reset "
            "per module since /repo c8adb05); modhash never runs out of fuel and equals the one-at-a-time hash of the "
            "concatenated strings; equal ordered observables give equal hashes; name, revision, implemented byte and every "
            "enabled feature of every module change the byte stream (C19_modhash_stream_reads_every_feature, unconditional; "
            "the former refutation witness is a regression example: 2926982747 vs 2169919692); the stream is not injective "
            "(witnesses 2151593976, 3673482515, finding yl-hash-concat) while the NUL-delimited encoding is; the uint16_t "
            "counter differs after 1..65535 events and wraps after 65536; YangLib.v: describe/rebuild with the round-trip "
            "theorem under imports_pinned. Tie: extracted model vs ly_ctx_get_modules_hash on generated contexts (records "
            "read back from the context), yang-library entries and rebuilt contexts vs describe/rebuild; oracles on the API "
            "for hash sensitivity, change counter (also under LY_CTX_EXPLICIT_COMPILE, fixed in d4e18d7) and round trip; the "
            "round trip also runs into populated contexts (T2 with YangLib.preload; the theorem's c0 may hold implemented modules in "
            "any feature state; the features argument NULL / * / array is modelled) and, as oracle yl-variants, with every option "
            "of the rebuilding context, callback / search directory sources, yldata / ylmem / ylpath in JSON and XML, *ctx NULL or "
            "existing, augment / deviation / import dependencies and if-feature dependent features. Submodule graphs (YANG 1.0 "
            "injected includes, chains, diamonds, includes between submodules in 1.1): YangLib.includes_order transcribes "
            "lysp_load_submodules (as of /repo 272016c), tied by T2 through the feature array order read back from the context; "
            "C19_includes_array_is_closure and C19_description_lists_closure_features: the description lists exactly the enabled "
            "features of the module and of the submodules of its include closure, each once (the former refutation witness is a "
            "regression example); the oracle compares "
            "the described features / submodules with lys_feature_value over all features and the includes of the context. "
            "Every generated module exports a grouping whose leaves depend on its features and that wraps the groupings of its "
            "imports, so compiled trees depend on features reached through import-only modules; yl-variants also changes features "
            "AFTER the loads (lys_set_implemented on / off / on-then-off) before describing and rebuilding. The description model "
            "also holds the submodule entries (name, revision; C19_description_lists_closure_submodules: every submodule of the "
            "include closure exactly once) and the deviation leaf-list (C19_description_deviation_list: exactly the implemented "
            "modules that deviate the module); loading implements augment / deviation targets (implement_targets), tied by the "
            "ylrt correspondence; the round-trip theorem covers augment / deviation statements (targets implemented in the "
            "original); C19_describe_rebuild_describe: describe o rebuild o describe = describe on the modelled part (same "
            "import-only entries, module entries equal with the system-ordered deviation list as a set).",
    "note": "Not modelled: compilation, location leaves, datastore list, search directories, "
            "LY_CTX_ALL_IMPLEMENTED/REF_IMPLEMENTED, the revision-less import logic beyond the unambiguous case, the exact "
            "number of counter events per operation. Known findings: yl-hash-concat, yl-import-only-rev, yl-augment-order; fixed: "
            "yl-sub-include-skipped (272016c), yl-hash-fi "
            "(c8adb05), yl-cc-explicit-compile (d4e18d7).",
    "technique": "Coq proof over hand-written model + differential correspondence (extracted OCaml vs C) + API oracles",
}
