"""comps_robust.py - API-level robustness oracle of property C05 (driver impl/t_robust.c): SEARCH, not proof.

Structure-aware mutation of VALID seeds for every entry point the property lists (YANG and YIN modules, XML and JSON data
with parser/validation option sets, RPC / reply / notification in the YANG, NETCONF and RESTCONF envelope types, XPath on
data and schema, data paths, value strings of every built-in and ietf-inet/yang-types type, regular-expression patterns).
The driver runs each case on an ASan+UBSan build with the leak checker after every case, a CPU limit per case, and checks
the post-conditions of the property (error code + error record, no result handed back, context as usable as a fresh one).
judge() turns a crash / sanitizer report / leak / timeout / failed post-condition into (tag, detail); the tag is derived from
the sanitizer report (kind + first libyang function) or from the post-condition and the entry point."""
import glob
import os
import re
import subprocess

import gens
import yanggen
import vlib
from vlib import hexs, unhex

PARSE_ONLY = 0x010000
PARSE_STRICT = 0x020000
PARSE_OPAQ = 0x040000
PARSE_NO_STATE = 0x080000
PARSE_ORDERED = 0x200000
VAL_NO_STATE = 0x1
VAL_PRESENT = 0x2
VAL_MULTI = 0x4

POPTS = [PARSE_STRICT, PARSE_ONLY | PARSE_STRICT, PARSE_OPAQ, PARSE_ONLY | PARSE_OPAQ, 0, PARSE_NO_STATE | PARSE_STRICT,
         PARSE_ORDERED | PARSE_STRICT, PARSE_ORDERED | PARSE_OPAQ | PARSE_NO_STATE, PARSE_ONLY]
VOPTS = [VAL_PRESENT, 0, VAL_NO_STATE | VAL_PRESENT, VAL_MULTI | VAL_PRESENT, VAL_MULTI | VAL_NO_STATE]

# ------------------------------------------------------------------------------------------------------------------
# seeds
# ------------------------------------------------------------------------------------------------------------------
YANG_SEEDS = [
    b"""module s1 {yang-version 1.1; namespace "urn:s1"; prefix s1;
  import rb { prefix rb; }
  revision 2020-01-01 { description "x"; reference "y"; }
  feature a; feature b { if-feature "a or not (a and a)"; }
  identity i1; identity i2 { base i1; if-feature "b"; }
  extension e { argument name { yin-element true; } }
  typedef t1 { type string { length "1..5 | 7"; pattern '[a-z]+' { error-message "m"; error-app-tag "t"; } } default "abc"; units "u"; }
  typedef t2 { type union { type t1; type int8 { range "min..0 | 5..max"; } type enumeration { enum a { value 3; } enum b; } } }
  grouping g { leaf x { type t2; } leaf-list y { type uint8; max-elements 4; ordered-by user; } container z { presence "p"; } }
  container c { uses g { refine x { default "b"; } augment z { leaf q { type empty; } } }
    list l { key "k1 k2"; unique "v w"; min-elements 0; leaf k1 { type string; } leaf k2 { type bits { bit a; bit b { position 7; } } }
      leaf v { type decimal64 { fraction-digits 4; range "-1.5..1.5"; } } leaf w { type leafref { path "../../x"; require-instance false; } }
      choice ch { mandatory false; default c1; case c1 { leaf a1 { type boolean; default true; } } leaf a2 { type identityref { base i1; } } }
      action act { if-feature a; input { leaf i { type instance-identifier; } } output { anydata o; } }
      notification n { leaf s { type binary { length "0..4"; } } }
      must "count(../l) < 5 and not(k1 = 'no')" { error-message "e"; }
    }
    leaf w { when "../x != 'a'"; type string; s1:e "arg"; }
    anyxml ax { config false; status deprecated; }
  }
  augment "/rb:top/rb:pres" { leaf extra { type t1; mandatory false; } }
  rpc r { input { uses g; } output { leaf o { type uint64; } } }
  notification nt { container c { leaf l { type int16; units "x"; } } }
  deviation "/s1:c/s1:w" { deviate add { units "k"; } }
}
""",
    b"""module s2 {namespace "urn:s2"; prefix s2;
  typedef e { type enumeration { enum "one"; enum two { value 10; } enum three; } }
  leaf a { type e; default two; }
  leaf b { type string { pattern "[0-9a-fA-F]{2}(:[0-9a-fA-F]{2})*"; pattern '\\p{L}\\d+|x?'; } }
  leaf-list c { type int32 { range "1..10|20..30"; } min-elements 1; }
  container d { leaf e { type leafref { path "/s2:a"; } mandatory true; } }
  list f { key g; leaf g { type uint8; } leaf h { type string; default "x y" + " z"; } }
}
""",
    b"module s3 { /* c1 */ namespace 'urn:s3'; // c2\n prefix s3; leaf \"x\" { type 'string' { length \"1..3\"; } description\n"
    b" \"a\n   b\\n\\t\\\"q\\\"\" + 'c'; } }",
]

YIN_SEEDS = [
    b"""<?xml version="1.0" encoding="UTF-8"?>
<module name="y1" xmlns="urn:ietf:params:xml:ns:yang:yin:1" xmlns:y1="urn:y1">
  <yang-version value="1.1"/><namespace uri="urn:y1"/><prefix value="y1"/>
  <revision date="2020-01-01"><description><text>x &amp; y</text></description></revision>
  <feature name="f"/>
  <typedef name="t"><type name="string"><length value="1..5"/><pattern value="[a-z]+"><error-message><value>bad</value></error-message></pattern></type></typedef>
  <container name="c"><if-feature name="f or not f"/>
    <leaf name="l"><type name="y1:t"/><default value="ab"/></leaf>
    <list name="ls"><key value="k"/><leaf name="k"><type name="uint8"><range value="1..10"/></type></leaf>
      <leaf name="v"><type name="enumeration"><enum name="a"/><enum name="b"><value value="5"/></enum></type></leaf></list>
    <choice name="ch"><case name="c1"><leaf name="x"><type name="empty"/></leaf></case><leaf name="y"><type name="boolean"/></leaf></choice>
  </container>
  <rpc name="r"><input><leaf name="i"><type name="int8"/></leaf></input></rpc>
  <notification name="n"><leaf name="s"><type name="string"/></leaf></notification>
</module>
""",
]

XML_SEEDS = [
    b'<top xmlns="urn:rb"><name>abc</name><tag>t1</tag><tag>t2</tag><item><id>1</id><val>x</val><ref>abc</ref><inner><flag>true</flag>'
    b'<d>1.5</d></inner></item><item><id>2</id><val>y</val></item><pair><a>k</a><b>-3</b><v>50</v></pair><x2>zz</x2>'
    b'<pres><must-leaf>20</must-leaf><w>w</w></pres><any><foo xmlns="urn:x">1</foo></any></top>',
    b'<types xmlns="urn:rb"><i8>-128</i8><u64>18446744073709551615</u64><dec>-100.5</dec><str>abc</str><bool>true</bool><en>b c</en>'
    b'<bits>one three</bits><bin>YWJj</bin><empty/><idref>id-b</idref><iid xmlns:r="urn:rb">/r:top/r:item[r:id=\'2\']/r:val</iid>'
    b'<un>qq</un><ipv4>10.0.0.1</ipv4><ipv6>2001:DB8::1</ipv6><pfx4>10.1.2.3/8</pfx4><host>example.com</host>'
    b'<dt>2020-02-29T23:59:60Z</dt><mac>AA:bb:0C:00:00:01</mac><xp xmlns:q="urn:rb">/q:top/q:name</xp></types>',
    b'<top xmlns="urn:rb" xmlns:yang="urn:ietf:params:xml:ns:yang:1"><tag yang:insert="first">z</tag><state>s</state>'
    b'<axml><a b="c">t<!-- c --><![CDATA[x<y]]>&lt;&#x41;</a></axml><opt>o</opt></top><unknown xmlns="urn:none"><x/></unknown>',
]

JSON_SEEDS = [
    b'{"rb:top":{"name":"n2","count":7,"tag":["b","a"],"item":[{"id":3,"val":"x","inner":{"d":"2.50","flag":false}}],'
    b'"pair":[{"a":"z","b":1},{"a":"a","b":2,"v":0}],"x1":"q","axml":{"k":[1,2,{"z":null}]}},'
    b'"rb:types":{"i64":"-9223372036854775808","u8":255,"dec18":"-9.223372036854775808","en":"z","bits":"two","empty":[null],'
    b'"idref":"rb:id-a","un":-5,"unlr":true,"ip":"::ffff:1.2.3.4","pfx6":"2001:db8:1::/33","oid":"1.3.6.1","c64":"0"}}',
    b'{"rb:top":{"@":{"ietf-yang-metadata:x":"1"},"name":"abc","@name":{"yang:operation":"x"},"count":1.5E1,"any":{"a":{"b":[1,"\\u00e9\\n",true,1e3]}},'
    b'"state":"s","item":[{"id":65535,"rb:val":"\\ud83d\\ude00"}]},"none:unknown":{"x":[null]}}',
]

OP_SEEDS = [
    ("x", "rpc", b'<op xmlns="urn:rb"><a>x</a><b>5</b><c><d>dd</d></c></op>'),
    ("x", "rpc", b'<top xmlns="urn:rb"><item><id>1</id><reset><delay>5</delay></reset></item></top>'),
    ("j", "rpc", b'{"rb:op":{"a":"x","b":5,"c":{"d":"dd"}}}'),
    ("j", "rpc", b'{"rb:top":{"item":[{"id":1,"reset":{"delay":5}}]}}'),
    ("x", "notif", b'<ev xmlns="urn:rb"><sev>low</sev><info><txt>t</txt></info></ev>'),
    ("x", "notif", b'<top xmlns="urn:rb"><item><id>1</id><changed><what>w</what></changed></item></top>'),
    ("j", "notif", b'{"rb:ev":{"sev":"high","info":{"txt":"t"}}}'),
    ("x", "reply", b'<r xmlns="urn:rb">x</r><l xmlns="urn:rb"><k>1</k></l><l xmlns="urn:rb"><k>2</k></l>'),
    ("j", "reply", b'{"rb:r":"x","rb:l":[{"k":1},{"k":2}]}'),
    ("x", "reply-act", b'<result xmlns="urn:rb">done</result>'),
    ("j", "reply-act", b'{"rb:result":"done"}'),
    ("x", "nc-rpc", b'<rpc message-id="1" xmlns="urn:ietf:params:xml:ns:netconf:base:1.0" xmlns:x="urn:x" x:a="b"><op xmlns="urn:rb"><a>x</a></op></rpc>'),
    ("x", "nc-rpc", b'<rpc message-id="2" xmlns="urn:ietf:params:xml:ns:netconf:base:1.0"><action xmlns="urn:ietf:params:xml:ns:yang:1">'
                    b'<top xmlns="urn:rb"><item><id>1</id><reset><delay>5</delay></reset></item></top></action></rpc>'),
    ("x", "nc-notif", b'<notification xmlns="urn:ietf:params:xml:ns:netconf:notification:1.0"><eventTime>2020-01-01T00:00:00Z</eventTime>'
                      b'<ev xmlns="urn:rb"><sev>high</sev></ev></notification>'),
    ("x", "nc-reply", b'<rpc-reply message-id="1" xmlns="urn:ietf:params:xml:ns:netconf:base:1.0"><r xmlns="urn:rb">x</r>'
                      b'<l xmlns="urn:rb"><k>1</k></l></rpc-reply>'),
    ("x", "nc-reply", b'<rpc-reply message-id="1" xmlns="urn:ietf:params:xml:ns:netconf:base:1.0"><ok/></rpc-reply>'),
    ("x", "nc-reply", b'<rpc-reply message-id="1" xmlns="urn:ietf:params:xml:ns:netconf:base:1.0"><rpc-error><error-type>rpc</error-type>'
                      b'<error-tag>missing-attribute</error-tag><error-severity>error</error-severity><error-app-tag>t</error-app-tag>'
                      b'<error-path>/a</error-path><error-message xml:lang="en">m</error-message><error-info><bad-attribute>message-id</bad-attribute>'
                      b'<bad-element>rpc</bad-element></error-info></rpc-error></rpc-reply>'),
    ("x", "nc-reply-act", b'<rpc-reply message-id="1" xmlns="urn:ietf:params:xml:ns:netconf:base:1.0"><result xmlns="urn:rb">x</result></rpc-reply>'),
    ("j", "rc-rpc", b'{"rb:input":{"a":"x","b":1}}'),
    ("x", "rc-rpc", b'<input xmlns="urn:rb"><a>x</a></input>'),
    ("j", "rc-reply", b'{"rb:output":{"r":"x","l":[{"k":1}]}}'),
    ("x", "rc-reply", b'<output xmlns="urn:rb"><r>x</r></output>'),
    ("j", "rc-notif", b'{"ietf-restconf:notification":{"eventTime":"2020-01-01T00:00:00Z","rb:ev":{"sev":"low"}}}'),
]

XPATH_SEEDS = [
    b"/rb:top/rb:item[rb:id=1]/rb:val", b"count(/rb:top/rb:item[rb:val='x']) + sum(/rb:top/rb:item/rb:id) div 2 mod 3",
    b"/rb:top/rb:item[rb:id > 1][position() = last()]/rb:inner/rb:d | /rb:top/rb:tag[2] | //rb:v[. = 50]/../rb:a",
    b"concat(string(/rb:top/rb:name), '|', substring-before(/rb:types/rb:dt, \"T\"), '|', boolean(/rb:top/rb:pres/rb:w[../rb:must-leaf=20]))",
    b"//*[local-name()='val' and namespace-uri()='urn:rb'][starts-with(., 'x') or contains(., 'y')]",
    b"/rb:top/rb:item[1]/following-sibling::rb:item/preceding-sibling::*[2]/ancestor-or-self::node()/descendant::text()",
    b"translate(normalize-space('  a  b '), 'ab', 'AB') = 'A B' and not(false()) and lang('en') or number('1e3') != -1.5e-2",
    b"deref(/rb:top/rb:item[rb:id='1']/rb:ref)/.. | current()/. | /rb:types/rb:idref[derived-from-or-self(., 'rb:base-id')]",
    b"re-match(/rb:top/rb:name, '[a-c]+') and enum-value(/rb:types/rb:en) = 1 and bit-is-set(/rb:types/rb:bits, 'one')",
    b"substring('12345', 1.5, 2.6) = '234' and string-length(/rb:top/rb:name) >= 3 and round(2.5) = 3 and floor(-1.5) < ceiling(-1.5)",
    b"(/rb:top/rb:item)[2]/rb:val[../rb:id = /rb:top/rb:item[last()]/rb:id - 8]", b"/rb:top/rb:pair[rb:a='k'][rb:b='-3']/rb:v",
    b"id('x')", b"/rb:top/rb:item[rb:val = current()/../rb:name]", b"1 div 0 > 9e999 or -1 div 0 < 0 or 0 div 0 != 0 div 0",
    b"$var", b"/rb:top/*[self::rb:name or self::rb:count]", b"/", b".", b"..", b"@*", b"//@*", b"processing-instruction('x')", b"comment()",
]

PATH_SEEDS = [
    b"/rb:top/item[id='2']/val", b"/rb:top/name", b"/rb:top/pair[a='k'][b='-3']/v", b"/rb:top/tag[.='t1']", b"/rb:top/item[3]/inner/d",
    b"/rb:types/iid", b"/rb:top/pres/w", b"/rb:top/any", b"/rb:op/a", b"/rb:top/item[id=\"7\"]/inner/flag", b"/rb:top/rb:item[rb:id='1']/rb:reset/delay",
    b"/rb:top/tag[1]", b"/rb:types/idref", b"/rb:top/x3", b"/rb:ev/info/txt",
]

# leaf of /rb:types -> valid values
VALUE_SEEDS = {
    "i8": [b"-128", b"127", b"0", b"+5", b" 7 "], "i16": [b"-32768", b"32767"], "i32": [b"-2147483648", b"2147483647", b"0x7f", b"017"],
    "i64": [b"-9223372036854775808", b"9223372036854775807"], "u8": [b"255", b"0"], "u16": [b"65535"], "u32": [b"4294967295"],
    "u64": [b"18446744073709551615", b"+0"], "dec": [b"-100.5", b"100", b"200.000", b"1.25", b".5", b"5."],
    "dec18": [b"-9.223372036854775808", b"9.223372036854775807", b"0.000000000000000001"],
    "str": [b"abc", b"", b"aabbccab", b"abcabcabca"], "bool": [b"true", b"false"], "en": [b"a", b"b c", b"z"],
    "bits": [b"one", b"one two three", b" three  one ", b""], "bin": [b"YWJj", b"", b"YWJjZGVm", b"YQ==", b"YW\nJj"], "empty": [b""],
    "idref": [b"rb:id-a", b"id-b", b"rb:base-id"], "iid": [b"/rb:top/rb:item[rb:id='2']/rb:val", b"/rb:top/rb:tag[.='x']", b"/rb:top/rb:item[1]"],
    "iidr": [b"/rb:top/rb:name", b"/rb:top/rb:item[rb:id='1']/rb:inner/rb:d"], "lref": [b"1", b"2", b"10"],
    "un": [b"-5", b"x", b"qq", b"100"], "unlr": [b"-128", b"rb:id-b", b"true"],
    "ipv4": [b"10.0.0.1", b"255.255.255.255%eth0", b"1.2.3.4%1"], "ipv6": [b"2001:DB8::1", b"::", b"fe80::1%lo", b"::ffff:1.2.3.4", b"1:2:3:4:5:6:7:8"],
    "ip": [b"1.2.3.4", b"::1"], "ipnz": [b"1.2.3.4"], "ip6nz": [b"::1"], "pfx4": [b"10.1.2.3/8", b"0.0.0.0/0", b"1.2.3.4/32"],
    "pfx6": [b"2001:db8:1::/33", b"::/0", b"::1/128"], "pfx": [b"1.0.0.0/8", b"::/1"],
    "host": [b"example.com", b"1.2.3.4", b"::1", b"a-b.c."], "dn": [b"example.com.", b".", b"a"], "uri": [b"http://a/b?c#d", b"urn:x:y"],
    "port": [b"65535"], "dscp": [b"63"], "asn": [b"4294967295"],
    "dt": [b"2020-02-29T23:59:60Z", b"2020-01-01T00:00:00.123456789+01:30", b"1970-01-01T00:00:00-00:00", b"9999-12-31T23:59:59Z", b"0000-01-01T00:00:00Z"],
    "mac": [b"AA:bb:0C:00:00:01"], "phys": [b"aa", b"AA:bb:cc", b""], "hex": [b"0a:FF"], "uuid": [b"F81D4FAE-7DEC-11D0-A765-00A0C91E6BF6"],
    "oid": [b"1.3.6.1", b"0.0", b"2.999.4294967295"], "oid128": [b"1.3.6"], "c64": [b"18446744073709551615"], "ts": [b"4294967295"],
    "xp": [b"/rb:top/rb:name", b"count(//*) > 1"], "dotted": [b"1.2.3.4"], "yid": [b"a-b_c.d", b"_x"],
}

PATTERN_SEEDS = [
    (b"[a-z][a-z0-9\\-]*", b"ab-1"), (b"[0-9a-fA-F]{2}(:[0-9a-fA-F]{2})*", b"0a:FF"), (b"\\p{L}\\d+|x?", b"\xc3\xa99"),
    (b"((a|b)*c){2,3}", b"abcbc"), (b"[\\i-[:]][\\c-[:]]*", b"a1"), (b"\\p{IsBasicLatin}+", b"abc"), (b"[^a-z&&[^b]]", b"b"),
    (b"a\\^b\\$", b"a^b$"), (b".*[\\s\\S]\\w\\W", b"ab c!"), (b"[a-z-[aeiou]]+", b"bcd"), (b"\\d{4}-\\d{2}-\\d{2}T.*(Z|[\\+\\-]\\d{2}:\\d{2})", b"2020-01-01T00:00:00Z"),
    (b"(a+)+b", b"aaaaaaaaaaaaaaaaaaaaaaaac"), (b"$^", b""), (b"\\p{IsGreek}\\P{IsGreek}", b"\xce\xb1a"), (b"[\\p{Lu}\\p{Nd}]{1,3}", b"A1"),
]

IFF_SEEDS = [b"f1", b"not f1", b"f1 and f2", b"(f1 or f2) and not (f1 and f2)", b"not (not f1)", b"f1 or f2 and f1"]


def block_names():
    """names of the XML Schema Unicode blocks the pattern rewrite knows (ublock2urange of src/schema_compile_node.c)"""
    try:
        src = open(os.path.join(vlib.REPO, "src", "schema_compile_node.c"), "rb").read()
        a = src.index(b"ublock2urange[][2]")
        names = re.findall(rb'\{"([A-Za-z0-9-]+)", "\[', src[a:a + 12000])
        return names or [b"BasicLatin", b"Greek", b"Lao", b"Thai"]
    except (OSError, ValueError):
        return [b"BasicLatin", b"Greek", b"Lao", b"Thai"]


# documents with exactly ONE defect of each kind in otherwise valid data: with LYD_VALIDATE_MULTI_ERROR the parser goes on
# after the defect and the rest validates, the call still has to fail as a whole and hand nothing back
def one_error_docs():
    X = lambda body: b'<top xmlns="urn:rb"><name>abc</name>' + body + b'</top>'      # noqa: E731
    J = lambda body: b'{"rb:top":{"name":"abc"' + body + b'}}'                          # noqa: E731
    xml = {
        "bad-int": X(b"<count>x</count>"), "bad-range": X(b"<pair><a>k</a><b>1</b><v>101</v></pair>"),
        "bad-pattern": b'<top xmlns="urn:rb"><name>ABC</name></top>', "bad-leaflist": X(b"<item><id>70000</id></item>"),
        "bad-bool": X(b"<item><id>1</id><inner><flag>maybe</flag></inner></item>"), "bad-dec": X(b"<item><id>1</id><inner><d>1.234</d></inner></item>"),
        "bad-enum": b'<types xmlns="urn:rb"><en>nope</en></types>', "bad-bits": b'<types xmlns="urn:rb"><bits>one one</bits></types>',
        "bad-idref": b'<types xmlns="urn:rb"><idref>none</idref></types>', "bad-union": b'<types xmlns="urn:rb"><un>-200</un></types>',
        "unknown-elem": X(b"<nope>1</nope>"), "unknown-ns": X(b'<nope xmlns="urn:none">1</nope>'), "missing-key": X(b"<item><val>x</val></item>"),
        "dup-list": X(b"<item><id>1</id></item><item><id>1</id></item>"), "dup-leaf": X(b"<count>1</count><count>2</count>"),
        "dangling-leafref": X(b"<item><id>1</id><ref>zzz</ref></item>"), "must-false": X(b"<pres><must-leaf>250</must-leaf></pres>"),
        "when-false": X(b"<pres><must-leaf>1</must-leaf><w>w</w></pres>"), "two-cases": X(b"<x1>a</x1><x2>b</x2>"),
        "state-data": X(b"<state>s</state>"), "bad-meta": X(b'<tag xmlns:yang="urn:ietf:params:xml:ns:yang:1" yang:insert="nowhere">t</tag>'),
        "text-in-container": X(b"<pres>text</pres>"), "child-in-leaf": X(b"<count><x/></count>"), "key-order": X(b"<pair><b>1</b><a>k</a></pair>"),
    }
    js = {
        "bad-int": J(b',"count":"x"'), "bad-range": J(b',"pair":[{"a":"k","b":1,"v":101}]'), "bad-pattern": b'{"rb:top":{"name":"ABC"}}',
        "bad-leaflist": J(b',"item":[{"id":70000}]'), "bad-bool": J(b',"item":[{"id":1,"inner":{"flag":"maybe"}}]'),
        "bad-dec": J(b',"item":[{"id":1,"inner":{"d":"1.234"}}]'), "bad-enum": b'{"rb:types":{"en":"nope"}}', "bad-bits": b'{"rb:types":{"bits":"one one"}}',
        "bad-idref": b'{"rb:types":{"idref":"none"}}', "bad-union": b'{"rb:types":{"un":-200}}', "unknown-member": J(b',"nope":1'),
        "unknown-module": J(b',"none:nope":1'), "missing-key": J(b',"item":[{"val":"x"}]'), "dup-list": J(b',"item":[{"id":1},{"id":1}]'),
        "dangling-leafref": J(b',"item":[{"id":1,"ref":"zzz"}]'), "must-false": J(b',"pres":{"must-leaf":250}'),
        "when-false": J(b',"pres":{"must-leaf":1,"w":"w"}'), "two-cases": J(b',"x1":"a","x2":"b"'), "state-data": J(b',"state":"s"'),
        "wrong-kind": J(b',"item":{"id":1}'), "number-for-string": J(b',"tag":[1]'), "bad-meta": J(b',"@count":{"rb:nope":1},"count":1'),
        "leaf-as-object": J(b',"count":{"x":1}'), "wrong-exp-number": J(b',"count":0.5E0'),
    }
    return xml, js


def repo_seed_modules():
    out = []
    for d in ("tests/modules/yang", "models"):
        for p in sorted(glob.glob(os.path.join(vlib.REPO, d, "*.yang"))):
            try:
                out.append((os.path.basename(p), open(p, "rb").read()))
            except OSError:
                pass
    return out


_yin_cache = {}


def to_yin(name, text):
    """YIN form of a seed module printed by the yanglint of the current build (None when it does not convert)"""
    key = (vlib.repo_hash(), name)
    if key in _yin_cache:
        return _yin_cache[key]
    res = None
    try:
        lint = os.path.join(vlib.build_lib("rel"), "yanglint")
        d = os.path.join("/tmp", "robust-seeds-%d" % os.getpid())
        os.makedirs(d, exist_ok=True)
        fn = os.path.join(d, name if name.endswith(".yang") else name + ".yang")
        open(fn, "wb").write(text)
        p = subprocess.run([lint, "-f", "yin", "-p", os.path.join(vlib.REPO, "tests/modules/yang"), "-p", os.path.join(vlib.REPO, "models"),
                            "-p", d, fn], stdout=subprocess.PIPE, stderr=subprocess.DEVNULL, timeout=20)
        if p.returncode == 0 and p.stdout.startswith(b"<?xml"):
            res = p.stdout
        os.unlink(fn)
    except (OSError, subprocess.SubprocessError, vlib.BuildError):
        res = None
    _yin_cache[key] = res
    return res


# ------------------------------------------------------------------------------------------------------------------
# mutations
# ------------------------------------------------------------------------------------------------------------------
TOKEN_RE = re.compile(rb"""\s+|"(?:[^"\\]|\\.)*"|'[^']*'|<!--.*?-->|</?[A-Za-z_][\w.:-]*|/>|[A-Za-z_][\w.-]*|\d+(?:\.\d+)?|.""", re.S)


def tokens(b):
    return TOKEN_RE.findall(b)


BAD_BYTES = [b"\xc0\x80", b"\xf0\x81\x80\x80", b"\xed\xa0\x80", b"\xef\xbf\xbe", b"\xef\xbf\xbf", b"\xf4\x90\x80\x80", b"\xff", b"\x80", b"\xc3",
             b"\xe2\x82", b"\xf0\x9f\x98", b"\x01", b"\x1f", b"\x7f", b"\x0b", b"\x0c", b"\r", b"\xe0\x80\x80", b"\xf8\x88\x80\x80\x80",
             b"\xef\xb7\x90", b"\xf0\x9f\x98\x80", b"\xc2\x85", b"\xe2\x80\xa8"]
OPENERS = {b"{": b"}", b"[": b"]", b"(": b")", b"<": b">", b"\"": b"\"", b"'": b"'"}
PUNCT = [b"{", b"}", b"[", b"]", b"(", b")", b"<", b">", b"\"", b"'", b";", b":", b",", b"/", b"=", b"&", b"\\", b"*", b"|", b"+", b"-", b".", b"@",
         b"$", b"//", b"..", b"::", b"/*", b"*/", b"<!--", b"-->", b"<![CDATA[", b"]]>", b"<?", b"?>", b"&#", b"&#x", b"&amp;", b"&#0;", b"\\u", b"\\ud800"]
NUMS = [b"0", b"-1", b"1", b"255", b"256", b"65535", b"65536", b"2147483647", b"2147483648", b"4294967295", b"4294967296", b"-2147483649",
        b"9223372036854775807", b"9223372036854775808", b"18446744073709551615", b"18446744073709551616", b"-9223372036854775809",
        b"1e308", b"1e309", b"1E-400", b"0.5E1", b"NaN", b"-0", b"00", b"0x10", b"1.5", b"99999999999999999999999999999999999999", b"1e99999"]


def mutate(rng, seed, pool):
    """one structure-aware mutation; returns (label, bytes). pool: other seeds of the same language (for splicing)."""
    t = tokens(seed)
    r = rng.random()
    if not t:
        return "empty", b""
    k = rng.randrange(len(t))
    if r < 0.10:
        del t[k]
        return "tok-del", b"".join(t)
    if r < 0.18:
        t.insert(k, t[k])
        return "tok-dup", b"".join(t)
    if r < 0.26:
        j = rng.randrange(len(t))
        t[k], t[j] = t[j], t[k]
        return "tok-swap", b"".join(t)
    if r < 0.36:
        other = tokens(rng.choice(pool)) or [b"x"]
        t[k] = rng.choice(other)
        return "tok-replace", b"".join(t)
    if r < 0.44:
        other = tokens(rng.choice(pool))
        j = rng.randrange(len(other) + 1)
        return "splice", b"".join(t[:k] + other[j:])
    if r < 0.50:
        # flip quote kinds of one string token
        idx = [i for i, x in enumerate(t) if x[:1] in (b"\"", b"'") and len(x) > 1]
        if idx:
            i = rng.choice(idx)
            q = b"'" if t[i][:1] == b"\"" else b"\""
            t[i] = rng.choice([q + t[i][1:-1] + q, q + t[i][1:], t[i][:-1] + q, t[i][1:], t[i][:-1]])
        return "quote-flip", b"".join(t)
    if r < 0.58:
        # unbalance: drop or add a bracket / brace / tag delimiter
        idx = [i for i, x in enumerate(t) if x in (b"{", b"}", b"[", b"]", b"(", b")", b">", b"/>", b";") or x[:1] == b"<"]
        if idx and rng.random() < 0.6:
            del t[rng.choice(idx)]
        else:
            t.insert(k, rng.choice([b"{", b"}", b"[", b"]", b"(", b")", b"<", b">", b"</", b"/>", b"<a>", b"</a>", b"\"", b"'"]))
        return "unbalance", b"".join(t)
    if r < 0.64:
        t[k] = rng.choice(PUNCT)
        return "punct", b"".join(t)
    if r < 0.70:
        idx = [i for i, x in enumerate(t) if x[:1].isdigit()]
        i = rng.choice(idx) if idx else k
        t[i] = rng.choice(NUMS)
        return "number", b"".join(t)
    if r < 0.76:
        n = rng.choice([10, 100, 1000, 5000])
        t[k] = t[k] * n
        return "tok-repeat", b"".join(t)
    if r < 0.82:
        # repeat a range of tokens
        j = min(len(t), k + rng.randrange(1, 8))
        n = rng.choice([3, 20, 300])
        return "range-repeat", b"".join(t[:k] + t[k:j] * n + t[j:])
    b = bytearray(seed)
    if r < 0.88:
        pos = rng.randrange(len(b) + 1)
        b[pos:pos] = rng.choice(BAD_BYTES)
        return "bad-bytes", bytes(b)
    if r < 0.93:
        pos = rng.randrange(len(b) + 1)
        b[pos:pos] = bytes(rng.randrange(1, 256) for _ in range(rng.randrange(1, 6)))
        return "rand-bytes", bytes(b)
    if r < 0.97:
        pos = rng.randrange(len(b))
        b[pos] = (b[pos] ^ (1 << rng.randrange(8))) or 1
        return "bit-flip", bytes(b)
    return "truncate", bytes(b[:rng.randrange(len(b) + 1)])


def json_name_escapes(doc):
    """every member name of a JSON document written with escape sequences: one character (first, last, the colon, the one after the colon,
    the `@`), every character; the parser then owns a dynamic copy of the name, freed by the next token"""
    out, i, n = [], 0, len(doc)
    while i < n:
        if doc[i:i + 1] != b'"':
            i += 1
            continue
        j = i + 1
        while j < n and doc[j:j + 1] != b'"':
            j += 2 if doc[j:j + 1] == b"\\" else 1
        k = j + 1
        while k < n and doc[k:k + 1] in b" \t\r\n":
            k += 1
        name = doc[i + 1:j]
        if doc[k:k + 1] == b":" and name and b"\\" not in name:
            esc = lambda ps: b"".join((b"\\u%04x" % name[q]) if q in ps else name[q:q + 1] for q in range(len(name)))
            pos = {0, len(name) - 1}
            c = name.find(b":")
            if c >= 0:
                pos |= {c, c + 1, max(c - 1, 0)}
            for q in sorted(pos):
                if q < len(name):
                    out.append(doc[:i + 1] + esc({q}) + doc[j:])
            out.append(doc[:i + 1] + esc(set(range(len(name)))) + doc[j:])
        i = j + 1
    return out


def rep(pre, op, n, mid, cl, post):
    """compact description of pre + op*n + mid + cl*n + post (expanded by the driver)"""
    return "R:%s,%s,%d,%s,%s,%s" % (hexs(pre), hexs(op), n, hexs(mid), hexs(cl), hexs(post))


def L(*f):
    return "\t".join(["rb"] + [str(x) for x in f])


def yang_dq(b):
    return b"\"" + b.replace(b"\\", b"\\\\").replace(b"\"", b"\\\"") + b"\""


class Robust:
    """C05 search: mutated inputs through every parsing entry point under ASan+UBSan+LSan with post-condition and
    context-health checks (see impl/t_robust.c)"""
    name = "robust"
    driver = "t_robust"
    kinds = None
    quick_sanitize = True
    leaks = True
    timeout = 1500

    def __init__(self):
        self.labels = {}
        self.second = {}

    def n(self, tier, quick, thorough, scale=1.0):
        return max(1, int((thorough if tier == "thorough" else quick) * scale))

    def add(self, out, label, line):
        if len(line) > 3000000:
            return
        if line.startswith("rb\tyang\t") and re.search(r"706f736974696f6e20(3[0-9]){7,}", line):
            # `position <huge>`: a VALID bits type whose every value is a bitmap of position/8 bytes (up to 512 MiB): accepted
            # by design, takes seconds under ASan; reported as an observation, not searched further
            return
        self.labels[line] = label
        out.append(line)

    # ---- deep nesting: a crash by stack overflow is a violation of `terminates within resource bounds` ----
    def deep(self, out, tier):
        depths = [1000, 10000, 100000]
        top = b'<top xmlns="urn:rb">'
        for n in depths:
            A = self.add
            for po in (PARSE_OPAQ, PARSE_STRICT, 0, PARSE_ONLY | PARSE_OPAQ):
                A(out, "deep-xml-unknown/%d" % n, L("data", "x", po, VAL_PRESENT, rep(b"", b'<a xmlns="urn:x">', n, b"x", b"</a>", b"")))
                A(out, "deep-json-unknown/%d" % n, L("data", "j", po, VAL_PRESENT, rep(b"{", b'"x:a":{', n, b'"x:b":1', b"}", b"}")))
            A(out, "deep-xml-anydata/%d" % n, L("data", "x", PARSE_STRICT, VAL_PRESENT, rep(top + b"<any>", b"<a>", n, b"x", b"</a>", b"</any></top>")))
            A(out, "deep-xml-anyxml/%d" % n, L("data", "x", PARSE_STRICT, VAL_PRESENT, rep(top + b"<axml>", b"<a>", n, b"x", b"</a>", b"</axml></top>")))
            A(out, "deep-xml-unclosed/%d" % n, L("data", "x", PARSE_OPAQ, VAL_PRESENT, rep(top, b"<a>", n, b"", b"", b"")))
            A(out, "deep-xml-attr/%d" % n, L("data", "x", PARSE_OPAQ, VAL_PRESENT, rep(top + b"<name", b' a="b"', n, b">x</name></top>", b"", b"")))
            A(out, "deep-xml-ns/%d" % n, L("data", "x", PARSE_OPAQ, VAL_PRESENT, rep(b"", b'<a xmlns:p="urn:p">', n, b"", b"</a>", b"")))
            A(out, "deep-json-array/%d" % n, L("data", "j", PARSE_STRICT, VAL_PRESENT, rep(b'{"rb:top":{"any":{"a":', b"[", n, b"1", b"]", b"}}}")))
            A(out, "deep-json-object/%d" % n, L("data", "j", PARSE_STRICT, VAL_PRESENT, rep(b'{"rb:top":{"any":', b'{"a":', n, b"1", b"}", b"}}")))
            A(out, "deep-json-anyxml/%d" % n, L("data", "j", PARSE_STRICT, VAL_PRESENT, rep(b'{"rb:top":{"axml":', b'[{"a":', n, b"1", b"}]", b"}}")))
            A(out, "deep-json-toparray/%d" % n, L("data", "j", PARSE_OPAQ, VAL_PRESENT, rep(b"", b"[", n, b"", b"]", b"")))
            A(out, "deep-json-unclosed/%d" % n, L("data", "j", PARSE_OPAQ, VAL_PRESENT, rep(b'{"rb:top":', b'{"a":', n, b"", b"", b"")))
            A(out, "deep-yang-container/%d" % n, L("yang", rep(b"module d {namespace urn:d; prefix d; ", b"container c {", n, b"leaf l {type string;}", b"}", b"}")))
            A(out, "deep-yang-union/%d" % n, L("yang", rep(b"module d {namespace urn:d; prefix d; leaf l {", b"type union {", n, b"type string;", b"}", b"}}")))
            A(out, "deep-yang-grouping/%d" % n, L("yang", rep(b"module d {namespace urn:d; prefix d; ", b"grouping g {", n, b"leaf l {type string;}", b"}", b"}")))
            A(out, "deep-yang-unknown-stmt/%d" % n, L("yang", rep(b"module d {namespace urn:d; prefix d; ", b"d:e x {", n, b"", b"}", b"}")))
            A(out, "deep-yang-concat/%d" % n, L("yang", rep(b"module d {namespace urn:d; prefix d; description \"a\"", b" + \"b\"", n, b";", b"", b"}")))
            A(out, "deep-yang-comment/%d" % n, L("yang", rep(b"module d {namespace urn:d; prefix d; ", b"/* ", n, b"", b"*/ ", b"}")))
            A(out, "deep-yang-choice/%d" % n, L("yang", rep(b"module d {namespace urn:d; prefix d; ", b"choice c { case d {", n, b"leaf l {type string;}", b"}}", b"}")))
            A(out, "deep-yang-iffeature-paren/%d" % n, L("yang", rep(b"module d {yang-version 1.1; namespace urn:d; prefix d; feature f; leaf l {type string; if-feature \"",
                                                                  b"(", n, b"f", b")", b"\";}}")))
            A(out, "deep-yang-iffeature-not/%d" % n, L("yang", rep(b"module d {yang-version 1.1; namespace urn:d; prefix d; feature f; leaf l {type string; if-feature \"",
                                                                b"not ", n, b"f", b"", b"\";}}")))
            if n <= 10000:
                A(out, "deep-yang-must-paren/%d" % n, L("yang", rep(b"module d {namespace urn:d; prefix d; leaf l {type string; must \"", b"(", n, b"1", b")", b"\";}}")))
            if n <= 10000:
                A(out, "deep-yang-when-not/%d" % n, L("yang", rep(b"module d {namespace urn:d; prefix d; leaf l {type string; when \"", b"not(", n, b"1", b")", b"\";}}")))
            A(out, "deep-yang-pattern-paren/%d" % n, L("yang", rep(b"module d {namespace urn:d; prefix d; leaf l {type string {pattern '", b"(", n, b"a", b")", b"';}}}")))
            if n <= 10000:
                A(out, "deep-yang-leafref/%d" % n, L("yang", rep(b"module d {namespace urn:d; prefix d; leaf t {type string;} leaf l {type leafref {path \"",
                                                          b"../", n, b"t", b"", b"\";}}}")))
            A(out, "deep-yin-container/%d" % n, L("yin", rep(b'<module name="d" xmlns="urn:ietf:params:xml:ns:yang:yin:1"><namespace uri="urn:d"/><prefix value="d"/>',
                                                            b'<container name="c">', n, b'<leaf name="l"><type name="string"/></leaf>', b"</container>", b"</module>")))
            A(out, "deep-yin-unknown/%d" % n, L("yin", rep(b'<module name="d" xmlns="urn:ietf:params:xml:ns:yang:yin:1"><namespace uri="urn:d"/><prefix value="d"/>',
                                                          b'<x:e xmlns:x="urn:x">', n, b"", b"</x:e>", b"</module>")))
            # XPath texts: the tokenizer is quadratic under ASan (string interceptors), 10 k tokens take 1-2 s there and
            # 100 k several minutes (release build: < 1 s except the flat or / union / unary minus chains, 8 s); the
            # depth limits of the XPath parser are reached at 10 k already
            for e in (("xfind", "xeval", "sxfind") if n <= 10000 else ()):
                A(out, "deep-xpath-paren/%d" % n, L(e, rep(b"", b"(", n, b"1", b")", b"")))
                A(out, "deep-xpath-not/%d" % n, L(e, rep(b"", b"not(", n, b"1", b")", b"")))
                A(out, "deep-xpath-pred/%d" % n, L(e, rep(b"/rb:top", b"[rb:item", n, b"", b"]", b"")))
                A(out, "deep-xpath-pred2/%d" % n, L(e, rep(b"/rb:top", b"[1]", n, b"", b"", b"")))
                A(out, "deep-xpath-minus/%d" % n, L(e, rep(b"", b"-", n, b"1", b"", b"")))
                A(out, "deep-xpath-concat/%d" % n, L(e, rep(b"", b"concat('a',", n, b"'b'", b")", b"")))
                A(out, "deep-xpath-or/%d" % n, L(e, rep(b"1", b" or 1", n, b"", b"", b"")))
                A(out, "deep-xpath-union/%d" % n, L(e, rep(b"/rb:top", b" | /rb:top", n, b"", b"", b"")))
                A(out, "deep-xpath-steps/%d" % n, L(e, rep(b"/rb:top", b"/..", n, b"", b"", b"")))
                A(out, "deep-xpath-dslash/%d" % n, L(e, rep(b"", b"//*", min(n, 1000), b"", b"", b"")))
                A(out, "deep-xpath-parent-pred/%d" % n, L(e, rep(b"/rb:top/rb:item", b"[..", n, b"", b"]", b"")))
            if n <= 10000:
                A(out, "deep-path-steps/%d" % n, L("fpath", rep(b"", b"/rb:top", n, b"", b"", b"")))
            if n <= 10000:
                A(out, "deep-path-pred/%d" % n, L("fpath", rep(b"/rb:top/item", b"[id='1']", n, b"", b"", b"")))
            if n <= 10000:
                A(out, "deep-npath-steps/%d" % n, L("npath", "~", rep(b"/rb:top", b"/rb:item", n, b"", b"", b"")))
            if n <= 10000:
                A(out, "deep-iid-pred/%d" % n, L("value", "iid", rep(b"/rb:top/rb:item", b"[rb:id='1']", n, b"", b"", b"")))
            if n <= 10000:
                A(out, "deep-iid-steps/%d" % n, L("value", "iid", rep(b"", b"/rb:top", n, b"", b"", b"")))
            if n <= 10000:
                A(out, "deep-xp-value/%d" % n, L("value", "xp", rep(b"", b"(", n, b"1", b")", b"")))
            A(out, "deep-pattern-paren/%d" % n, L("pattern", rep(b"", b"(", n, b"a", b")", b""), hexs(b"a")))
            A(out, "deep-pattern-class/%d" % n, L("pattern", hexs(b"[a-z-[aeiou]]" * min(n, 10000)), hexs(b"b" * min(n, 10000))))
            A(out, "deep-pattern-bracket/%d" % n, L("pattern", rep(b"", b"[", n, b"a", b"]", b""), hexs(b"a")))
            A(out, "deep-pattern-subtract/%d" % n, L("pattern", rep(b"", b"[a-z-", n, b"[b]", b"]", b""), hexs(b"a")))
            A(out, "deep-pattern-star/%d" % n, L("pattern", hexs(b"(a*)*" * min(n, 1000) + b"b"), hexs(b"a" * 30)))
            for leaf in ("str", "bits", "bin", "i64", "dec", "ipv6", "dt", "host", "oid", "hex", "un", "en", "idref", "uri", "phys"):
                seedv = VALUE_SEEDS[leaf][0] or b"a"
                A(out, "long-value-%s/%d" % (leaf, n), L("value", leaf, rep(b"", seedv + b" ", n, b"", b"", b"")))
                A(out, "long-value-%s/%d" % (leaf, n), L("value", leaf, rep(b"", seedv[:1] or b"a", n * 10, b"", b"", b"")))

    def gen(self, rng, tier, scale=1.0):
        out = []
        A = self.add
        self.labels = {}
        self.tier = tier
        # ---------- every seed as it is (all must succeed: the judge checks that a handful do) ----------
        yang = [(nm, tx) for nm, tx in repo_seed_modules()] + [("s%d" % i, tx) for i, tx in enumerate(YANG_SEEDS)]
        ypool = [tx for _, tx in yang]
        for nm, tx in yang:
            A(out, "seed-yang:" + nm, L("yang", hexs(tx)))
        yin = list(YIN_SEEDS)
        for nm, tx in yang:
            if len(tx) < 40000:
                y = to_yin(nm, tx)
                if y:
                    yin.append(y)
        import shutil
        shutil.rmtree(os.path.join("/tmp", "robust-seeds-%d" % os.getpid()), ignore_errors=True)
        for i, tx in enumerate(yin):
            # the converted forms are what the YIN printer of the tree writes; not all of them are accepted back (C10)
            A(out, "seed-yin" if i < len(YIN_SEEDS) else "conv-yin", L("yin", hexs(tx)))
        for tx in XML_SEEDS:
            for po in POPTS:
                A(out, "seed-xml", L("data", "x", po, rng.choice(VOPTS), hexs(tx)))
        for tx in JSON_SEEDS:
            for po in POPTS:
                A(out, "seed-json", L("data", "j", po, rng.choice(VOPTS), hexs(tx)))
        for f, ty, tx in OP_SEEDS:
            A(out, "seed-op", L("op", f, ty, hexs(tx)))
        for x in XPATH_SEEDS:
            for e in ("xfind", "xeval", "sxfind"):
                A(out, "seed-xpath", L(e, hexs(x)))
        for x in PATH_SEEDS:
            A(out, "seed-path", L("fpath", hexs(x)))
            A(out, "seed-path", L("npath", hexs(b"1"), hexs(x)))
            A(out, "seed-path", L("npathp", hexs(b"abc"), hexs(x)))
        for leaf, vals in VALUE_SEEDS.items():
            for v in vals:
                A(out, "seed-value", L("value", leaf, hexs(v)))
        for p, s in PATTERN_SEEDS:
            A(out, "seed-pattern", L("pattern", hexs(p), hexs(s)))
            A(out, "seed-modpattern", L("yang", hexs(b"module p {namespace urn:p; prefix p; leaf l {type string {pattern " + yang_dq(p) + b";}}}")))

        # ---------- one defect per document x parser options x validation options (deterministic) ----------
        xml1, js1 = one_error_docs()
        for fm, docs in (("x", xml1), ("j", js1)):
            for kind, doc in docs.items():
                for po in (PARSE_STRICT, PARSE_OPAQ, 0, PARSE_ONLY | PARSE_STRICT, PARSE_NO_STATE | PARSE_STRICT, PARSE_ORDERED | PARSE_STRICT):
                    for vo in (VAL_PRESENT, VAL_MULTI | VAL_PRESENT, VAL_MULTI | VAL_NO_STATE):
                        A(out, "one-error:%s" % kind, L("data", fm, po, vo, hexs(doc)))
        # ---------- every Unicode block escape of the pattern rewrite, outside and inside a character class ----------
        for bn in block_names():
            for pat in (b"\\p{Is" + bn + b"}", b"a\\p{Is" + bn + b"}+b", b"[\\p{Is" + bn + b"}]", b"[^x\\p{Is" + bn + b"}-]*", b"\\P{Is" + bn + b"}?",
                        b"\\p{Is" + bn + b"}\\p{Is" + bn + b"}", b"(\\p{Is" + bn + b"}|[\\P{Is" + bn + b"}])"):
                A(out, "block-pattern", L("pattern", hexs(pat), hexs(b"a")))
            A(out, "block-modpattern", L("yang", hexs(b"module p {namespace urn:p; prefix p; leaf l {type string {pattern " +
                                                     yang_dq(b"\\p{Is" + bn + b"}*") + b";}}}")))

        # ---------- trees with degenerate but legal content built through the API (deterministic) ----------
        def hv(v):
            return "~" if v is None else hexs(v)
        anyvals = [None, b"", b"text", b"<a xmlns=\"urn:x\">1</a>", b"{\"x:a\":1}", b"[1,2]", b"\xc3"]
        for nm in (b"any", b"axml"):
            for vt in range(5):
                for v in (anyvals if vt < 4 else [None]):      # a LYB chunk is trusted input: only the missing value
                    for opts in (0, 0x100):
                        A(out, "api-any", L("api", "any", hexs(nm), vt, hv(v), opts))
        for nm in (b"any", b"axml"):
            for vt, v in ((1, b"text"), (0, None), (1, b"<a xmlns=\"urn:x\">1</a>"), (3, b"{\"x:a\":1}"), (2, b"<a xmlns=\"urn:x\"/>")):
                for mode in (0, 1):
                    for vt2 in range(5):
                        A(out, "api-anycopy", L("api", "anycopy", hexs(nm), vt, hv(v), mode, vt2))
        for fm in ("j", "x"):
            for nm in (b"x", b"", None, b"a b", b"x:y"):
                for v in (None, b"", b"v", b"<&\"'"):
                    for pf in (None, b"", b"p"):
                        for md in (None, b"", b"rb", b"urn:rb", b"nomod"):
                            A(out, "api-opaq", L("api", "opaq", fm, hv(nm), hv(v), hv(pf), hv(md)))
        for leaf, vals in VALUE_SEEDS.items():
            for v in list(vals) + [None, b""]:
                for opts in (0, 0x08, 0x02, 0x0a):             # lexical, LYD_NEW_VAL_CANON, STORE_ONLY, both
                    A(out, "api-term", L("api", "term", hexs(leaf.encode()), hv(v), opts))
        for nm in (b"yang:insert", b"yang:operation", b"yang:value", b"ietf-yang-metadata:x", b"rb:nope", b"", b"nomod:a", b"insert"):
            for v in (None, b"", b"first", b"x", b"replace"):
                A(out, "api-meta", L("api", "meta", hexs(nm), hv(v)))
        for pth in (b"/rb:top/pres", b"/rb:top/item[id='1']", b"/rb:top/item[id='1']/inner", b"/rb:top/tag", b"/rb:top/any", b"/rb:top/axml",
                    b"/rb:top/x3", b"/rb:top/name", b"/rb:top/pair[a=''][b='1']", b"/rb:top/tag[.='']", b"/rb:top/item[id='1']/reset",
                    b"/rb:top/item[id='1']/changed", b"/rb:top/state", b"/rb:top/opt", b"/rb:top/count"):
            for v in (None, b"", b"v", b"1"):
                A(out, "api-path", L("api", "path", hexs(pth), hv(v)))
        for k1 in (b"", b"k", b"'\"", b"a b"):
            for k2 in (b"", b"1", b"x", b"-128"):
                A(out, "api-list", L("api", "list", hexs(k1), hexs(k2)))

        # ---------- XML text values around the buffer steps of lyxml_parse_value: plain runs, CDATA sections, references ----------
        runs = (0, 1, 23, 24, 25, 100, 127, 128, 129, 150, 300)
        cds = (0, 1, 100, 127, 128, 129, 130, 200, 300, 1000)
        for pl in runs:
            for cl in cds:
                for lead in (b"", b"&lt;", b"<![CDATA[x]]>", b"&#x41;" + b"q" * 130):
                    body = lead + b"a" * pl + b"<![CDATA[" + b"b" * cl + b"]]>"
                    doc = b'<top xmlns="urn:rb"><tag>' + body + b'</tag></top>'
                    A(out, "xmltext", L("data", "x", PARSE_STRICT, VAL_PRESENT, hexs(doc)))
                    if lead == b"" or (pl in (25, 129, 300) and cl in (129, 200)):
                        A(out, "xmltext", L("data", "x", PARSE_OPAQ | PARSE_ONLY, VAL_PRESENT, hexs(b'<u xmlns="urn:none">' + body + b'&amp;' + b"c" * pl + b'</u>')))
                        A(out, "xmltext-yin", L("yin", hexs(b'<module name="tx" xmlns="urn:ietf:params:xml:ns:yang:yin:1"><namespace uri="urn:tx"/><prefix value="tx"/>'
                                                          b'<description><text>' + body + b'</text></description></module>')))
        for pl in (25, 129, 300):
            for cl in (129, 300):
                A(out, "xmltext", L("op", "x", "rpc", hexs(b'<op xmlns="urn:rb"><a>' + b"a" * pl + b"<![CDATA[" + b"b" * cl + b"]]></a></op>")))
                A(out, "xmltext", L("data", "x", PARSE_STRICT, VAL_PRESENT, hexs(b'<top xmlns="urn:rb"><axml>' + b"a" * pl + b"<![CDATA[" + b"b" * cl + b"]]></axml></top>")))
        # ---------- escaped member names everywhere in JSON (envelopes, module-qualified names, metadata, anydata / anyxml content) ----------
        jx = [b'{"rb:top":{"@":{"yang:operation":"x"},"name":"n","@name":{"ietf-yang-metadata:x":"1","rb:nometa":1},"any":{"rb:top":{"name":"q"},"u:v":{"@w":{"m:a":1}}},'
              b'"axml":{"k":{"@":{"p:q":"r"}}},"item":[{"id":1,"@id":{"yang:operation":"y"}}],"tag":["a"],"@tag":[{"yang:insert":"first"}]},"none:u":{"@":{"n:m":"1"},"none:w":[1]}}']
        for tx in JSON_SEEDS + jx:
            for m in json_name_escapes(tx):
                for po in (PARSE_STRICT, PARSE_OPAQ):
                    A(out, "json-esc", L("data", "j", po, VAL_PRESENT, hexs(m)))
        jo = [(ty, tx) for f, ty, tx in OP_SEEDS if f == "j"] + [
            ("rc-rpc", b'{"rb:input":{"rb:a":"x","@a":{"yang:operation":"x"}}}'), ("rc-rpc", b'{"input":{}}'), ("rc-rpc", b'{"nomod:input":{"a":"x"}}'),
            ("rc-rpc", b'{"rb:inputs":{"a":"x"}}'), ("rc-rpc", b'{"rb:input":5}'), ("rc-rpc", b'{"@rb:input":{}}'),
            ("rc-reply", b'{"rb:output":{"rb:r":"x"}}'), ("rc-reply", b'{"rb:out":{"r":"x"}}'), ("rc-reply", b'{"rb:output":[]}'),
            ("rc-notif", b'{"ietf-restconf:notification":{"ietf-restconf:eventTime":"2020-01-01T00:00:00Z","rb:top":{"item":[{"id":1,"changed":{"what":"w"}}]}}}'),
            ("rc-notif", b'{"ietf-restconf:notification":{"rb:ev":{"sev":"low"}}}'), ("rc-notif", b'{"restconf:notification":{}}'),
            ("rc-notif", b'{"ietf-restconf:notification":null}'), ("rc-notif", b'{"notification":{"eventTime":"2020-01-01T00:00:00Z"}}')]
        for ty, tx in jo:
            A(out, "json-esc", L("op", "j", ty, hexs(tx)))
            for m in json_name_escapes(tx):
                A(out, "json-esc", L("op", "j", ty, hexs(m)))
        # ---------- a NEWER revision of a loaded module that is rejected after the revision comparison (namespace of another loaded
        # module with the same revision): the latest-revision flags / lookups of the context must be what they were ----------
        for ns, rev in ((b"urn:ietf:params:xml:ns:yang:ietf-yang-types", b"2013-07-15"), (b"urn:ietf:params:xml:ns:yang:ietf-inet-types", b"2013-07-15"),
                        (b"urn:ietf:params:xml:ns:yang:ietf-yang-metadata", b"2016-08-05"), (b"urn:ietf:params:xml:ns:yang:ietf-datastores", b"2018-02-14"),
                        (b"urn:ietf:params:xml:ns:yang:ietf-yang-library", b"2019-01-04")):
            for nm in (b"rb", b"ietf-yang-metadata", b"ietf-inet-types"):
                for rv in (rev,):
                    y = b"module " + nm + b" {namespace \"" + ns + b"\"; prefix p; revision " + rv + b";}"
                    A(out, "latest-flag", L("yang", hexs(y)))
                    A(out, "latest-flag", L("yin", hexs(b'<module name="' + nm + b'" xmlns="urn:ietf:params:xml:ns:yang:yin:1"><namespace uri="' + ns +
                                                         b'"/><prefix value="p"/><revision date="' + rv + b'"/></module>')))
        # ---------- failing XPath / path calls of every kind: the next unrelated error must not carry anything of them ----------
        badxp = [b"re-match(/rb:top/rb:name, '(x[0-9]')", b"/rb:top/rb:tag[re-match(., '[a')]", b"re-match(., '\\p{IsNope}')", b"/rb:top/rb:item[re-match(rb:val, ')')]/rb:id",
                 b"nofunc(1)", b"count()", b"count(1, 2)", b"/nope:top", b"/rb:top/rb:item[nope:id=1]", b"deref(1)", b"derived-from(/rb:types/rb:idref, 'nope:x')",
                 b"bit-is-set(/rb:types/rb:bits, 1)", b"enum-value(1)", b"substring('a')", b"translate('a', 'b')", b"/rb:top/rb:item[", b"$nope", b"string(/rb:top/rb:name) +",
                 b"/rb:top/rb:item[position() = 'a' + ]", b"current(1)", b"id()", b"lang()", b"1 div", b"//", b"@", b"/rb:top/rb:item/rb:reset/rb:delay[re-match(., '(')]"]
        for x in badxp:
            for e in ("xfind", "xeval", "sxfind"):
                A(out, "bad-xpath", L(e, hexs(x)))
            A(out, "bad-xpath", L("fpath", hexs(x)))
            A(out, "bad-xpath", L("value", "xp", hexs(x)))
            A(out, "bad-xpath-must", L("yang", hexs(b"module bx {namespace urn:bx; prefix bx; import rb {prefix rb;} leaf l {type string; must " + yang_dq(x) + b";}}")))

        # ---------- truncation at every position of small seeds ----------
        small = [("yang", YANG_SEEDS[1]), ("yin", YIN_SEEDS[0][:700]), ("x", XML_SEEDS[0][:300]), ("x", XML_SEEDS[2]), ("j", JSON_SEEDS[1]),
                 ("xp", XPATH_SEEDS[2]), ("xp", XPATH_SEEDS[7]), ("path", PATH_SEEDS[2])]
        step = 1 if tier == "thorough" else 3
        for kind, tx in small:
            for i in range(0, len(tx) + 1, step):
                t = tx[:i]
                if kind in ("yang", "yin"):
                    A(out, "truncate", L(kind, hexs(t)))
                elif kind in ("x", "j"):
                    A(out, "truncate", L("data", kind, rng.choice(POPTS), rng.choice(VOPTS), hexs(t)))
                    if step > 1 and i + 1 <= len(tx):
                        # the data documents are cut at EVERY position in the quick tier too (look-ahead past the NUL)
                        A(out, "truncate", L("data", kind, rng.choice(POPTS), rng.choice(VOPTS), hexs(tx[:i + 1])))
                        A(out, "truncate", L("data", kind, rng.choice(POPTS), rng.choice(VOPTS), hexs(tx[:i + 2])))
                elif kind == "xp":
                    A(out, "truncate", L(rng.choice(["xfind", "xeval", "sxfind"]), hexs(t)))
                else:
                    A(out, "truncate", L(rng.choice(["fpath", "npath\t" + hexs(b"1")]), hexs(t)))
        for f, ty, tx in OP_SEEDS:
            for i in range(0, len(tx) + 1, step * 2):
                A(out, "truncate", L("op", f, ty, hexs(tx[:i])))

        # ---------- mutation streams ----------
        N = lambda q, t: self.n(tier, q, t, scale)     # noqa: E731
        small_yang = [tx for tx in ypool if len(tx) < 12000]
        for _ in range(N(700, 30000)):
            seed = rng.choice(small_yang if rng.random() < 0.85 else ypool)
            lab, m = mutate(rng, seed, ypool)
            if rng.random() < 0.3:
                lab2, m = mutate(rng, m, ypool)
                lab += "+" + lab2
            A(out, "yang:" + lab, L("yang", hexs(m)))
        for _ in range(N(350, 15000)):
            lab, m = mutate(rng, rng.choice(yin), yin)
            A(out, "yin:" + lab, L("yin", hexs(m)))
        for _ in range(N(700, 30000)):
            lab, m = mutate(rng, rng.choice(XML_SEEDS), XML_SEEDS)
            if rng.random() < 0.3:
                lab2, m = mutate(rng, m, XML_SEEDS)
                lab += "+" + lab2
            A(out, "xml:" + lab, L("data", "x", rng.choice(POPTS), rng.choice(VOPTS), hexs(m)))
        for _ in range(N(700, 30000)):
            lab, m = mutate(rng, rng.choice(JSON_SEEDS), JSON_SEEDS)
            if rng.random() < 0.3:
                lab2, m = mutate(rng, m, JSON_SEEDS)
                lab += "+" + lab2
            A(out, "json:" + lab, L("data", "j", rng.choice(POPTS), rng.choice(VOPTS), hexs(m)))
        for _ in range(N(600, 25000)):
            f, ty, tx = rng.choice(OP_SEEDS)
            pool = [s for ff, _, s in OP_SEEDS if ff == f]
            lab, m = mutate(rng, tx, pool)
            if rng.random() < 0.1:
                ty = rng.choice([t for ff, t, _ in OP_SEEDS if ff == f])     # a message of another kind
                lab += "+type"
            A(out, "op:" + lab, L("op", f, ty, hexs(m)))
        for _ in range(N(700, 30000)):
            lab, m = mutate(rng, rng.choice(XPATH_SEEDS), XPATH_SEEDS)
            A(out, "xpath:" + lab, L(rng.choice(["xfind", "xeval", "sxfind"]), hexs(m)))
        for _ in range(N(300, 12000)):
            lab, m = mutate(rng, rng.choice(PATH_SEEDS), PATH_SEEDS + XPATH_SEEDS[:4])
            e = rng.choice(["fpath", "npath", "npathp"])
            if e == "fpath":
                A(out, "path:" + lab, L(e, hexs(m)))
            else:
                A(out, "path:" + lab, L(e, rng.choice(["~", hexs(b"1"), hexs(b"abc"), hexs(b"true"), "-", hexs(rng.choice(BAD_BYTES))]), hexs(m)))
        leaves = sorted(VALUE_SEEDS)
        allvals = [v for vs in VALUE_SEEDS.values() for v in vs]
        for _ in range(N(900, 40000)):
            leaf = rng.choice(leaves)
            seed = rng.choice(VALUE_SEEDS[leaf]) if rng.random() < 0.8 else rng.choice(allvals)
            if rng.random() < 0.15:
                lab, m = "other-type", seed
            else:
                lab, m = mutate(rng, seed or b"a", allvals)
            A(out, "value:" + lab, L("value", leaf, hexs(m)))
        pats = [p for p, _ in PATTERN_SEEDS]
        for _ in range(N(500, 20000)):
            p, s = rng.choice(PATTERN_SEEDS)
            lab, m = mutate(rng, p, pats)
            if 0 in m or (tier != "thorough" and len(m) > 300):
                # (a||...|b)* with hundreds of empty alternatives takes seconds in PCRE2 (known finding timeout:pattern:pattern)
                continue
            if rng.random() < 0.6:
                A(out, "pattern:" + lab, L("pattern", hexs(m), hexs(s if rng.random() < 0.7 else mutate(rng, s or b"a", pats)[1])))
            else:
                A(out, "modpattern:" + lab, L("yang", hexs(b"module p {namespace urn:p; prefix p; leaf l {type string {pattern " + yang_dq(m) +
                                                          b";} default " + yang_dq(s) + b";}}")))
        for _ in range(N(150, 6000)):
            lab, m = mutate(rng, rng.choice(IFF_SEEDS), IFF_SEEDS)
            A(out, "iffeature:" + lab, L("yang", hexs(b"module f {yang-version 1.1; namespace urn:f; prefix f; feature f1; feature f2; feature f3 {if-feature "
                                                      + yang_dq(m) + b";} leaf l {if-feature " + yang_dq(m) + b"; type string;}}")))
        # ---------- generated modules + instances in a private context ----------
        for _ in range(N(120, 3000)):
            g = yanggen.SchemaGen(rng, adversarial=rng.random() < 0.5)
            m = g.module()
            ig = yanggen.InstGen(rng, meta_prob=0.05)
            f = ig.forest(m)
            mod = m.yang().encode() if isinstance(m.yang(), str) else m.yang()
            if b"\r" in mod:
                continue          # a lone CR inside a YANG string is refused by the parser: not a valid seed
            if rng.random() < 0.5:
                doc = yanggen.to_xml(f)
                doc = doc.encode() if isinstance(doc, str) else doc
                fm, pool = "x", XML_SEEDS + [doc]
            else:
                doc = yanggen.to_json(f)
                doc = doc.encode() if isinstance(doc, str) else doc
                fm, pool = "j", JSON_SEEDS + [doc]
            A(out, "gen-seed", L("data", fm, PARSE_STRICT, VAL_PRESENT, hexs(doc), "M:" + hexs(mod)))
            for _k in range(3):
                lab, mm = mutate(rng, doc, pool)
                A(out, "gen-%s:%s" % (fm, lab), L("data", fm, rng.choice(POPTS), rng.choice(VOPTS), hexs(mm), "M:" + hexs(mod)))
            lab, mm = mutate(rng, mod, ypool)
            A(out, "gen-yang:" + lab, L("yang", hexs(mm)))
        # ---------- deep nesting / huge repetition ----------
        self.deep(out, tier)
        rng.shuffle(out)
        return out

    # ---------------------------------------------------------------------------------------------------------------
    def classify(self, line, out, err, second=False):
        """narrow tag for a failure: sanitizer kind + first libyang function, or post-condition + entry point"""
        f = line.split("\t")
        entry = f[1] if len(f) > 1 else "?"
        label = self.labels.get(line, "")
        shape = label.split("/")[0] if label.startswith(("deep-", "long-")) else ""
        frames = re.findall(r"#\d+ 0x[0-9a-f]+ in (\S+) (\S+?):\d+", err or "")
        lib = [fn for fn, path in frames if "/src/" in path and "/impl/" not in path]
        if "lydxml_envelope" in lib[:6] and "lyd_free_tree" in lib[:5]:
            return "uninit:lydxml_envelope"
        m = re.search(r"runtime error: (.*)", err or "")
        if m:
            msg = m.group(1)
            kind = ("float-cast" if "outside the range of representable values" in msg else
                    "signed-overflow" if "signed integer overflow" in msg else
                    "shift" if "shift" in msg else "null-pointer" if "null pointer" in msg else
                    "misaligned" if "misaligned" in msg else "index" if "out of bounds" in msg else re.sub(r"[^a-z]+", "-", msg.lower())[:30])
            return "ubsan:%s:%s" % (kind, lib[0] if lib else "?")
        m = re.search(r"ERROR: AddressSanitizer: ([\w-]+)", err or "")
        if m:
            kind = m.group(1)
            if kind == "stack-overflow":
                top = max(set(lib), key=lib.count) if lib else "?"
                return "stack-overflow:%s:%s" % (shape or entry, top)
            return "asan:%s:%s" % (kind, lib[0] if lib else "?")
        if "LeakSanitizer" in (err or "") or "memory leak after case" in (err or ""):
            alloc = [fn for fn in lib if fn not in ("malloc", "calloc", "realloc", "strdup", "strndup")]
            return "leak:%s" % (alloc[0] if alloc else "?")
        if out.startswith("TIMEOUT") or out == "CRASH(3)":
            # exit status 3 is the CPU-limit handler of the driver
            return "timeout:%s:%s" % (entry, shape or label.split(":")[0])
        if out.startswith("CRASH"):
            if "Assertion" in (err or ""):
                # gcc prints the function name, clang its whole signature
                am = re.search(r"\w+\.c:\d+: (.*?): Assertion `(.*?)'", err)
                fn = "?"
                if am:
                    sig = am.group(1)
                    fm = re.search(r"(\w+)\s*\(", sig)
                    fn = fm.group(1) if fm else sig.split()[-1]
                    # two assertions of one function are two findings: a slug of the expression tells them apart
                    fn += ":" + re.sub(r"[^A-Za-z0-9_]+", "-", am.group(2)).strip("-")[:60]
                # an assertion reached through the tree-building API is another defect than the same one reached by a parser
                return "assert:%s%s" % (fn, ":api" if entry == "api" else "")
            # release build: no report; a deep / long input that kills the process is taken for the stack overflow
            return "stack-overflow:%s:?" % shape if shape else "crash:%s" % entry
        m = re.search(r"!leak\(([^)]*)\)", out)
        others = [w for w in re.findall(r"!([a-z-]+)", out) if w not in ("dict-strings-left", "ctx-destroy-not-freed", "leak")]
        if m and not others:
            fr = m.group(1).split(",")
            # generic constructors are named by the first caller that belongs to a parser / compiler
            generic = ("lyd_create_", "lyd_parser_create_", "lydjson_create_", "dict_insert", "lydict_insert", "ly_set_", "lyd_new_", "lyd_dup")
            for fn in fr:
                if not fn.startswith(generic) and fn != "?":
                    return "leak:%s" % fn
            return "leak:%s" % (fr[0] if fr[0] != "?" else "?:" + entry)
        bang = re.findall(r"!([a-z-]+)", out)
        # several post-conditions can fail at once: the tag names the most specific one (what is left in the dictionary is the
        # least specific: it accompanies most other failures)
        first = bang[0] if bang else "?"
        for w in bang:
            if w not in ("dict-strings-left", "ctx-destroy-not-freed", "leak"):
                first = w
                break
        what = entry
        if first == "log-location-left":
            # which stack was left non-empty names the call site family (schema node: path predicates; path: schema parsers)
            lm = re.search(r"!log-location-left\(schema=(\d+),data=(\d+),path=(\d+),input=(\d+)\)", out)
            what = "+".join(n for n, v in zip(("schema", "data", "path", "input"), lm.groups()) if v != "0") if lm else entry
        elif first == "no-error-record":
            rcm = re.search(r"rc=(\d+)", out)
            xmlish = entry in ("yin",) or (entry in ("data", "op") and len(f) > 2 and f[2] == "x")
            what = "%s-rc%s" % ("xml" if xmlish else ("json" if entry in ("data", "op") else entry), rcm.group(1) if rcm else "?")
        elif entry == "data" and len(f) > 5:
            # the error paths of the two data parsers differ with the format and with multi-error validation
            what = "data-%s%s" % ("xml" if f[2] == "x" else "json", "-multi" if (int(f[4], 0) & VAL_MULTI) else "")
        elif entry == "op" and len(f) > 4:
            what = "op-%s-%s" % (f[2], f[3])
        if first == "dict-strings-left":
            # what is left in the dictionary is told apart by the error path: class of the error message
            em = re.search(r" ec=([a-z-]*)", out)
            what += ":" + (em.group(1)[:40] if em else "-")
            if entry in ("yang", "yin") and "6d6f756e742d706f696e74" in f[-1]:
                # the instance of the extension mount-point is what is left, whatever error ended the compilation
                what = entry + ":ext-mount-point"
        return "post:%s:%s" % (first, what)

    def asan_tag(self, line, confirm_timeout=False):
        """second opinion for a failure the release build cannot name (signal without report, strings left in the
        dictionary): the same case alone on the ASan+UBSan build; returns the tag derived from its report, or None"""
        if line in self.second:
            return self.second[line]
        tag = None
        if len(self.second) < (2000 if getattr(self, "tier", "quick") == "thorough" else 80):
            try:
                exe = vlib.build_driver("t_robust", "asan")
                env = dict(os.environ)
                env["ASAN_OPTIONS"] = "detect_leaks=1:abort_on_error=1:allocator_may_return_null=1"
                env["UBSAN_OPTIONS"] = "halt_on_error=1:abort_on_error=1:print_stacktrace=1"
                p = subprocess.run([exe], input=(line + "\n").encode(), stdout=subprocess.PIPE, stderr=subprocess.PIPE, env=env, timeout=120)
                so = p.stdout.decode("latin-1")
                o2 = so.strip() if so.endswith("\n") and so.strip() else "CRASH(%d)" % p.returncode
                t2 = self.classify(line, o2, p.stderr.decode("latin-1"), second=True)
                if confirm_timeout:
                    ok = p.returncode == 0 and not o2.startswith(("TIMEOUT", "CRASH"))
                    self.second[line] = "not-reproduced" if ok else None
                    return self.second[line]
                if t2 and t2.split(":")[0] in ("asan", "ubsan", "leak", "uninit", "assert", "stack-overflow"):
                    tag = t2
            except (OSError, subprocess.SubprocessError, vlib.BuildError):
                tag = None
        self.second[line] = tag
        return tag

    def judge(self, line, out):
        err = getattr(self, "last_err", "")
        if out.startswith("CRASH") or out.startswith("TIMEOUT") or "!" in out or out == "" or out.startswith("?"):
            tag = self.classify(line, out, err)
            if tag.startswith("crash:") or tag.startswith("post:dict-strings-left:"):
                tag = self.asan_tag(line) or tag
            elif tag.startswith("timeout:"):
                # the CPU limit of a case is confirmed by running it alone (on the slower ASan build): a limit that was hit
                # only inside a long shard (machine under memory pressure: reclaim time is charged to the process) and not
                # by the input itself is not attributed to the input
                t2 = self.asan_tag(line, confirm_timeout=True)
                if t2 == "not-reproduced":
                    self.unconfirmed = getattr(self, "unconfirmed", 0) + 1
                    return None
            # a stack overflow found on the release build carries no function name: match it with the listed finding of
            # the same input shape
            if tag.endswith(":?") and tag.startswith("stack-overflow:"):
                for k in vlib.load_known():
                    if k.get("tag", "").startswith(tag[:-1]):
                        tag = k["tag"]
                        break
            return (tag, "%s | %s | %s" % (self.labels.get(line, ""), out[:300], (err or "")[:1500]))
        lab = self.labels.get(line, "")
        if lab.startswith("seed-") and lab not in ("seed-path", "seed-value", "seed-xpath", "seed-pattern", "seed-modpattern", "seed-xml", "seed-json") \
                and " rc=0 " not in out and not lab.startswith("seed-yang:"):
            # a valid seed must be accepted, otherwise the mutation stream starts from garbage (a defect of this oracle)
            return (None, "valid seed rejected: %s | %s" % (lab, out[:200]))
        return None
