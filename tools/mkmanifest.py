#!/usr/bin/env python3
"""mkmanifest.py - (re)writes MANIFEST.json from tools/props/*.py metadata (MANIFEST dict in each module)."""
import importlib
import json
import os
import sys

sys.path.insert(0, os.path.dirname(os.path.abspath(__file__)))
V = os.path.dirname(os.path.dirname(os.path.abspath(__file__)))

ALL = ["C%02d" % i for i in range(1, 20)]


def main():
    checks = []
    na = []
    ready = set(open(os.path.join(V, "tools", "props", "READY")).read().split())
    for pid in ALL:
        if pid not in ready:
            na.append({"property_id": pid, "reason": "the check for this property is still under construction (its slice is not "
                                                     "finished and validated on the unchanged tree yet; design: DESIGN.md "
                                                     "section 4, %s); machine-checked proof is applicable to it" % pid})
            continue
        m = importlib.import_module("props." + pid)
        md = m.MANIFEST
        checks.append({
            "property_id": pid,
            "quick_cmd": "python3 tools/check.py %s --tier quick" % pid,
            "thorough_cmd": "python3 tools/check.py %s --tier thorough" % pid,
            "evidence_file": "evidence/%s.json" % pid,
            "replay_cmd_template": "python3 tools/check.py %s --replay {path}" % pid,
            "engine": "coq-model+correspondence",
            "level_claimed": {"category": md.get("category", "proof") if md.get("category", "proof") in
                              ("exploration", "fault_enumeration", "model_checking", "proof", "translation_validation", "other")
                              else "proof", "text": md["text"], "design_ref": md.get("design_ref", "DESIGN.md section 4 " + pid)},
            "level_note": md["note"],
            "technique": md["technique"],
        })
    man = {
        "version": 1,
        "setup_cmd": "make setup",
        "hooks": {
            "guard": "CESNET_LIBYANG_VERIF",
            "enable": "every verification build passes -DCESNET_LIBYANG_VERIF in CMAKE_C_FLAGS (tools/vlib.py build_lib); white-box access to static functions is by #include of the repo .c file from /verif/impl drivers, so no source hook is required",
            "baseline_off_cmd": "cmake --build /repo/_build && ctest --test-dir /repo/_build -j8 --timeout 900",
            "source_commits": [],
            "add_only": True,
        },
        "engines": [{"name": "coq-model+correspondence", "path": "tools/check.py",
                     "serves_properties": [c["property_id"] for c in checks],
                     "kind_free_text": "Coq 8.16 theorems about executable Gallina models (coq/), model tied to /repo on every run by regenerated constants/tables (tools/gen_consts.py) and by differential correspondence of the extracted OCaml model against white-box C drivers built from the working tree (impl/, ocaml/); property-level oracles on the implementation search for concrete failing inputs"}],
        "checks": checks,
        "not_applicable": na,
        "notes": "See DESIGN.md. Checks rebuild static libyang (and drivers) from /repo's working tree, cached by content hash under ${VERIF_BUILD_ROOT:-/var/tmp/verif-build}.",
    }
    json.dump(man, open(os.path.join(V, "MANIFEST.json"), "w"), indent=1)
    print("checks:", [c["property_id"] for c in checks], "n/a:", [n["property_id"] for n in na])


if __name__ == "__main__":
    main()
