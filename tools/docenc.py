"""docenc.py - side tables of the document-level models (coq/XmlDoc.v, coq/JsonDoc.v; slice `doc`).

  mods_table(module)   -> 'id,name,prefix,namespace;...'  (one entry per module that owns data nodes or annotations)
  jkinds(module)       -> 'sid=s|n|b|e;...'  JSON value class of every leaf / leaf-list (RFC 7951 section 6):
                          s string (string, enumeration, bits, int64, uint64, decimal64), n number (other integers),
                          b boolean literal, e empty ([null])
  supported(module)    -> treeenc.supported and no type whose printed form the models do not implement (union: the JSON
                          form depends on the member the value was stored with)

sids are those of tools/treeenc.py (lys_getnext DFS order)."""
import treeenc
import yanggen


def jkind(t):
    if isinstance(t, yanggen.TInt):
        return "s" if t.name in ("int64", "uint64") else "n"
    if isinstance(t, yanggen.TBool):
        return "b"
    if isinstance(t, yanggen.TEmpty):
        return "e"
    if isinstance(t, yanggen.TUnion):
        return None
    return "s"


def mods_table(module, extra=()):
    """extra: (name, prefix, namespace) of further modules that only contribute annotations"""
    rows = ["0,%s,%s,%s" % (module.name, module.prefix, module.ns)]
    for k, (nm, pf, ns) in enumerate(extra):
        rows.append("%d,%s,%s,%s" % (k + 1, nm, pf, ns))
    return ";".join(rows)


def jkinds(module):
    enc = treeenc._Enc(module)
    out = []
    for sid, n, parent, cfg, chain in enc.entries:
        if n.kind in ("leaf", "leaf-list"):
            out.append("%d=%s" % (sid, jkind(n.type) or "s"))
    return ";".join(out)


def supported(module):
    if not treeenc.supported(module):
        return False
    enc = treeenc._Enc(module)
    for sid, n, parent, cfg, chain in enc.entries:
        if n.kind in ("leaf", "leaf-list") and jkind(n.type) is None:
            return False
    return True
