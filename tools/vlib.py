#!/usr/bin/env python3
"""vlib.py - shared machinery of the libyang verification checks.

  * builds a static libyang (and white-box drivers from /verif/impl) from /repo's CURRENT working
    tree, cached by a content hash of the tree,
  * regenerates coq/Gen/Consts.v from the tree (tie T1) and re-checks the Coq development,
  * runs the extracted model (ocaml/modelrun) and the implementation drivers on the same case
    files and diffs the answers (tie T2),
  * turns broken obligations / disagreements / failing oracles into VIOLATION lines with replay
    files, honours /verif/known_findings.json, and writes evidence/<id>.json.
"""
import fcntl
import hashlib
import json
import os
import random
import re
import shutil
import signal
import subprocess
import sys
import time
from concurrent.futures import ThreadPoolExecutor

VERIF = os.path.dirname(os.path.dirname(os.path.abspath(__file__)))
REPO = os.environ.get("VERIF_REPO", "/repo")
BUILD_ROOT = os.environ.get("VERIF_BUILD_ROOT", "/var/tmp/verif-build")
GUARD = "CESNET_LIBYANG_VERIF"
NCPU = os.cpu_count() or 4
COQ = os.path.join(VERIF, "coq")
OCAML = os.path.join(VERIF, "ocaml")
IMPL = os.path.join(VERIF, "impl")


def log(*a):
    print(*a, file=sys.stderr, flush=True)


def sh(cmd, cwd=None, timeout=None, env=None, check=False, stdin=None):
    p = subprocess.run(cmd, cwd=cwd, shell=isinstance(cmd, str), stdout=subprocess.PIPE,
                       stderr=subprocess.STDOUT, timeout=timeout, env=env, input=stdin)
    out = p.stdout.decode("utf-8", "replace")
    if check and p.returncode != 0:
        raise RuntimeError("command failed (%d): %s\n%s" % (p.returncode, cmd, out[-4000:]))
    return p.returncode, out


class Lock:
    def __init__(self, name):
        os.makedirs(BUILD_ROOT, exist_ok=True)
        self.path = os.path.join(BUILD_ROOT, name + ".lock")

    def __enter__(self):
        self.f = open(self.path, "w")
        fcntl.flock(self.f, fcntl.LOCK_EX)
        return self

    def __exit__(self, *a):
        fcntl.flock(self.f, fcntl.LOCK_UN)
        self.f.close()


# --------------------------------------------------------------------------------------------
# /repo content hash and builds
# --------------------------------------------------------------------------------------------
_HASH_DIRS = ["src", "compat", "tools", "models", "CMakeModules"]
_HASH_FILES = ["CMakeLists.txt"]
_repo_hash = None


def repo_hash():
    global _repo_hash
    if _repo_hash:
        return _repo_hash
    h = hashlib.sha1()
    files = []
    for d in _HASH_DIRS:
        for root, dirs, fs in os.walk(os.path.join(REPO, d)):
            dirs.sort()
            for f in sorted(fs):
                files.append(os.path.join(root, f))
    for f in _HASH_FILES:
        files.append(os.path.join(REPO, f))
    for f in files:
        try:
            with open(f, "rb") as fh:
                data = fh.read()
        except OSError:
            continue
        h.update(os.path.relpath(f, REPO).encode())
        h.update(b"\0")
        h.update(hashlib.sha1(data).digest())
    _repo_hash = h.hexdigest()[:16]
    return _repo_hash


KIND_FLAGS = {
    # asserts stay enabled in every verification build
    "rel": ("cc", "-O1 -g -D%s" % GUARD, ""),
    "asan": ("clang", "-O1 -g -fno-omit-frame-pointer -fsanitize=address,undefined "
             "-fno-sanitize-recover=undefined -D%s" % GUARD, "-fsanitize=address,undefined"),
    "tsan": ("clang", "-O1 -g -fsanitize=thread -D%s" % GUARD, "-fsanitize=thread"),
}


def build_dir(kind="rel"):
    return os.path.join(BUILD_ROOT, repo_hash(), kind)


def build_lib(kind="rel"):
    """Build static libyang from /repo's working tree; returns the build dir."""
    bd = build_dir(kind)
    stamp = os.path.join(bd, ".ok")
    if os.path.exists(stamp):
        return bd
    with Lock("build-" + kind):
        if os.path.exists(stamp):
            return bd
        # drop builds of older tree states (disk): keep the few most recently used ones, because several checks may run
        # at the same time against different trees (VERIF_REPO worktrees); never drop one used in the last 30 minutes
        root = BUILD_ROOT
        olds = []
        for d in os.listdir(root):
            p = os.path.join(root, d)
            if os.path.isdir(p) and d != repo_hash() and re.fullmatch(r"[0-9a-f]{16}", d):
                try:
                    olds.append((max(os.path.getmtime(p), max([os.path.getmtime(os.path.join(p, x)) for x in os.listdir(p)] or [0])), p))
                except OSError:
                    pass
        olds.sort(reverse=True)
        for mt, p in olds[int(os.environ.get("VERIF_KEEP_BUILDS", "5")):]:
            if time.time() - mt > 1800:
                shutil.rmtree(p, ignore_errors=True)
        shutil.rmtree(bd, ignore_errors=True)
        os.makedirs(bd)
        cc, cflags, _ = KIND_FLAGS[kind]
        t0 = time.time()
        rc, out = sh(["cmake", "-G", "Ninja", "-S", REPO, "-B", bd, "-DCMAKE_BUILD_TYPE=RelWithDebug",
                      "-DBUILD_SHARED_LIBS=OFF", "-DENABLE_TESTS=OFF", "-DENABLE_TOOLS=ON",
                      "-DENABLE_YANGLINT_INTERACTIVE=OFF", "-DCMAKE_C_COMPILER=" + cc,
                      "-DCMAKE_C_FLAGS=" + cflags], timeout=600)
        if rc == 0:
            rc, out2 = sh(["cmake", "--build", bd, "-j", str(NCPU)], timeout=1800)
            out += out2
        if rc != 0:
            with open(os.path.join(bd, "build.log"), "w") as f:
                f.write(out)
            raise BuildError("libyang build (%s) failed:\n%s" % (kind, out[-3000:]))
        open(stamp, "w").write("%.1f\n" % (time.time() - t0))
        log("[build] libyang %s built in %.1fs -> %s" % (kind, time.time() - t0, bd))
    return bd


class BuildError(Exception):
    pass


def build_driver(name, kind="rel", extra=""):
    """Compile impl/<name>.c against the static libyang of the current tree."""
    bd = build_lib(kind)
    src = os.path.join(IMPL, name + ".c")
    deps = [src, os.path.join(IMPL, "common.h")]
    for extra_h in ("lyx.h",):
        p = os.path.join(IMPL, extra_h)
        if os.path.exists(p):
            deps.append(p)
    h = hashlib.sha1()
    for d in deps:
        h.update(open(d, "rb").read())
    tag = h.hexdigest()[:12]
    outdir = os.path.join(bd, "drv")
    exe = os.path.join(outdir, "%s-%s" % (name, tag))
    if os.path.exists(exe):
        return exe
    with Lock("drv-%s-%s" % (kind, name)):
        if os.path.exists(exe):
            return exe
        os.makedirs(outdir, exist_ok=True)
        cc, cflags, ldflags = KIND_FLAGS[kind]
        # a driver may ask for extra compiler/linker flags with a line  "VERIF_FLAGS: <flags>"  in its source
        m = re.search(r"VERIF_FLAGS:\s*(.*?)\s*(\*/)?\s*$", open(src).read(), re.M)
        if m:
            extra = (extra + " " + m.group(1)).strip()
        cmd = ("%s %s -std=gnu11 -w -DSTATIC -I%s/libyang -I%s/src -I%s/src/plugins_exts -I%s/compat -I%s -I%s "
               "%s -o %s.tmp %s %s/libyang.a -lm -lpcre2-8 -lpthread -ldl %s %s"
               % (cc, cflags, bd, REPO, REPO, bd, bd, IMPL, extra, exe, src, bd, ldflags, ""))
        rc, out = sh(cmd, timeout=600)
        if rc != 0:
            raise BuildError("driver %s (%s) failed to build:\n%s" % (name, kind, out[-3000:]))
        os.rename(exe + ".tmp", exe)
    return exe


# --------------------------------------------------------------------------------------------
# Coq side
# --------------------------------------------------------------------------------------------
def gen_consts():
    """T1: regenerate coq/Gen/Consts.v from /repo (only rewritten when the content changes)."""
    rc, out = sh([sys.executable, os.path.join(VERIF, "tools", "gen_consts.py")], timeout=300)
    if rc != 0:
        raise BuildError("gen_consts failed:\n" + out[-3000:])
    return out


def coq_make(targets=None, timeout=6000):
    """(Re)build the Coq development; returns (ok, output)."""
    with Lock("coq"):
        write_coqproject()
        if not os.path.exists(os.path.join(COQ, "Makefile")) or \
                os.path.getmtime(os.path.join(COQ, "Makefile")) < os.path.getmtime(os.path.join(COQ, "_CoqProject")):
            sh("coq_makefile -f _CoqProject -o Makefile", cwd=COQ, check=True)
        # every coqc call gets a time limit and an address-space limit so that one runaway proof cannot stall a check
        cmd = "ulimit -v 12000000; make -k -j %d COQC='timeout 1800 coqc' %s" % (NCPU, " ".join(targets or []))
        rc, out = sh(cmd, cwd=COQ, timeout=timeout)
        return rc == 0, out


def slices():
    return sorted(os.path.basename(p)[len("Extract_"):-2] for p in
                  __import__("glob").glob(os.path.join(COQ, "Extract_*.v")))


def build_model(slice_):
    """Build ocaml/modelrun_<slice> from coq/model_<slice>.ml (written by Extract_<slice>.v),
    ocaml/helpers.ml and ocaml/run_<slice>.ml (concatenated into one compilation unit)."""
    with Lock("ocaml-" + slice_):
        src = os.path.join(COQ, "model_%s.ml" % slice_)
        if not os.path.exists(src):
            raise BuildError("extraction did not produce model_%s.ml" % slice_)
        runf = os.path.join(OCAML, "run_%s.ml" % slice_)
        # a run file may ask for shared OCaml files (placed after helpers.ml) with a first-line comment
        #   (* VERIF_USES: tree_io.ml other.ml *)
        with open(runf) as fh:
            m = re.match(r"\s*\(\*\s*VERIF_USES:\s*([^*]*?)\s*\*\)", fh.readline())
        uses = [os.path.join(OCAML, u) for u in m.group(1).split()] if m else []
        parts = [src, os.path.join(OCAML, "helpers.ml")] + uses + [runf]
        txt = "\n".join(open(p).read() for p in parts)
        bdir = os.path.join(OCAML, "_b_" + slice_)
        os.makedirs(bdir, exist_ok=True)
        allml = os.path.join(bdir, "all.ml")
        exe = os.path.join(OCAML, "modelrun_" + slice_)
        if os.path.exists(exe) and os.path.exists(allml) and open(allml).read() == txt:
            return exe
        open(allml, "w").write(txt)
        rc, out = sh("ocamlfind ocamlopt -w -a -inline 100 all.ml -o ../modelrun_%s" % slice_, cwd=bdir, timeout=900)
        if rc != 0:
            os.unlink(allml)
            raise BuildError("modelrun_%s build failed:\n%s" % (slice_, out[-3000:]))
        return exe


def write_coqproject():
    files = []
    for root, dirs, fs in os.walk(COQ):
        dirs.sort()
        for f in sorted(fs):
            # scratch files of work in progress (X_t.v, X_tmp.v, tmp*.v, ...) are not part of the development
            if f.endswith(".v") and not re.search(r"(^tmp|^scratch|_t\d*\.v$|_tmp\d*\.v$|_dbg\d*\.v$|_scratch\d*\.v$|_test\d*\.v$)", f):
                files.append(os.path.relpath(os.path.join(root, f), COQ))
    if "Gen/Consts.v" not in files:
        files.append("Gen/Consts.v")
    txt = "-Q . LY\n" + "\n".join(sorted(files)) + "\n"
    p = os.path.join(COQ, "_CoqProject")
    if not os.path.exists(p) or open(p).read() != txt:
        open(p, "w").write(txt)


FORBIDDEN = re.compile(r"\b(Admitted|admit|Axiom|Axioms|Parameter|Parameters|Conjecture|Conjectures|"
                       r"Unset\s+Guard|bypass_check|Admit\s+Obligations|Hypothesis|Hypotheses|Variable|Variables)\b")


def dep_closure(files):
    """the .v files (relative to coq/) that the given ones depend on through  From LY Require Import/Export  lines,
    themselves included"""
    todo = list(files)
    seen = []
    while todo:
        f = todo.pop()
        if f in seen or not os.path.exists(os.path.join(COQ, f)):
            continue
        seen.append(f)
        txt = open(os.path.join(COQ, f)).read()
        txt = re.sub(r"\(\*.*?\*\)", " ", txt, flags=re.S)
        for m in re.finditer(r"From\s+LY\s+Require\s+(?:Import|Export)?\s*([^.]*(?:\.[A-Za-z_][^.]*)*)\.\s", txt):
            for name in m.group(1).split():
                todo.append(name.replace(".", "/") + ".v")
    return sorted(seen)


def property_files(pid, slices_=()):
    """Properties_<pid>*.v, the Extract_<slice>.v of the slices whose extracted models the property's correspondence
    runs, and everything they import"""
    import glob
    fns = sorted(os.path.basename(p) for p in glob.glob(os.path.join(COQ, "Properties_%s*.v" % pid)))
    fns += ["Extract_%s.v" % s for s in sorted(set(slices_))]
    return fns, dep_closure(fns)


def scan_forbidden(only=None):
    """grep the development (or the given files) for forbidden commands (Variable/Hypothesis allowed inside
    Sections only)."""
    bad = []
    for root, _, fs in os.walk(COQ):
        for f in fs:
            if not f.endswith(".v"):
                continue
            if only is not None and os.path.relpath(os.path.join(root, f), COQ) not in only:
                continue
            depth = 0
            txt = open(os.path.join(root, f)).read()
            txt = re.sub(r"\(\*.*?\*\)", lambda m: " " * 0 + "\n" * m.group(0).count("\n"), txt, flags=re.S)
            for i, line in enumerate(txt.split("\n"), 1):
                if re.match(r"\s*Section\b", line):
                    depth += 1
                elif re.match(r"\s*End\b", line) and depth:
                    depth -= 1
                m = FORBIDDEN.search(line)
                if m:
                    w = m.group(1)
                    if w in ("Variable", "Variables", "Hypothesis", "Hypotheses") and depth > 0:
                        continue
                    bad.append("%s:%d: %s" % (f, i, line.strip()))
    return bad


ALLOWED_AXIOMS = {
    # axioms declared by the standard library itself; named in the trusted base when they appear
    "functional_extensionality_dep", "proof_irrelevance", "JMeq_eq", "eq_rect_eq", "classic",
    "FunctionalExtensionality.functional_extensionality_dep", "Eqdep.Eq_rect_eq.eq_rect_eq",
    "ClassicalDedekindReals.sig_forall_dec", "ClassicalDedekindReals.sig_not_dec",
}


def check_properties_file(pid):
    """Compile coq/Properties_<pid>.v on its own (its imports were built by coq_make) and parse the
    theorems and their Print Assumptions. Returns dict(ok, theorems=[{name, closed, axioms}], output)."""
    import glob
    fns = sorted(os.path.basename(p) for p in glob.glob(os.path.join(COQ, "Properties_%s*.v" % pid)))
    res = {"ok": bool(fns), "theorems": [], "output": "", "file": ",".join(fns)}
    if not fns:
        res["output"] = "no Properties_%s*.v" % pid
        return res
    for fn in fns:
        r1 = _check_properties_one(fn)
        res["ok"] = res["ok"] and r1["ok"]
        res["theorems"] += r1["theorems"]
        res["output"] += r1["output"]
    return res


def _check_properties_one(fn):
    path = os.path.join(COQ, fn)
    res = {"ok": False, "theorems": [], "output": "", "file": fn}
    with Lock("coq"):
        rc, out = sh(["coqc", "-Q", ".", "LY", fn], cwd=COQ, timeout=1800)
    res["output"] = out
    src = re.sub(r"\(\*.*?\*\)", " ", open(path).read(), flags=re.S)
    names = re.findall(r"^\s*(?:Theorem|Lemma|Corollary)\s+([A-Za-z0-9_']+)", src, flags=re.M)
    printed = re.findall(r"^\s*Print Assumptions\s+([A-Za-z0-9_'.]+)\s*\.", src, flags=re.M)
    # split output per Print Assumptions (in order)
    chunks = re.split(r"(?m)^(?=Closed under the global context|Axioms:)", out)
    chunks = [c for c in chunks if c.startswith("Closed under") or c.startswith("Axioms:")]
    ok = (rc == 0)
    for i, nm in enumerate(names):
        ent = {"name": nm, "file": fn, "closed": False, "axioms": [], "checked": rc == 0}
        if nm in printed and printed.index(nm) < len(chunks):
            ch = chunks[printed.index(nm)]
            if ch.startswith("Closed under"):
                ent["closed"] = True
            else:
                ax = re.findall(r"^([A-Za-z0-9_.']+)\s*:", ch, flags=re.M)
                ent["axioms"] = [a for a in ax if a != "Axioms"]
                for a in ent["axioms"]:
                    if a.split(".")[-1] not in ALLOWED_AXIOMS and a not in ALLOWED_AXIOMS:
                        ok = False
                        ent["bad_axiom"] = a
        elif nm not in printed:
            ent["axioms"] = ["<no Print Assumptions>"]
            ok = False
        res["theorems"].append(ent)
    if not names:
        ok = False
    res["ok"] = ok
    return res


# --------------------------------------------------------------------------------------------
# running case files
# --------------------------------------------------------------------------------------------
def hexs(b):
    if isinstance(b, str):
        b = b.encode("utf-8")
    return b.hex() if b else "-"


def unhex(h):
    return b"" if h == "-" else bytes.fromhex(h)


def _run_once(exe, lines, timeout, env=None):
    """Run exe on lines; returns (outputs, status). outputs may be shorter than lines on a crash."""
    data = ("\n".join(lines) + "\n").encode()
    try:
        p = subprocess.run([exe] if isinstance(exe, str) else exe, input=data, stdout=subprocess.PIPE,
                           stderr=subprocess.PIPE, timeout=timeout, env=env)
        outs = p.stdout.decode("utf-8", "replace").split("\n")
        if outs and outs[-1] == "":
            outs.pop()
        return outs, p.returncode, p.stderr.decode("utf-8", "replace")
    except subprocess.TimeoutExpired as e:
        outs = (e.stdout or b"").decode("utf-8", "replace").split("\n")
        if outs and outs[-1] == "":
            outs.pop()
        elif outs:
            outs.pop()      # partial line
        return outs, "TIMEOUT", ""


def run_cases(exe, lines, timeout=120, env=None, per_case_timeout=20):
    """Run all lines through exe with crash isolation: a crash / hang on one case becomes the
    result 'CRASH(sig)' / 'TIMEOUT' of that case and the run continues after it."""
    results = []
    stderr_tail = {}
    pos = 0
    t = timeout
    while pos < len(lines):
        outs, rc, err = _run_once(exe, lines[pos:], t, env)
        n = min(len(outs), len(lines) - pos)
        results.extend(outs[:n])
        pos += n
        if pos >= len(lines):
            break
        # the case at 'pos' did not produce a (complete) line
        if rc == "TIMEOUT":
            # decide whether this single case hangs
            o2, rc2, _ = _run_once(exe, [lines[pos]], per_case_timeout, env)
            if len(o2) == 1 and rc2 == 0:
                results.append(o2[0])
                pos += 1
                continue
            results.append("TIMEOUT" if rc2 == "TIMEOUT" else "CRASH(%s)" % rc2)
        else:
            results.append("CRASH(%s)" % rc)
            stderr_tail[pos] = err if len(err) < 4000 else (err[:3000] + "\n...\n" + err[-800:])
        pos += 1
    return results, stderr_tail


def run_sharded(exe, lines, shards=None, timeout=300, env=None):
    """run_cases across several processes; order preserved."""
    if not lines:
        return [], {}
    shards = shards or min(NCPU, max(1, len(lines) // 50))
    size = (len(lines) + shards - 1) // shards
    parts = [lines[i:i + size] for i in range(0, len(lines), size)]
    with ThreadPoolExecutor(max_workers=len(parts)) as ex:
        rs = list(ex.map(lambda p: run_cases(exe, p, timeout, env), parts))
    out = []
    errs = {}
    base = 0
    for (r, e), p in zip(rs, parts):
        out.extend(r)
        for k, v in e.items():
            errs[base + k] = v
        base += len(p)
    return out, errs


# --------------------------------------------------------------------------------------------
# findings / evidence
# --------------------------------------------------------------------------------------------
def load_known():
    """the committed known-findings list: known_findings.json plus known_findings.d/*.json (one file per slice, so
    that slices can be worked on independently); never written at run time"""
    out = []
    p = os.path.join(VERIF, "known_findings.json")
    if os.path.exists(p):
        out += json.load(open(p))
    for q in sorted(__import__("glob").glob(os.path.join(VERIF, "known_findings.d", "*.json"))):
        out += json.load(open(q))
    return out


class Report:
    """Collects what a check did; prints KNOWN-FINDING / VIOLATION lines; writes evidence."""

    def __init__(self, pid, tier, seed):
        self.pid = pid
        self.tier = tier
        self.seed = seed
        self.t0 = time.time()
        self.violations = []          # (replay path, suffix)
        self.known_printed = set()
        self.known = [k for k in load_known() if k.get("property") == pid]
        self.evaluations = 0
        self.nontrivial = set()
        self.samples = []
        self.obligations = []
        self.discharged = 0
        self.trusted = []
        self.t2 = {}                  # component -> dict(cases, mismatches)
        self.oracles = {}             # oracle -> dict(cases, fails)
        self.notes = []
        self.dist = {}
        self.replay_n = 0
        self.broken = []              # names of theorems / correspondences that no longer check
        self.assumptions = []

    # ---- counting ----
    def count(self, comp, case_key, nontrivial=True):
        self.evaluations += 1
        if nontrivial:
            self.nontrivial.add((comp, case_key))

    def sample(self, s):
        if len(self.samples) < 12:
            self.samples.append(s)

    def bump(self, key, n=1):
        self.dist[key] = self.dist.get(key, 0) + n

    # ---- findings ----
    def known_tag(self, tag):
        for k in self.known:
            if k.get("tag") == tag and k.get("status") == "known":
                return k
        return None

    def print_known(self, k, detail=""):
        if k["tag"] in self.known_printed:
            return
        self.known_printed.add(k["tag"])
        print("KNOWN-FINDING: property=%s %s [%s]%s" % (self.pid, k.get("what", ""), k["tag"],
                                                         (" " + detail) if detail else ""), flush=True)

    def write_replay(self, obj):
        d = os.path.join(VERIF, "replays")
        os.makedirs(d, exist_ok=True)
        self.replay_n += 1
        path = os.path.join(d, "%s-%s-%d-%d.json" % (self.pid, self.tier, self.seed, self.replay_n))
        obj = dict(obj)
        obj.update({"property": self.pid, "seed": self.seed, "tier": self.tier, "repo_hash": repo_hash()})
        with open(path, "w") as f:
            json.dump(obj, f, indent=1, default=str)
        return path

    def violation(self, obj, tag=None, no_input=False):
        """Report a violation unless it is attributed to a listed known finding."""
        if tag:
            k = self.known_tag(tag)
            if k:
                self.print_known(k)
                return False
        if len(self.violations) >= 25:
            self.violations.append((None, ""))
            return True
        path = self.write_replay(obj)
        self.violations.append((path, " no-failing-input-found" if no_input else ""))
        print("VIOLATION property=%s replay=%s%s" % (self.pid, path, " no-failing-input-found" if no_input else ""),
              flush=True)
        return True

    # ---- evidence ----
    def finish(self, level="proof", checker_cmd="", extra=None):
        ev = {
            "property_id": self.pid,
            "tier": self.tier,
            "seed": self.seed,
            "level": level,
            "coverage": {
                "obligations": len(self.obligations),
                "discharged": self.discharged,
                "checker_cmd": checker_cmd,
                "trusted_base": self.trusted,
                "evaluations": self.evaluations,
                "distinct_nontrivial": len(self.nontrivial),
                "rule": "cases are drawn from one PRNG seeded by VERIF_SEED plus fixed boundary/corpus cases; a case "
                        "counts as non-trivial when it is distinct (component, input) and was actually executed on the "
                        "implementation (and the model where one exists)",
                "samples": self.samples,
                "theorems": self.obligations,
                "correspondence": self.t2,
                "oracles": self.oracles,
                "distribution": self.dist,
                "traces_validated_against_impl": sum(v.get("cases", 0) for v in self.t2.values()),
                "broken": self.broken,
                "known_findings_replayed": sorted(self.known_printed),
                "coqchk": getattr(self, "coqchk", None),
                "model_files": getattr(self, "model_files", None),
                "notes": self.notes,
            },
            "assumptions": self.assumptions,
            "wall_s": round(time.time() - self.t0, 2),
            "violations": len(self.violations),
        }
        if extra:
            ev["coverage"].update(extra)
        os.makedirs(os.path.join(VERIF, "evidence"), exist_ok=True)
        with open(os.path.join(VERIF, "evidence", self.pid + ".json"), "w") as f:
            json.dump(ev, f, indent=1, default=str)
        return 1 if self.violations else 0
