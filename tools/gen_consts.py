#!/usr/bin/env python3
"""gen_consts.py - tie T1: regenerate coq/Gen/Consts.v from /repo's current working tree.

Two extraction methods, both run on every check:
  (a) numeric macros / enum values: a tiny C program is compiled against the tree's headers and
      prints the values (so arithmetic in the macro bodies is evaluated by the C compiler);
  (b) literal tables inside function bodies (escape switches): scraped from the source text of the
      enclosing function with regular expressions.
The Coq development states its theorems over these names; side conditions on them are lemmas
proved by computation (coq/ConstsOk.v), so an edit of a constant or table either re-proves or
breaks a named obligation. The file is only rewritten when its content changes.
"""
import os
import re
import subprocess
import sys
import tempfile

sys.path.insert(0, os.path.dirname(os.path.abspath(__file__)))
import vlib  # noqa: E402

NUMERIC = [
    # (Coq name, C expression, headers)
    ("LYB_SIZE_BYTES", "LYB_SIZE_BYTES"), ("LYB_SIZE_MAX", "LYB_SIZE_MAX"),
    ("LYB_INCHUNK_BYTES", "LYB_INCHUNK_BYTES"), ("LYB_INCHUNK_MAX", "LYB_INCHUNK_MAX"),
    ("LYB_META_BYTES", "LYB_META_BYTES"), ("LYB_HASH_BITS", "LYB_HASH_BITS"),
    ("LYB_HASH_MASK", "LYB_HASH_MASK"), ("LYB_HASH_COLLISION_ID", "LYB_HASH_COLLISION_ID"),
    ("LYHT_HUNDRED_PERCENTAGE", "LYHT_HUNDRED_PERCENTAGE"),
    ("LYHT_ENLARGE_PERCENTAGE", "LYHT_ENLARGE_PERCENTAGE"),
    ("LYHT_FIRST_SHRINK_PERCENTAGE", "LYHT_FIRST_SHRINK_PERCENTAGE"),
    ("LYHT_SHRINK_PERCENTAGE", "LYHT_SHRINK_PERCENTAGE"), ("LYHT_MIN_SIZE", "LYHT_MIN_SIZE"),
    ("LYD_HT_MIN_ITEMS", "LYD_HT_MIN_ITEMS"),
    ("LYS_IFF_NOT", "LYS_IFF_NOT"), ("LYS_IFF_AND", "LYS_IFF_AND"), ("LYS_IFF_OR", "LYS_IFF_OR"),
    ("LYS_IFF_F", "LYS_IFF_F"),
    ("LY_BASE_DEC", "LY_BASE_DEC"), ("LY_BASE_OCT", "LY_BASE_OCT"), ("LY_BASE_HEX", "LY_BASE_HEX"),
    ("LY_ERR_SUCCESS", "LY_SUCCESS"), ("LY_ERR_EVALID", "LY_EVALID"), ("LY_ERR_EEXIST", "LY_EEXIST"),
    ("LY_ERR_ENOT", "LY_ENOT"), ("LY_ERR_ENOTFOUND", "LY_ENOTFOUND"), ("LY_ERR_EINVAL", "LY_EINVAL"),
]

C_PROG = r"""
#include <stdio.h>
#include <stdint.h>
#include "ly_common.h"
#include "lyb.h"
#include "hash_table_internal.h"
#include "tree_data.h"
#include "tree_schema.h"
int main(void) {
%s
    return 0;
}
"""


def func_body(path, name):
    """text of the body of C function <name> in file <path> (brace matching from its definition)."""
    src = open(path, encoding="utf-8", errors="replace").read()
    m = re.search(r"^%s\s*\(" % re.escape(name), src, flags=re.M)
    if not m:
        return None
    i = src.index("{", m.end())
    depth = 0
    j = i
    while j < len(src):
        if src[j] == "{":
            depth += 1
        elif src[j] == "}":
            depth -= 1
            if depth == 0:
                return src[i:j + 1]
        j += 1
    return None


def c_char(tok):
    """value of a C character literal body (between the quotes)"""
    esc = {"n": 10, "t": 9, "r": 13, "b": 8, "f": 12, "\\": 92, "'": 39, '"': 34, "0": 0, "a": 7, "v": 11}
    if tok.startswith("\\"):
        if tok[1] == "x":
            return int(tok[2:], 16)
        return esc[tok[1]]
    return ord(tok)


def c_string(tok):
    out = []
    i = 0
    while i < len(tok):
        if tok[i] == "\\":
            out.append(c_char(tok[i:i + 2]))
            i += 2
        else:
            out.append(ord(tok[i]))
            i += 1
    return out


def coq_bytes(bs):
    return "[" + "; ".join(str(b) for b in bs) + "]"


def c_tokens(src):
    """C source text as a token list (comments and white space dropped; string and character literals kept as
    one token including their quotes); None when a literal or comment is not terminated."""
    toks = []
    i, n = 0, len(src)
    word = re.compile(r"[A-Za-z_]\w*|\d\w*")
    while i < n:
        c = src[i]
        if c.isspace():
            i += 1
        elif src.startswith("/*", i):
            j = src.find("*/", i + 2)
            if j < 0:
                return None
            i = j + 2
        elif src.startswith("//", i):
            j = src.find("\n", i)
            i = n if j < 0 else j
        elif c in "\"'":
            j = i + 1
            while j < n and src[j] != c:
                if src[j] == "\n":
                    return None
                j += 2 if src[j] == "\\" else 1
            if j >= n:
                return None
            toks.append(src[i:j + 1])
            i = j + 1
        else:
            m = word.match(src, i)
            if m:
                toks.append(m.group())
                i = m.end()
            elif src[i:i + 2] in ("==", "!=", "++", "--", "&&", "||", "->", "<=", ">=", "+=", "-=", "|=", "&="):
                toks.append(src[i:i + 2])
                i += 2
            else:
                toks.append(c)
                i += 1
    return toks


# lyxml_dump_text(): everything around the case groups must be exactly this (token-wise)
XML_DUMP_HEAD = "{ LY_ERR ret; if (!text) { return 0; } for (uint64_t u = 0; text[u]; u++) { switch (text[u]) {"
XML_DUMP_TAIL = "default: ret = ly_write_(out, &text[u], 1); break; } LY_CHECK_RET(ret); } return LY_SUCCESS; }"
_STR = r'"((?:\\.|[^"\\])*)"'
_CHR = r"'((?:\\.|[^'\\])+)'"
_WRITE = r"ret = ly_write_ \( out , & text \[ u \] , 1 \) ;"
# the block shapes of a case group (tokens joined by one blank)
XML_BLK_ALWAYS = re.compile(r"^ret = ly_print_ \( out , %s \) ; break ;$" % _STR)
XML_BLK_ATTR_FALL = re.compile(r"^if \( attribute \) \{ ret = ly_print_ \( out , %s \) ; break ; \}$" % _STR)
XML_BLK_ATTR_ELSE = re.compile(r"^if \( attribute \) \{ ret = ly_print_ \( out , %s \) ; \} else \{ %s \} break ;$"
                               % (_STR, _WRITE))
XML_BLK_ATTR_SEL = re.compile(r"^if \( attribute \) \{ ret = ly_print_ \( out , \( text \[ u \] == %s \) \? %s : %s \) ; \} "
                              r"else \{ %s \} break ;$" % (_CHR, _STR, _STR, _WRITE))


def scrape_xml_escapes():
    """(char, attribute_only, replacement) triples of lyxml_dump_text()'s switch, in source order.

    Understood (anything else -> None, i.e. "scrape failed", never a guess): the function is a loop over the bytes of
    text with one switch whose default writes the byte unchanged; a case group is one or more case labels followed by
      (a) ret = ly_print_(out, "R"); break;                                                     -> (c, false, R)
      (b) if (attribute) { ret = ly_print_(out, "R"); break; }   directly before default:       -> (c, true, R)
      (c) if (attribute) { ret = ly_print_(out, "R"); } else { <write byte> } break;            -> (c, true, R)
      (d) two labels X, Y:
          if (attribute) { ret = ly_print_(out, (text[u] == 'X') ? "RX" : "RY"); } else { <write byte> } break;
                                                                                -> (X, true, RX), (Y, true, RY)
    ly_print_ is printf-like: a replacement containing '%' is refused; a byte with two case labels is refused."""
    body = func_body(os.path.join(vlib.REPO, "src", "xml.c"), "lyxml_dump_text")
    if not body:
        return None
    toks = c_tokens(body)
    head, tail = c_tokens(XML_DUMP_HEAD), c_tokens(XML_DUMP_TAIL)
    if toks is None or len(toks) < len(head) + len(tail) or toks[:len(head)] != head or toks[-len(tail):] != tail:
        return None
    toks = toks[len(head):len(toks) - len(tail)]
    out = []
    i = 0
    try:
        while i < len(toks):
            labels = []
            while i < len(toks) and toks[i] == "case":
                if not re.fullmatch(_CHR, toks[i + 1]) or toks[i + 2] != ":":
                    return None
                labels.append(c_char(toks[i + 1][1:-1]))
                i += 3
            j = i
            while j < len(toks) and toks[j] not in ("case", "default"):
                j += 1
            if not labels or j == i or (j < len(toks) and toks[j] == "default"):
                return None
            blk = " ".join(toks[i:j])
            last = j == len(toks)
            i = j
            m = XML_BLK_ALWAYS.match(blk)
            if m:
                out += [(c, False, c_string(m.group(1))) for c in labels]
                continue
            m = XML_BLK_ATTR_ELSE.match(blk) or (XML_BLK_ATTR_FALL.match(blk) if last else None)
            if m:
                out += [(c, True, c_string(m.group(1))) for c in labels]
                continue
            m = XML_BLK_ATTR_SEL.match(blk)
            if m and len(labels) == 2 and c_char(m.group(1)) in labels and labels[0] != labels[1]:
                x = c_char(m.group(1))
                sel = {x: c_string(m.group(2))}
                sel[[c for c in labels if c != x][0]] = c_string(m.group(3))
                out += [(c, True, sel[c]) for c in labels]
                continue
            return None
    except (IndexError, KeyError, ValueError):
        return None
    if len({c for c, _, _ in out}) != len(out) or any(37 in r or not r for _, _, r in out) or any(c == 0 for c, _, _ in out):
        return None
    return out


def scrape_json_escapes():
    """(char, replacement) pairs of json_print_string()'s switch (src/printer_json.c)."""
    body = func_body(os.path.join(vlib.REPO, "src", "printer_json.c"), "json_print_string")
    if not body:
        return None
    out = []
    for m in re.finditer(r"case\s+'((?:\\.|[^'\\])+)'\s*:(.*?)(?=case\s+'|default\s*:)", body, flags=re.S):
        ch = c_char(m.group(1))
        pm = re.search(r'ly_print_\(\s*out\s*,\s*"((?:\\.|[^"\\])*)"\s*\)', m.group(2))
        if not pm:
            return None
        out.append((ch, c_string(pm.group(1))))
    return out


def main():
    bd = vlib.build_lib("rel")
    prints = "\n".join('    printf("%s %%llu\\n", (unsigned long long)(%s));' % (n, e) for n, e in NUMERIC)
    with tempfile.TemporaryDirectory(dir=vlib.BUILD_ROOT) as td:
        src = os.path.join(td, "c.c")
        open(src, "w").write(C_PROG % prints)
        exe = os.path.join(td, "c")
        cmd = ["cc", "-w", "-DSTATIC", "-I%s/libyang" % bd, "-I%s/src" % vlib.REPO, "-I%s/src/plugins_exts" % vlib.REPO,
               "-I%s/compat" % bd, "-I%s" % bd, "-o", exe, src]
        p = subprocess.run(cmd, stdout=subprocess.PIPE, stderr=subprocess.STDOUT)
        if p.returncode:
            print(p.stdout.decode())
            return 1
        vals = subprocess.run([exe], stdout=subprocess.PIPE).stdout.decode().split("\n")
    lines = ["(* Gen/Consts.v - GENERATED by tools/gen_consts.py from /repo's working tree on every check (tie T1).",
             "   Do not edit. *)", "From Coq Require Import List NArith.", "Import ListNotations.",
             "Local Open Scope N_scope.", ""]
    for v in vals:
        if v.strip():
            n, x = v.split()
            lines.append("Definition %s : N := %s." % (n, x))
    xe = scrape_xml_escapes()
    lines.append("")
    lines.append("(* lyxml_dump_text(): (byte, only-in-attributes, replacement) *)")
    if xe is None:
        lines.append("Definition xml_esc_table : list (N * bool * list N) := [].  (* scrape failed *)")
    else:
        lines.append("Definition xml_esc_table : list (N * bool * list N) := [%s]." % "; ".join(
            "(%d, %s, %s)" % (c, "true" if a else "false", coq_bytes(r)) for c, a, r in xe))
    je = scrape_json_escapes()
    lines.append("(* json_print_string(): (byte, replacement) *)")
    if je is None:
        lines.append("Definition json_esc_table : list (N * list N) := [].  (* scrape failed *)")
    else:
        lines.append("Definition json_esc_table : list (N * list N) := [%s]." % "; ".join(
            "(%d, %s)" % (c, coq_bytes(r)) for c, r in je))
    txt = "\n".join(lines) + "\n"
    path = os.path.join(vlib.COQ, "Gen", "Consts.v")
    os.makedirs(os.path.dirname(path), exist_ok=True)
    old = open(path).read() if os.path.exists(path) else None
    if old != txt:
        open(path, "w").write(txt)
        print("Consts.v rewritten")
    else:
        print("Consts.v unchanged")
    return 0


if __name__ == "__main__":
    sys.exit(main())
