#!/usr/bin/env python3
"""gen_consts.py - tie T1: regenerate coq/Gen/Consts.v from /repo's current working tree.

Two extraction methods, both run on every check:
  (a) numeric macros / enum values: a tiny C program is compiled against the tree's headers and
      prints the values (so arithmetic in the macro bodies is evaluated by the C compiler);
  (b) literal tables inside function bodies (escape switches): scraped from the source text of the
      enclosing function with regular expressions.
The Coq development states its theorems over these names; side conditions on them are lemmas
proved by computation (coq/ConstsOk.v), so an edit of a constant or table either re-proves or
breaks a named obligation. The file is only rewritten when its content changes.
"""
import os
import re
import subprocess
import sys
import tempfile

sys.path.insert(0, os.path.dirname(os.path.abspath(__file__)))
import vlib  # noqa: E402

NUMERIC = [
    # (Coq name, C expression, headers)
    ("LYB_SIZE_BYTES", "LYB_SIZE_BYTES"), ("LYB_SIZE_MAX", "LYB_SIZE_MAX"),
    ("LYB_INCHUNK_BYTES", "LYB_INCHUNK_BYTES"), ("LYB_INCHUNK_MAX", "LYB_INCHUNK_MAX"),
    ("LYB_META_BYTES", "LYB_META_BYTES"), ("LYB_HASH_BITS", "LYB_HASH_BITS"),
    ("LYB_HASH_MASK", "LYB_HASH_MASK"), ("LYB_HASH_COLLISION_ID", "LYB_HASH_COLLISION_ID"),
    ("LYHT_HUNDRED_PERCENTAGE", "LYHT_HUNDRED_PERCENTAGE"),
    ("LYHT_ENLARGE_PERCENTAGE", "LYHT_ENLARGE_PERCENTAGE"),
    ("LYHT_FIRST_SHRINK_PERCENTAGE", "LYHT_FIRST_SHRINK_PERCENTAGE"),
    ("LYHT_SHRINK_PERCENTAGE", "LYHT_SHRINK_PERCENTAGE"), ("LYHT_MIN_SIZE", "LYHT_MIN_SIZE"),
    ("LYD_HT_MIN_ITEMS", "LYD_HT_MIN_ITEMS"),
    ("LYS_IFF_NOT", "LYS_IFF_NOT"), ("LYS_IFF_AND", "LYS_IFF_AND"), ("LYS_IFF_OR", "LYS_IFF_OR"),
    ("LYS_IFF_F", "LYS_IFF_F"),
    ("LY_BASE_DEC", "LY_BASE_DEC"), ("LY_BASE_OCT", "LY_BASE_OCT"), ("LY_BASE_HEX", "LY_BASE_HEX"),
    ("LY_ERR_SUCCESS", "LY_SUCCESS"), ("LY_ERR_EVALID", "LY_EVALID"), ("LY_ERR_EEXIST", "LY_EEXIST"),
    ("LY_ERR_ENOT", "LY_ENOT"), ("LY_ERR_ENOTFOUND", "LY_ENOTFOUND"), ("LY_ERR_EINVAL", "LY_EINVAL"),
]

C_PROG = r"""
#include <stdio.h>
#include <stdint.h>
#include "ly_common.h"
#include "lyb.h"
#include "hash_table_internal.h"
#include "tree_data.h"
#include "tree_schema.h"
int main(void) {
%s
    return 0;
}
"""


def func_body(path, name):
    """text of the body of C function <name> in file <path> (brace matching from its definition)."""
    src = open(path, encoding="utf-8", errors="replace").read()
    m = re.search(r"^%s\s*\(" % re.escape(name), src, flags=re.M)
    if not m:
        return None
    i = src.index("{", m.end())
    depth = 0
    j = i
    while j < len(src):
        if src[j] == "{":
            depth += 1
        elif src[j] == "}":
            depth -= 1
            if depth == 0:
                return src[i:j + 1]
        j += 1
    return None


def c_char(tok):
    """value of a C character literal body (between the quotes)"""
    esc = {"n": 10, "t": 9, "r": 13, "b": 8, "f": 12, "\\": 92, "'": 39, '"': 34, "0": 0, "a": 7, "v": 11}
    if tok.startswith("\\"):
        if tok[1] == "x":
            return int(tok[2:], 16)
        return esc[tok[1]]
    return ord(tok)


def c_string(tok):
    out = []
    i = 0
    while i < len(tok):
        if tok[i] == "\\":
            out.append(c_char(tok[i:i + 2]))
            i += 2
        else:
            out.append(ord(tok[i]))
            i += 1
    return out


def coq_bytes(bs):
    return "[" + "; ".join(str(b) for b in bs) + "]"


def scrape_xml_escapes():
    """(char, attribute_only, replacement) triples of lyxml_dump_text()'s switch."""
    body = func_body(os.path.join(vlib.REPO, "src", "xml.c"), "lyxml_dump_text")
    out = []
    if not body:
        return None
    for m in re.finditer(r"case\s+'((?:\\.|[^'\\])+)'\s*:(.*?)(?=case\s+'|default\s*:)", body, flags=re.S):
        ch = c_char(m.group(1))
        blk = m.group(2)
        pm = re.search(r'ly_print_\(\s*out\s*,\s*"((?:\\.|[^"\\])*)"\s*\)', blk)
        if not pm:
            return None
        attr_only = bool(re.search(r"if\s*\(\s*attribute\s*\)", blk))
        out.append((ch, attr_only, c_string(pm.group(1))))
    return out


def scrape_json_escapes():
    """(char, replacement) pairs of json_print_string()'s switch (src/printer_json.c)."""
    body = func_body(os.path.join(vlib.REPO, "src", "printer_json.c"), "json_print_string")
    if not body:
        return None
    out = []
    for m in re.finditer(r"case\s+'((?:\\.|[^'\\])+)'\s*:(.*?)(?=case\s+'|default\s*:)", body, flags=re.S):
        ch = c_char(m.group(1))
        pm = re.search(r'ly_print_\(\s*out\s*,\s*"((?:\\.|[^"\\])*)"\s*\)', m.group(2))
        if not pm:
            return None
        out.append((ch, c_string(pm.group(1))))
    return out


def main():
    bd = vlib.build_lib("rel")
    prints = "\n".join('    printf("%s %%llu\\n", (unsigned long long)(%s));' % (n, e) for n, e in NUMERIC)
    with tempfile.TemporaryDirectory(dir=vlib.BUILD_ROOT) as td:
        src = os.path.join(td, "c.c")
        open(src, "w").write(C_PROG % prints)
        exe = os.path.join(td, "c")
        cmd = ["cc", "-w", "-DSTATIC", "-I%s/libyang" % bd, "-I%s/src" % vlib.REPO, "-I%s/src/plugins_exts" % vlib.REPO,
               "-I%s/compat" % bd, "-I%s" % bd, "-o", exe, src]
        p = subprocess.run(cmd, stdout=subprocess.PIPE, stderr=subprocess.STDOUT)
        if p.returncode:
            print(p.stdout.decode())
            return 1
        vals = subprocess.run([exe], stdout=subprocess.PIPE).stdout.decode().split("\n")
    lines = ["(* Gen/Consts.v - GENERATED by tools/gen_consts.py from /repo's working tree on every check (tie T1).",
             "   Do not edit. *)", "From Coq Require Import List NArith.", "Import ListNotations.",
             "Local Open Scope N_scope.", ""]
    for v in vals:
        if v.strip():
            n, x = v.split()
            lines.append("Definition %s : N := %s." % (n, x))
    xe = scrape_xml_escapes()
    lines.append("")
    lines.append("(* lyxml_dump_text(): (byte, only-in-attributes, replacement) *)")
    if xe is None:
        lines.append("Definition xml_esc_table : list (N * bool * list N) := [].  (* scrape failed *)")
    else:
        lines.append("Definition xml_esc_table : list (N * bool * list N) := [%s]." % "; ".join(
            "(%d, %s, %s)" % (c, "true" if a else "false", coq_bytes(r)) for c, a, r in xe))
    je = scrape_json_escapes()
    lines.append("(* json_print_string(): (byte, replacement) *)")
    if je is None:
        lines.append("Definition json_esc_table : list (N * list N) := [].  (* scrape failed *)")
    else:
        lines.append("Definition json_esc_table : list (N * list N) := [%s]." % "; ".join(
            "(%d, %s)" % (c, coq_bytes(r)) for c, r in je))
    txt = "\n".join(lines) + "\n"
    path = os.path.join(vlib.COQ, "Gen", "Consts.v")
    os.makedirs(os.path.dirname(path), exist_ok=True)
    old = open(path).read() if os.path.exists(path) else None
    if old != txt:
        open(path, "w").write(txt)
        print("Consts.v rewritten")
    else:
        print("Consts.v unchanged")
    return 0


if __name__ == "__main__":
    sys.exit(main())
