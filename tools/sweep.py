#!/usr/bin/env python3
"""sweep.py [--seeds 1,2,3] [--tier quick] [--props C01,C02] [--jobs 4]

Runs the registered checks of MANIFEST.json the way they will be used (VERIF_SEED / VERIF_TIER exported, the manifest's
command line) and prints one line per run: exit code, wall time, VIOLATION lines. Exit 0 iff every run exited 0 without
a VIOLATION line. Used before committing: a check that alarms on the unchanged tree is broken."""
import argparse
import json
import os
import subprocess
import sys
import time
from concurrent.futures import ThreadPoolExecutor

V = os.path.dirname(os.path.dirname(os.path.abspath(__file__)))


def main():
    ap = argparse.ArgumentParser()
    ap.add_argument("--seeds", default="1")
    ap.add_argument("--tier", default="quick")
    ap.add_argument("--props", default="")
    ap.add_argument("--jobs", type=int, default=4)
    a = ap.parse_args()
    man = json.load(open(os.path.join(V, "MANIFEST.json")))
    props = man["checks"]
    want = set(p for p in a.props.split(",") if p)
    jobs = []
    for p in props:
        pid = p["property_id"]
        if want and pid not in want:
            continue
        cmd = p[a.tier + "_cmd"]
        for s in a.seeds.split(","):
            jobs.append((pid, s, cmd))

    def run(j):
        pid, s, cmd = j
        env = dict(os.environ, VERIF_SEED=s, VERIF_TIER=a.tier)
        t0 = time.time()
        r = subprocess.run(cmd, shell=True, cwd=V, env=env, stdout=subprocess.PIPE, stderr=subprocess.STDOUT, text=True)
        vio = [l for l in r.stdout.split("\n") if l.startswith("VIOLATION")]
        kn = sum(1 for l in r.stdout.split("\n") if l.startswith("KNOWN-FINDING"))
        print("%s seed=%s rc=%d %5.0fs known=%d %s" % (pid, s, r.returncode, time.time() - t0, kn, " | ".join(vio[:2])[:300]), flush=True)
        if r.returncode or vio:
            open("/var/tmp/logs/sweep_%s_%s.log" % (pid, s), "w").write(r.stdout)
        return r.returncode or (1 if vio else 0)
    with ThreadPoolExecutor(max_workers=a.jobs) as ex:
        rcs = list(ex.map(run, jobs))
    bad = sum(1 for x in rcs if x)
    print("sweep: %d runs, %d bad" % (len(rcs), bad))
    return 1 if bad else 0


if __name__ == "__main__":
    sys.exit(main())
