"""gens.py - shared random generators (all randomness comes from the rng passed in)."""
from vlib import hexs

BOUNDARY_CPS = [0x9, 0xA, 0xD, 0x20, 0x22, 0x26, 0x27, 0x3C, 0x3E, 0x5C, 0x2F, 0x5B, 0x5D, 0x7E, 0x7F, 0x80, 0x85, 0xA0,
                0xFF, 0x100, 0x7FF, 0x800, 0xFFF, 0x1000, 0x2028, 0xD7FF, 0xE000, 0xFDCF, 0xFDD0, 0xFDEF, 0xFDF0,
                0xFFFD, 0x10000, 0x10FFE, 0x1FFFD, 0x20000, 0xFFFFD, 0x100000, 0x10FFFD]
BAD_CPS = [0x0, 0x1, 0x8, 0xB, 0xC, 0x1F, 0xD800, 0xDFFF, 0xFFFE, 0xFFFF, 0x1FFFE, 0x1FFFF, 0x10FFFE, 0x10FFFF, 0x110000]


def enc_cp(cp):
    """RFC 3629 style encoding of any value < 2^21 (also of surrogates / non-characters)"""
    if cp < 0x80:
        return bytes([cp])
    if cp < 0x800:
        return bytes([0xC0 | (cp >> 6), 0x80 | (cp & 0x3F)])
    if cp < 0x10000:
        return bytes([0xE0 | (cp >> 12), 0x80 | ((cp >> 6) & 0x3F), 0x80 | (cp & 0x3F)])
    return bytes([0xF0 | ((cp >> 18) & 7), 0x80 | ((cp >> 12) & 0x3F), 0x80 | ((cp >> 6) & 0x3F), 0x80 | (cp & 0x3F)])


def is_yang_char(cp):
    if cp >= 0x110000 or 0xD800 <= cp <= 0xDFFF:
        return False
    if cp < 0x20 and cp not in (9, 10, 13):
        return False
    if 0xFDD0 <= cp <= 0xFDEF or (cp & 0xFFFE) == 0xFFFE:
        return False
    return True


def rand_cp(rng):
    r = rng.random()
    if r < 0.45:
        return rng.choice(b"abcxyzABC019 _-.:;,=")
    if r < 0.65:
        return rng.choice(BOUNDARY_CPS)
    if r < 0.75:
        return rng.randrange(0x20, 0x7F)
    if r < 0.85:
        return rng.randrange(0x80, 0x800)
    if r < 0.93:
        cp = rng.randrange(0x800, 0x10000)
    else:
        cp = rng.randrange(0x10000, 0x110000)
    return cp if is_yang_char(cp) else 0x263A


def yang_string(rng, maxlen=12):
    """valid YANG string (bytes), mixing all escape classes"""
    n = rng.choice([0, 1, 1, 2, 3, 5, 8, maxlen])
    out = b""
    for _ in range(n):
        cp = rand_cp(rng)
        if not is_yang_char(cp):
            cp = 0x41
        out += enc_cp(cp)
    return out


def raw_bytes(rng, maxlen=10, alphabet=None):
    n = rng.randrange(0, maxlen + 1)
    if alphabet:
        return bytes(rng.choice(alphabet) for _ in range(n))
    return bytes(rng.randrange(1, 256) for _ in range(n))


def mutate(rng, b, alphabet=None):
    """one structure-preserving-ish mutation of a byte string (no NUL bytes are introduced)"""
    b = bytearray(b)
    r = rng.random()
    pick = (lambda: rng.choice(alphabet)) if alphabet else (lambda: rng.randrange(1, 256))
    if not b or r < 0.25:
        b.insert(rng.randrange(len(b) + 1), pick())
    elif r < 0.5:
        del b[rng.randrange(len(b))]
    elif r < 0.75:
        b[rng.randrange(len(b))] = pick()
    elif r < 0.9:
        i = rng.randrange(len(b) + 1)
        del b[i:]
    else:
        i = rng.randrange(len(b))
        j = rng.randrange(i, len(b))
        b[i:i] = b[i:j + 1]
    return bytes(b)


def bad_utf8_samples():
    return [b"\xc0\x80", b"\xc1\xbf", b"\xe0\x80\x80", b"\xe0\x9f\xbf", b"\xed\xa0\x80", b"\xed\xbf\xbf", b"\xef\xbf\xbe",
            b"\xef\xbf\xbf", b"\xf0\x80\x80\x80", b"\xf0\x81\x80\x80", b"\xf0\x8f\xbf\xbf", b"\xf0\x90\x80\x80",
            b"\xf4\x8f\xbf\xbf", b"\xf4\x90\x80\x80", b"\xf8\x88\x80\x80\x80", b"\x80", b"\xbf", b"\xc3", b"\xe2\x82",
            b"\xf0\x9f\x98", b"\xc3\x28", b"\xe2\x28\xa1", b"\xe2\x82\x28", b"\xf0\x28\x8c\xbc", b"\xfe", b"\xff",
            b"\xef\xb7\x90", b"\xef\xb7\xaf", b"\xf0\x9f\xbf\xbe", b"\xf0\x90\xbf\xbe", b"\x01", b"\x1f", b"\x7f"]
