"""yanggen.py - structured generator of YANG modules and instance data.

From one PRNG it produces a *description* (Python objects) of a module set, and from it
  (a) YANG text for libyang,
  (b) instances that are valid by construction (and single known mutations of them), encoded as XML
      and JSON by this file's OWN encoders (independent of libyang's printers),
so that a symmetric printer/parser defect in libyang cannot hide.
"""
import json as _json

import gens

XML_ESC = {"&": "&amp;", "<": "&lt;", ">": "&gt;"}


def xml_text(s):
    return "".join(XML_ESC.get(ch, ch) for ch in s).replace("\r", "&#xD;")


def xml_attr(s):
    return xml_text(s).replace('"', "&quot;").replace("\t", "&#x9;").replace("\n", "&#xA;")


# ------------------------------------------------------------------------------------------------
# types
# ------------------------------------------------------------------------------------------------
class Type:
    json_kind = "string"      # string | number | bool | empty
    name = "string"

    def yang(self):
        return "type %s;" % self.name

    def valid(self, rng):
        raise NotImplementedError

    def invalid(self, rng):
        return None

    def sort_key(self, v):
        return v


class TString(Type):
    def __init__(self, length=None, pattern=None, adversarial=False, letters=False):
        self.length = length
        self.pattern = pattern
        self.adversarial = adversarial
        self.letters = letters

    def yang(self):
        sub = ""
        if self.length:
            sub += ' length "%d..%d";' % self.length
        if self.pattern:
            sub += " pattern '%s';" % self.pattern
        return "type string {%s}" % sub if sub else "type string;"

    def valid(self, rng):
        lo, hi = self.length or (0, 8)
        if self.pattern:            # only '[a-z]+' style patterns are generated
            n = rng.randrange(max(lo, 1), hi + 1)
            return "".join(rng.choice("abcxyz") for _ in range(n))
        n = rng.randrange(lo, hi + 1)
        if self.adversarial and rng.random() < 0.6:
            alphabet = ["a", "b", " ", "'", "\"", "[", "]", "/", "=", "*", ".", "\\", "\t", "<", ">", "&", "é", "€", "\r",
                        "😀", ":", ";", "{", "}", "\n", "\u00a0", "z", "\r", "\x7f", "\u2028", "\ufffd"]
            s = "".join(rng.choice(alphabet) for _ in range(n))
        elif self.letters:
            s = "".join(rng.choice("ghxyzq") for _ in range(n))
        else:
            s = "".join(rng.choice("abcdefghxyz0189") for _ in range(n))
        return s

    def invalid(self, rng):
        if self.pattern:
            return "A1"
        if self.length:
            return "q" * (self.length[1] + 1)
        return None

    def sort_key(self, v):
        return v.encode("utf-8")


INT_BOUNDS = {"int8": (-128, 127), "int16": (-32768, 32767), "int32": (-2 ** 31, 2 ** 31 - 1), "int64": (-2 ** 63, 2 ** 63 - 1),
              "uint8": (0, 255), "uint16": (0, 65535), "uint32": (0, 2 ** 32 - 1), "uint64": (0, 2 ** 64 - 1)}


class TInt(Type):
    def __init__(self, name, ranges=None):
        self.name = name
        self.ranges = ranges          # list of (lo, hi)
        self.json_kind = "string" if name in ("int64", "uint64") else "number"

    def yang(self):
        if self.ranges:
            return 'type %s { range "%s"; }' % (self.name, " | ".join("%d..%d" % r if r[0] != r[1] else "%d" % r[0] for r in self.ranges))
        return "type %s;" % self.name

    def valid(self, rng):
        lo, hi = rng.choice(self.ranges) if self.ranges else INT_BOUNDS[self.name]
        r = rng.random()
        if r < 0.2:
            v = lo
        elif r < 0.4:
            v = hi
        elif r < 0.8:
            v = rng.randint(max(lo, -20), min(hi, 20)) if max(lo, -20) <= min(hi, 20) else rng.randint(lo, hi)
        else:
            v = rng.randint(lo, hi)
        return str(v)

    def invalid(self, rng):
        lo, hi = INT_BOUNDS[self.name]
        if self.ranges:
            allowed = set()
            for a, b in self.ranges:
                if b - a < 1000:
                    allowed.update(range(a, b + 1))
            for cand in [self.ranges[0][0] - 1, self.ranges[-1][1] + 1] + [r[1] + 1 for r in self.ranges]:
                if lo <= cand <= hi and cand not in allowed and not any(a <= cand <= b for a, b in self.ranges):
                    return str(cand)
        return rng.choice([str(hi + 1), str(lo - 1), "x", "1.5", ""])

    def sort_key(self, v):
        return int(v)


class TDec64(Type):
    json_kind = "string"

    def __init__(self, fd, ranges=None):
        self.fd = fd
        self.ranges = ranges

    def yang(self):
        sub = " fraction-digits %d;" % self.fd
        if self.ranges:
            sub += ' range "%s";' % " | ".join("%s..%s" % r for r in self.ranges)
        return "type decimal64 {%s }" % sub

    def canon(self, n):
        sign = "-" if n < 0 else ""
        n = abs(n)
        ip, fp = divmod(n, 10 ** self.fd)
        f = ("%0*d" % (self.fd, fp)).rstrip("0") or "0"
        return "%s%d.%s" % (sign, ip, f)

    def valid(self, rng):
        if self.ranges:
            lo, hi = rng.choice(self.ranges)
            lo = int(round(float(lo) * 10 ** self.fd))
            hi = int(round(float(hi) * 10 ** self.fd))
        else:
            lo, hi = -2 ** 63, 2 ** 63 - 1
        r = rng.random()
        if r < 0.5:
            n = rng.randint(max(lo, -5000), min(hi, 5000)) if max(lo, -5000) <= min(hi, 5000) else rng.randint(lo, hi)
        elif r < 0.6:
            n = lo
        elif r < 0.7:
            n = hi
        else:
            n = rng.randint(lo, hi)
        return self.canon(n)

    def invalid(self, rng):
        return rng.choice(["abc", "1.", "1.2.3", "9" * 25])

    def sort_key(self, v):
        neg = v.startswith("-")
        ip, fp = v.lstrip("-").split(".")
        n = int(ip) * 10 ** self.fd + int(fp.ljust(self.fd, "0"))
        return -n if neg else n


class TBool(Type):
    name = "boolean"
    json_kind = "bool"

    def valid(self, rng):
        return rng.choice(["true", "false"])

    def invalid(self, rng):
        return rng.choice(["True", "1", "yes", ""])

    def sort_key(self, v):
        return 1 if v == "true" else 0


class TEmpty(Type):
    name = "empty"
    json_kind = "empty"

    def valid(self, rng):
        return ""


class TEnum(Type):
    def __init__(self, names):
        self.names = names        # list of (name, value)

    def yang(self):
        return "type enumeration { %s }" % " ".join("enum %s { value %d; }" % nv for nv in self.names)

    def valid(self, rng):
        return rng.choice(self.names)[0]

    def invalid(self, rng):
        return "nonexistent"

    def sort_key(self, v):
        return dict(self.names)[v]


class TBits(Type):
    def __init__(self, names):
        self.names = names        # list of (name, position)

    def yang(self):
        return "type bits { %s }" % " ".join("bit %s { position %d; }" % nv for nv in self.names)

    def valid(self, rng):
        chosen = [n for n, _ in sorted(self.names, key=lambda x: x[1]) if rng.random() < 0.5]
        return " ".join(chosen)

    def invalid(self, rng):
        return "nobit"

    def sort_key(self, v):
        pos = dict(self.names)
        return sum(1 << pos[b] for b in v.split())


class TUnion(Type):
    def __init__(self, members):
        self.members = members

    def yang(self):
        return "type union { %s }" % " ".join(m.yang() for m in self.members)

    def valid(self, rng):
        return rng.choice(self.members).valid(rng)

    @property
    def json_kind_of(self):
        return None

    def sort_key(self, v):
        return v.encode("utf-8")


def rand_type(rng, key=False, adversarial=False):
    r = rng.random()
    if r < 0.25:
        return TString(adversarial=adversarial) if rng.random() < 0.6 else TString(length=(1, 5))
    if r < 0.33:
        return TString(pattern="[a-z]+")
    if r < 0.5:
        nm = rng.choice(list(INT_BOUNDS))
        if rng.random() < 0.4:
            lo, hi = INT_BOUNDS[nm]
            a = max(lo, -10) if lo < 0 else 0
            return TInt(nm, [(a, a + 5), (a + 10, a + 10), (a + 20, min(hi, a + 100))])
        return TInt(nm)
    if r < 0.58:
        return TDec64(rng.choice([1, 2, 5, 18]) if rng.random() < 0.7 else rng.randrange(1, 19))
    if r < 0.63:
        return TDec64(2, [("-5.5", "10.25"), ("20", "30")])
    if r < 0.72:
        return TBool()
    if r < 0.82:
        return TEnum([("zero", 0), ("one", 1), ("minus", -3), ("big", 100)])
    if r < 0.88 and not key:
        return TBits([("b0", 0), ("b1", 1), ("b5", 5), ("b31", 31)])
    if r < 0.93 and not key:
        return TEmpty()
    return TUnion([TInt("int8"), TEnum([("up", 1), ("down", 2)]), TString(length=(1, 4), letters=True)])


# ------------------------------------------------------------------------------------------------
# schema nodes
# ------------------------------------------------------------------------------------------------
class SNode:
    kind = ""

    def __init__(self, name, **kw):
        self.name = name
        self.config = kw.get("config", True)
        self.when = kw.get("when")          # (xpath text, python predicate over parent instance dict)
        self.must = kw.get("must")
        self.iffeature = kw.get("iffeature")
        self.module = None                  # Module (set by Module.add)
        self.parent = None

    def common(self):
        s = ""
        if self.iffeature:
            s += ' if-feature "%s";' % self.iffeature
        if self.when:
            s += ' when "%s";' % self.when[0]
        if self.must:
            s += ' must "%s"%s' % (self.must[0], (' { error-app-tag "%s"; }' % self.must[2]) if len(self.must) > 2 and self.must[2] else ";")
        return s


class SLeaf(SNode):
    kind = "leaf"

    def __init__(self, name, typ, default=None, mandatory=False, **kw):
        super().__init__(name, **kw)
        self.type = typ
        self.default = default
        self.mandatory = mandatory
        self.is_key = False

    def yang(self, ind, cfg_parent=True):
        s = "%sleaf %s { %s" % (ind, self.name, self.type.yang())
        if self.default is not None:
            s += ' default "%s";' % yang_dq(self.default)
        if self.mandatory:
            s += " mandatory true;"
        if not self.config and cfg_parent:
            s += " config false;"
        return s + self.common() + " }\n"


class SLeafList(SNode):
    kind = "leaf-list"

    def __init__(self, name, typ, defaults=(), minel=0, maxel=None, userord=False, **kw):
        super().__init__(name, **kw)
        self.type = typ
        self.defaults = list(defaults)
        self.minel = minel
        self.maxel = maxel
        self.userord = userord

    def yang(self, ind, cfg_parent=True):
        s = "%sleaf-list %s { %s" % (ind, self.name, self.type.yang())
        for d in self.defaults:
            s += ' default "%s";' % yang_dq(d)
        if self.minel:
            s += " min-elements %d;" % self.minel
        if self.maxel is not None:
            s += " max-elements %d;" % self.maxel
        if self.userord:
            s += " ordered-by user;"
        if not self.config and cfg_parent:
            s += " config false;"
        return s + self.common() + " }\n"


class SContainer(SNode):
    kind = "container"

    def __init__(self, name, children, presence=False, **kw):
        super().__init__(name, **kw)
        self.children = children
        self.presence = presence
        for c in children:
            c.parent = self

    def yang(self, ind, cfg_parent=True):
        s = "%scontainer %s {" % (ind, self.name)
        if self.presence:
            s += ' presence "p";'
        if not self.config and cfg_parent:
            s += " config false;"
        s += self.common() + "\n"
        for c in self.children:
            s += c.yang(ind + "  ", cfg_parent and self.config)
        return s + ind + "}\n"


class SList(SNode):
    kind = "list"

    def __init__(self, name, keys, children, userord=False, minel=0, maxel=None, unique=None, **kw):
        super().__init__(name, **kw)
        self.keys = keys                 # names of key leaves ([] = keyless, state only)
        self.children = children
        self.userord = userord
        self.minel = minel
        self.maxel = maxel
        self.unique = unique             # list of leaf names
        for c in children:
            c.parent = self
            if c.name in keys:
                c.is_key = True

    def yang(self, ind, cfg_parent=True):
        s = "%slist %s {" % (ind, self.name)
        if self.keys:
            s += ' key "%s";' % " ".join(self.keys)
        if self.unique:
            s += ' unique "%s";' % " ".join(self.unique)
        if self.minel:
            s += " min-elements %d;" % self.minel
        if self.maxel is not None:
            s += " max-elements %d;" % self.maxel
        if self.userord:
            s += " ordered-by user;"
        if not self.config and cfg_parent:
            s += " config false;"
        s += self.common() + "\n"
        for c in self.children:
            s += c.yang(ind + "  ", cfg_parent and self.config)
        return s + ind + "}\n"


class SChoice(SNode):
    kind = "choice"

    def __init__(self, name, cases, default=None, mandatory=False, **kw):
        super().__init__(name, **kw)
        self.cases = cases               # list of (case name, [nodes])
        self.default = default
        self.mandatory = mandatory
        for _, ns in cases:
            for c in ns:
                c.parent = self

    def yang(self, ind, cfg_parent=True):
        s = "%schoice %s {" % (ind, self.name)
        if self.default:
            s += " default %s;" % self.default
        if self.mandatory:
            s += " mandatory true;"
        s += self.common() + "\n"
        for cn, ns in self.cases:
            s += "%s  case %s {\n" % (ind, cn)
            for c in ns:
                s += c.yang(ind + "    ", cfg_parent)
            s += "%s  }\n" % ind
        return s + ind + "}\n"


def yang_dq(s):
    return s.replace("\\", "\\\\").replace('"', '\\"').replace("\n", "\\n").replace("\t", "\\t")


class Module:
    def __init__(self, name, nodes, augments=None, imports=None, features=(), rpcs=(), notifs=(), annotations=()):
        self.name = name
        self.ns = "urn:verif:" + name
        self.prefix = name
        self.nodes = nodes
        self.augments = augments or []      # list of (target path text, [nodes], target SNode)
        self.imports = imports or []
        self.features = list(features)
        self.rpcs = list(rpcs)              # (name, [input nodes], [output nodes])
        self.notifs = list(notifs)          # (name, [nodes])
        self.annotations = list(annotations)
        for n in self.all_nodes():
            n.module = self

    def all_nodes(self):
        out = []

        def rec(n):
            out.append(n)
            if n.kind in ("container", "list"):
                for c in n.children:
                    rec(c)
            elif n.kind == "choice":
                for _, ns in n.cases:
                    for c in ns:
                        rec(c)
        for n in self.nodes:
            rec(n)
        for _, ns, _ in self.augments:
            for n in ns:
                rec(n)
        for _, i, o in self.rpcs:
            for n in i + o:
                rec(n)
        for _, ns in self.notifs:
            for n in ns:
                rec(n)
        return out

    def yang(self):
        s = 'module %s {\n  yang-version 1.1;\n  namespace "%s";\n  prefix %s;\n' % (self.name, self.ns, self.prefix)
        for i in self.imports:
            s += "  import %s { prefix %s; }\n" % (i, i)
        if self.annotations:
            s += "  import ietf-yang-metadata { prefix md; }\n"
        for f in self.features:
            s += "  feature %s;\n" % f
        for a in self.annotations:
            s += "  md:annotation %s { type string; }\n" % a
        for n in self.nodes:
            s += n.yang("  ")
        for path, ns, _ in self.augments:
            s += '  augment "%s" {\n' % path
            for n in ns:
                s += n.yang("    ")
            s += "  }\n"
        for name, i, o in self.rpcs:
            s += "  rpc %s {\n    input {\n" % name
            for n in i:
                s += n.yang("      ")
            s += "    }\n    output {\n"
            for n in o:
                s += n.yang("      ")
            s += "    }\n  }\n"
        for name, ns in self.notifs:
            s += "  notification %s {\n" % name
            for n in ns:
                s += n.yang("    ")
            s += "  }\n"
        return s + "}\n"


# ------------------------------------------------------------------------------------------------
# adversarial identifier shapes (opt-in: SchemaGen(names="adv") / SchemaGen(names=AdvNames(...)))
# ------------------------------------------------------------------------------------------------
class AdvNames:
    """node names drawn from families that stress name scanning in paths / XPath / printers: names that are prefixes of
    each other continued with '-', '.', '_', digits or letters; XPath / YANG keywords, operator, axis, node-type and
    function names; every legal identifier character; very long names; names differing only in case; number look-alikes.
    Every name is handed out once per object (pass `taken` = names of another module to force equal local names there)."""
    BASES = ["port", "if", "a", "x", "id", "k", "and", "or", "not", "mod", "div", "e", "name", "text", "_"]
    CONT = ["-id", ".v4", "_x", "2", "x", "-", ".", "_", "0", "-1", ".5", "e5", "E-1", "--", "..", "-and", "-or-", ".mod", "-div-x",
            "A", "Z9", "_._", "-.", "id"]
    KEYWORDS = ["and", "or", "not", "div", "mod", "text", "node", "comment", "processing-instruction", "current", "count",
                "position", "last", "true", "false", "min", "max", "key", "value", "deref", "derived-from", "derived-from-or-self",
                "re-match", "enum-value", "bit-is-set", "string", "number", "boolean", "contains", "concat", "id", "lang", "name",
                "local-name", "namespace-uri", "sum", "floor", "self", "parent", "child", "ancestor", "descendant", "following",
                "attribute", "input", "output", "config", "module", "type", "leaf", "leaf-list", "list", "container", "choice",
                "case", "rpc", "action", "notification", "anydata", "augment", "when", "must", "NaN", "Infinity", "inf", "null",
                "e", "E", "_", "__", "_1", "_-", "_.", "o", "r"]
    ALLCHARS = ["_aZ09.-_", "A.b-c_d", "Z_9-.", "a.-_.-", "q0.0", "w-0-", "abcdefghijklmnopqrstuvwxyzABCDEFGHIJKLMNOPQRSTUVWXYZ0123456789_-."]
    LONG = ["L" + "o" * 61 + "ng", "L" + "o" * 62 + "ng", "L" + "o" * 253 + "g", "L" + "o" * 254 + "g", "n" * 300, "m" + "-x" * 520,
            "L" + "o" * 61 + "ng-x", "L" + "o" * 61 + "ng.1"]

    def __init__(self, taken=(), prob=0.9, reuse=()):
        self.used = set(taken)
        self.prob = prob
        self.reuse = list(reuse)          # names handed out first (e.g. local names of another module)

    def _cands(self, rng):
        r = rng.random()
        used = sorted(self.used)
        if r < 0.12 and self.reuse:
            return [self.reuse.pop(rng.randrange(len(self.reuse)))]
        if r < 0.45 and used:
            # continuation of / proper prefix of / case variant of a name already in use
            b = rng.choice(used)[:40]
            out = [b + c for c in rng.sample(self.CONT, 3)]
            if len(b) > 1:
                cut = b[:rng.randrange(1, len(b))].rstrip("-.") or b[0]
                out.append(cut)
            out += [b.upper(), b.capitalize(), b.swapcase()]
            rng.shuffle(out)
            return out
        if r < 0.6:
            return [rng.choice(self.BASES) + rng.choice(self.CONT + [""])]
        if r < 0.85:
            return rng.sample(self.KEYWORDS, 3)
        if r < 0.93:
            return rng.sample(self.ALLCHARS, 2)
        return rng.sample(self.LONG, 2)

    def pick(self, rng, p, n):
        if rng.random() < self.prob:
            for _ in range(4):
                for c in self._cands(rng):
                    if c and c not in self.used and (c[0].isalpha() or c[0] == "_") and not c.lower().startswith("xml"):
                        self.used.add(c)
                        return c
        c = "%s%d" % (p, n)
        while c in self.used:
            c += "_"
        self.used.add(c)
        return c


# ------------------------------------------------------------------------------------------------
# random schema
# ------------------------------------------------------------------------------------------------
class SchemaGen:
    def __init__(self, rng, adversarial=False, state=True, userord=True, constraints=True, defaults=True, choices=True,
                 key_filter=None, names=None, key_shuffle=False):
        # key_filter: optional predicate on a Type; list key types and leaf-list types are redrawn until it holds
        # (None: no restriction, same random stream as before the parameter existed)
        self.key_filter = key_filter
        # names: None = <kind letters><counter> (k1, lf2, ...); "adv" or an AdvNames object = adversarial identifier shapes
        # key_shuffle: order of the names in  key "..."  shuffled relative to the order of the key leaves
        # (both opt-in; with the defaults no extra random numbers are drawn)
        self.names = AdvNames() if names == "adv" else names
        self.key_shuffle = key_shuffle
        self.rng = rng
        self.n = 0
        self.adv = adversarial
        self.state = state
        self.userord = userord
        self.constraints = constraints
        self.defaults = defaults
        self.choices = choices

    def nm(self, p):
        self.n += 1
        if self.names is not None:
            return self.names.pick(self.rng, p, self.n)
        return "%s%d" % (p, self.n)

    def leaf(self, config=True, allow_mand=True):
        rng = self.rng
        t = rand_type(rng, adversarial=self.adv)
        default = None
        mand = False
        if self.defaults and rng.random() < 0.35 and not isinstance(t, TEmpty):
            default = t.valid(rng)
            if isinstance(t, TString) and self.adv:
                default = "".join(ch for ch in default if ch not in "\n\t")
        elif self.constraints and allow_mand and rng.random() < 0.15:
            mand = True
        return SLeaf(self.nm("lf"), t, default=default, mandatory=mand, config=config)

    def leaflist(self, config=True):
        rng = self.rng
        t = rand_type(rng, key=True, adversarial=self.adv)
        while self.key_filter and not self.key_filter(t):
            t = rand_type(rng, key=True, adversarial=self.adv)
        userord = self.userord and rng.random() < 0.4
        defaults = []
        minel, maxel = 0, None
        r = rng.random()
        if self.defaults and r < 0.25:
            vals = []
            for _ in range(rng.randrange(1, 3)):
                v = t.valid(rng)
                if v not in vals and "\n" not in v and "\t" not in v:
                    vals.append(v)
            defaults = vals
        elif self.constraints and r < 0.4:
            minel = rng.choice([0, 1, 2])
            maxel = rng.choice([None, 2, 3, 4])
            if maxel is not None and maxel < minel:
                maxel = minel
        return SLeafList(self.nm("ll"), t, defaults=defaults, minel=minel, maxel=maxel, userord=userord, config=config)

    def nodes(self, depth, config=True, count=None, in_case=False):
        rng = self.rng
        out = []
        for _ in range(count if count is not None else rng.randrange(2, 5)):
            r = rng.random()
            if r < 0.35 or depth <= 0:
                out.append(self.leaf(config, allow_mand=not in_case))
            elif r < 0.5:
                out.append(self.leaflist(config))
            elif r < 0.68:
                cfg = config and not (self.state and rng.random() < 0.15)
                out.append(SContainer(self.nm("c"), self.nodes(depth - 1, cfg), presence=rng.random() < 0.35, config=cfg))
            elif r < 0.88:
                out.append(self.list(depth, config))
            elif self.choices:
                out.append(self.choice(depth, config))
            else:
                out.append(self.leaf(config))
        return out

    def list(self, depth, config=True):
        rng = self.rng
        cfg = config and not (self.state and rng.random() < 0.15)
        keyless = (not cfg) and rng.random() < 0.4
        nkeys = 0 if keyless else rng.choice([1, 1, 2])
        keys = []
        children = []
        for _ in range(nkeys):
            t = rand_type(rng, key=True, adversarial=self.adv)
            while isinstance(t, (TEmpty,)) or (self.key_filter and not self.key_filter(t)):
                t = rand_type(rng, key=True, adversarial=self.adv)
            k = SLeaf(self.nm("k"), t, config=cfg)
            keys.append(k.name)
            children.append(k)
        children += self.nodes(depth - 1, cfg, count=rng.randrange(1, 4))
        if self.key_shuffle and len(keys) > 1:
            rng.shuffle(keys)
        unique = None
        minel, maxel = 0, None
        if self.constraints and cfg and rng.random() < 0.3:
            cands = [c.name for c in children if c.kind == "leaf" and c.name not in keys and not isinstance(c.type, TEmpty)]
            if cands:
                unique = [rng.choice(cands)]
        if self.constraints and rng.random() < 0.3:
            minel = rng.choice([0, 1])
            maxel = rng.choice([None, 2, 3])
        return SList(self.nm("l"), keys, children, userord=(self.userord and bool(keys) and rng.random() < 0.35), minel=minel,
                     maxel=maxel, unique=unique, config=cfg)

    def choice(self, depth, config=True):
        rng = self.rng
        cases = []
        r = rng.random()
        want_default = self.defaults and r < 0.4
        mand = (not want_default) and self.constraints and r < 0.55
        saved = self.constraints
        if want_default:
            self.constraints = False      # a default case must not contain mandatory nodes
        for _ in range(rng.randrange(2, 4)):
            cases.append((self.nm("cs"), self.nodes(depth - 1, config, count=rng.randrange(1, 3), in_case=True)))
        self.constraints = saved
        default = rng.choice(cases)[0] if want_default else None
        return SChoice(self.nm("ch"), cases, default=default, mandatory=mand)

    def module(self, name="m1", depth=3):
        nodes = self.nodes(depth, count=self.rng.randrange(3, 6))
        return Module(name, nodes, annotations=["note"])


# ------------------------------------------------------------------------------------------------
# instances
# ------------------------------------------------------------------------------------------------
class DNode:
    """instance node: schema + value (terms) or children (inner); meta = list of (module, name, value)"""

    def __init__(self, schema, value=None, children=None, meta=None):
        self.schema = schema
        self.value = value
        self.children = children if children is not None else []
        self.meta = meta or []

    def clone(self):
        return DNode(self.schema, self.value, [c.clone() for c in self.children], list(self.meta))


def flatten_children(nodes):
    """schema children in schema order with choices expanded: yields (node, choice_path) where choice_path is a
    tuple of (choice, case name) the node lives under"""
    out = []

    def rec(ns, path):
        for n in ns:
            if n.kind == "choice":
                for cn, cns in n.cases:
                    rec(cns, path + ((n, cn),))
            else:
                out.append((n, path))
    rec(nodes, ())
    return out


class InstGen:
    def __init__(self, rng, explicit_default_prob=0.3, meta_prob=0.05, max_inst=4):
        self.rng = rng
        self.edp = explicit_default_prob
        self.meta_prob = meta_prob
        self.max_inst = max_inst

    def maybe_meta(self, n):
        if self.rng.random() < self.meta_prob:
            n.meta.append(("m1", "note", gens.yang_string(self.rng, 5).decode("utf-8", "replace")))
        return n

    def term(self, s, value=None):
        return self.maybe_meta(DNode(s, s.type.valid(self.rng) if value is None else value))

    def children_of(self, schema_children, config_only=False, depth=4):
        """valid-by-construction children for a parent with the given schema children"""
        rng = self.rng
        out = []
        # select one case per choice
        selected = {}

        def pick(ns, must):
            for n in ns:
                if n.kind == "choice":
                    if n.mandatory or must or rng.random() < 0.6:
                        cn, cns = rng.choice(n.cases)
                        selected[id(n)] = cn
                        pick(cns, must or n.mandatory)
                    else:
                        selected[id(n)] = None
        pick(schema_children, False)
        flat = [(n, path) for n, path in flatten_children(schema_children)
                if all(selected.get(id(ch)) == cn for ch, cn in path) and not (config_only and not n.config)]
        # every mandatory choice needs at least one instantiated node: force the first candidate under it
        forced_ids = set()
        for n, path in flat:
            for ch, cn in path:
                if ch.mandatory and not any(id(ch) == fid for fid, _ in forced_ids):
                    forced_ids.add((id(ch), id(n)))
        forced_nodes = {nid for _, nid in forced_ids}
        for n, path in flat:
            out += self.instances(n, depth, id(n) in forced_nodes)
        return out

    def instances(self, n, depth, forced=False):
        rng = self.rng
        if n.kind == "leaf":
            if n.is_key:
                return []       # keys are created by the list
            if n.mandatory or forced or rng.random() < 0.6:
                if n.default is not None and rng.random() < self.edp:
                    return [self.term(n, n.default)]
                return [self.term(n)]
            return []
        if n.kind == "leaf-list":
            lo = n.minel
            hi = n.maxel if n.maxel is not None else self.max_inst
            cnt = rng.randint(lo, max(lo, hi)) if (forced or lo or rng.random() < 0.7) else 0
            if forced and cnt == 0:
                cnt = 1
            vals = []
            tries = 0
            while len(vals) < cnt and tries < 50:
                tries += 1
                v = n.type.valid(rng)
                if n.config and v in vals:
                    continue
                vals.append(v)
            if len(vals) < lo:
                return None if False else [self.term(n, v) for v in vals]
            if not n.userord and n.config:
                vals = sorted(vals, key=n.type.sort_key)
            elif not n.userord:
                vals = sorted(vals, key=n.type.sort_key)
            return [self.term(n, v) for v in vals]
        if n.kind == "container":
            if n.presence:
                if forced or rng.random() < 0.5:
                    return [self.maybe_meta(DNode(n, children=self.children_of(n.children, depth=depth - 1)))]
                return []
            ch = self.children_of(n.children, depth=depth - 1)
            # a non-presence container exists only when it has content (libyang creates implicit ones itself)
            tries = 0
            while forced and not ch and tries < 10:
                tries += 1
                ch = self.children_of(n.children, depth=depth - 1)
            if forced and not ch:
                flat = flatten_children(n.children)
                if flat:
                    ch = self.instances(flat[0][0], depth - 1, True)
            if ch:
                return [self.maybe_meta(DNode(n, children=ch))]
            return []
        if n.kind == "list":
            lo = n.minel
            hi = n.maxel if n.maxel is not None else self.max_inst
            cnt = rng.randint(lo, max(lo, hi)) if (forced or lo or rng.random() < 0.7) else 0
            if depth <= 0:
                cnt = lo
            if forced and cnt == 0:
                cnt = 1
            insts = []
            seen_keys = set()
            seen_unique = set()
            tries = 0
            while len(insts) < cnt and tries < 60:
                tries += 1
                keyvals = tuple(c.type.valid(rng) for c in n.children if c.name in n.keys)
                if n.keys and keyvals in seen_keys:
                    continue
                ch = [DNode(c, kv) for c, kv in zip([c for c in n.children if c.name in n.keys], keyvals)]
                rest = self.children_of([c for c in n.children if c.name not in n.keys], depth=depth - 1)
                if n.unique:
                    uv = tuple(next((x.value for x in rest if x.schema.name == u), self._dflt(n, u)) for u in n.unique)
                    if None not in uv:
                        if uv in seen_unique:
                            continue
                        seen_unique.add(uv)
                seen_keys.add(keyvals)
                insts.append((keyvals, self.maybe_meta(DNode(n, children=ch + rest))))
            if not n.userord and n.keys:
                keytypes = [c.type for c in n.children if c.name in n.keys]
                insts.sort(key=lambda kv: tuple(t.sort_key(v) for t, v in zip(keytypes, kv[0])))
            return [i for _, i in insts]
        return []

    @staticmethod
    def _dflt(lst, leafname):
        for c in lst.children:
            if c.name == leafname:
                return c.default
        return None

    def forest(self, mod, config_only=False):
        return self.children_of(mod.nodes, config_only=config_only)


# ------------------------------------------------------------------------------------------------
# encoders (independent of libyang)
# ------------------------------------------------------------------------------------------------
def to_xml(forest, parent_mod=None, meta_ns=None):
    out = []
    for n in forest:
        s = n.schema
        attrs = ""
        if s.module is not parent_mod:
            attrs += ' xmlns="%s"' % s.module.ns
        for mm, mn, mv in n.meta:
            attrs += ' xmlns:%s="urn:verif:%s" %s:%s="%s"' % (mm, mm, mm, mn, xml_attr(mv))
        if s.kind in ("leaf", "leaf-list"):
            if isinstance(s.type, TEmpty) or n.value == "":
                out.append("<%s%s/>" % (s.name, attrs))
            else:
                out.append("<%s%s>%s</%s>" % (s.name, attrs, xml_text(n.value), s.name))
        else:
            out.append("<%s%s>%s</%s>" % (s.name, attrs, to_xml(n.children, s.module), s.name))
    return "".join(out)


def _int_matches(t, v):
    try:
        n = int(v)
    except ValueError:
        return False
    if str(n) != v:
        return False
    lo, hi = INT_BOUNDS[t.name]
    if not lo <= n <= hi:
        return False
    return not t.ranges or any(a <= n <= b for a, b in t.ranges)


def _json_val(t, v):
    if isinstance(t, TUnion):
        # RFC 7951 6.10: the value is encoded according to the member type it is an instance of
        for m in t.members:
            if isinstance(m, TInt) and _int_matches(m, v):
                return _json_val(m, v)
            if isinstance(m, TEnum) and v in dict(m.names):
                return v
            if isinstance(m, TBool) and v in ("true", "false"):
                return v == "true"
            if isinstance(m, TString):
                return v
        return v
    k = t.json_kind
    if k == "number":
        return int(v)
    if k == "bool":
        return v == "true"
    if k == "empty":
        return [None]
    return v


def to_json_obj(forest, parent_mod=None):
    obj = {}
    for n in forest:
        s = n.schema
        name = s.name if s.module is parent_mod else "%s:%s" % (s.module.name, s.name)
        if s.kind == "leaf":
            obj[name] = _json_val(s.type, n.value)
            if n.meta:
                obj["@" + name] = {"%s:%s" % (mm, mn): mv for mm, mn, mv in n.meta}
        elif s.kind == "leaf-list":
            obj.setdefault(name, []).append(_json_val(s.type, n.value))
            if n.meta or ("@" + name) in obj:
                arr = obj.setdefault("@" + name, [])
                while len(arr) < len(obj[name]) - 1:
                    arr.append(None)
                arr.append({"%s:%s" % (mm, mn): mv for mm, mn, mv in n.meta} if n.meta else None)
        elif s.kind == "container":
            o = to_json_obj(n.children, s.module)
            if n.meta:
                o["@"] = {"%s:%s" % (mm, mn): mv for mm, mn, mv in n.meta}
            obj[name] = o
        elif s.kind == "list":
            o = to_json_obj(n.children, s.module)
            if n.meta:
                o["@"] = {"%s:%s" % (mm, mn): mv for mm, mn, mv in n.meta}
            obj.setdefault(name, []).append(o)
    return obj


def to_json(forest):
    return _json.dumps(to_json_obj(forest), ensure_ascii=False)


def count_nodes(forest):
    return sum(1 + count_nodes(n.children) for n in forest)


def walk(forest, path=()):
    for i, n in enumerate(forest):
        yield n, forest, i
        yield from walk(n.children)


# ------------------------------------------------------------------------------------------------
# deriving a second instance that shares structure with the first (for diff / merge)
# ------------------------------------------------------------------------------------------------
def _units(schema_children):
    """top-level units of a parent's schema: a choice (with everything below it) is one unit"""
    return list(schema_children)


def _unit_members(u):
    if u.kind == "choice":
        return {id(n) for n, _ in flatten_children([u])}
    return {id(u)}


def cross(rng, a, b, schema_children):
    """mix two valid sibling lists over the same schema so that the result is valid again: per schema unit take A's or
    B's instances, or recurse into containers / list entries with equal keys; user-ordered instances get shuffled"""
    out = []
    for u in _units(schema_children):
        mem = _unit_members(u)
        ia = [n for n in a if id(n.schema) in mem]
        ib = [n for n in b if id(n.schema) in mem]
        r = rng.random()
        if u.kind == "container" and ia and ib and r < 0.5:
            c = ia[0].clone()
            c.children = cross(rng, ia[0].children, ib[0].children, u.children)
            if c.children or u.presence:
                out.append(c)
            continue
        if u.kind == "list" and u.keys and ia and ib and not u.unique and u.maxel is None and r < 0.6:
            keyof = lambda n: tuple(c.value for c in n.children if c.schema.name in u.keys)  # noqa: E731
            bk = {keyof(n): n for n in ib}
            res = []
            for n in ia:
                k = keyof(n)
                if k in bk and rng.random() < 0.7:
                    c = n.clone()
                    keys = [x for x in c.children if x.schema.name in u.keys]
                    rest_a = [x for x in n.children if x.schema.name not in u.keys]
                    rest_b = [x for x in bk[k].children if x.schema.name not in u.keys]
                    c.children = keys + cross(rng, rest_a, rest_b, [x for x in u.children if x.name not in u.keys])
                    res.append(c)
                elif rng.random() < 0.7:
                    res.append(n.clone())
            have = {keyof(n) for n in res}
            for n in ib:
                if keyof(n) not in have and rng.random() < 0.4:
                    res.append(n.clone())
            if len(res) < u.minel:
                res = [n.clone() for n in ia]
            if u.userord:
                rng.shuffle(res)
            out += res
            continue
        if u.kind == "leaf-list" and u.userord and ia and r < 0.6:
            res = [n.clone() for n in ia if rng.random() < 0.8]
            vals = {n.value for n in res}
            for n in ib:
                if n.value not in vals and rng.random() < 0.5:
                    res.append(n.clone())
                    vals.add(n.value)
            if len(res) < u.minel or (u.maxel is not None and len(res) > u.maxel):
                res = [n.clone() for n in ia]
            rng.shuffle(res)
            out += res
            continue
        src = ia if r < 0.5 else ib
        out += [n.clone() for n in src]
    return out
