/* t_conc.c - driver of slice conc (property C16: one context can be shared by concurrent readers).
 *
 * One case per line (TAB separated):
 *
 *   conc <nthr> <reps> <flags> <shared> <ndocs> <doc>*ndocs <ops of thread 0> ... <ops of thread nthr-1>
 *
 *   <doc>     x:<hex> (XML) or j:<hex> (JSON) data of modules cc/cd (below). Every document that parses in the
 *             process-wide preparation context is also kept as LYB (printed there, so that no cache of the context
 *             under test is filled by the conversion).
 *   <shared>  index of the document whose LYB form is parsed by the main thread into the ONE SHARED tree before the
 *             threads start (canonical strings of bits/binary/date-and-time/ip values are then not cached yet), or -1
 *   <flags>   letters: w = warm (main thread prints the shared tree as XML and JSON before the threads start, so all lazily
 *             cached canonical strings exist), p = prime (every thread first logs one error, cleans it and waits for
 *             the others: all per-thread error records exist before the workloads start), f = forced schedule (no
 *             common start barrier; the order is given by the W/N/H/Z operations), v = also print the results of the E
 *             operations of the concurrent run (res=<thread>:<noerr|e<items>>,...;...), - = none
 *   <ops>     comma separated operations of one thread (string arguments in hex):
 *       Px<i> Pj<i> Pl<i>  parse document i (XML / JSON / its LYB form) into an OWN tree with validation; when it parses:
 *                    print it in the three formats, re-parse the LYB, compare, XPath queries, duplicate, edit, diff, apply
 *                    diff, compare, validate, free everything. When it fails: the error records are read
 *       Q<f><i>:<p>:<v>:<r>  parse document i (f = x / j / l) with parse options p and validation options v (decimal), when it
 *                    parses print it as XML and JSON with printer options r; then the thread's error records are read
 *       G<n>:<f><i>:<p>     n times: parse document i with parse options p (no validation options), free it; result of the
 *                    first round and the number of rounds that gave something else
 *       K<n>:<f><i>  n times: parse document i (strict, validated; meant for invalid documents), read the error records
 *                    (code, message, path), clean them; result of the first round and the number of rounds that differ
 *       U<n>:<f><i>  parse document i (strict, validated), then n times: duplicate the tree, compare, every second round diff and
 *                    every third round merge into another copy, free the copies; number of rounds that failed
 *       T<v> T-      ly_temp_log_options(): this thread overrides the logging options with v (decimal) / ends the override
 *       E            read ly_err_last() and ly_err_first() of this thread now
 *       C            ly_err_clean(ctx, NULL)
 *       I<s> R<s> D<s>     lydict_insert / lydict_remove (only of a reference this thread holds) / lydict_dup
 *       F<path>      lys_find_path
 *       Y<k>         lys_print_mem of module cc (k even) or cd (k odd) as YANG, YIN, tree, compiled YANG (k/2 mod 4)
 *       Sx Sj Sl     print the shared tree (XML / JSON / LYB)
 *       Sf<path> Sq<xpath> Sv<xpath>   lyd_find_path / lyd_find_xpath / lyd_eval_xpath on the shared tree
 *       Sc           lyd_compare_siblings of the shared tree against a private copy (parsed from the same LYB)
 *       W<k> N       wait until the case-wide sequence counter is >= k (at most 4 s; a run in which a wait timed out is
 *                    repeated, at most twice) / increment it
 *       H<k>         arm: at this thread's next unlock of ctx->lyb_hash_lock increment the counter, wait until it is >= k,
 *                    then report whether the error table arena (err_ht->recs) was reallocated meanwhile (informational:
 *                    the records themselves are separate heap cells since 75f292f). While the thread waits, a free() of
 *                    that arena by libyang zeroes and keeps the memory (release build only, see __wrap_free): code that
 *                    still used a pointer into the arena would deterministically lose the thread's errors
 *       Z<k>         arm: at this thread's next call of lydict_insert_zc increment the counter and wait until it is >= k
 *     Every thread ends with ly_err_clean(), releases the dictionary references it still holds and frees its trees.
 *
 * The workloads are run <reps> times CONCURRENTLY (all threads on one fresh context, released together by a barrier)
 * and once ALONE (every thread's workload in a thread of its own on a fresh context with a fresh shared tree); the per
 * operation results (return codes, FNV hashes of printed output, paths, error code/message/path/apptag) must be equal.
 *
 * Output (one line; HANG when a case does not finish within 20 s, 25 s under ThreadSanitizer):
 *   ok | DIFF r<rep>t<thread>o<op>:<op text>:<concurrent>!=<alone>
 *   dict=<strings after setup>:<strings after everything of the last rep was freed>
 *   leak=<not-freed warnings>:<of them: cached canonical strings of shared-tree values (case not warm)>
 *   lock=<table accesses checked>:<accesses without the table's lock held>   (dict.hash_tab under dict.lock, err_ht under
 *        lyb_hash_lock; recorded by the --wrap wrappers below)
 *   glob=ok | <what>   process-wide and per-context state after the concurrent runs against what the case set at its start:
 *        ly_log_options() round trip, ly_log_level(), log callback, the main thread's ly_temp_log_options(), context options
 *        and change count
 *   refs=ok | <leaf>:<before>-><after>   reference counts of all compiled types of the shared schema after the threads were
 *        joined (all private trees freed) against their values before the threads started
 *   pok=<parse operations that gave a valid tree and passed the whole pipeline, alone>/<parse operations>
 *   dangling=<times the H hook saw the arena reallocated between ly_err_get_rec()'s unlock and the caller's use of the
 *        record (informational)>
 *   res=...  (flag v)    left=<hex>  (the first strings left in the dictionary)
 *   tsan=<n>[|kind~frames of stack 1/frames of stack 2]*   (ThreadSanitizer build only; reports parsed from stderr)
 *
 * VERIF_FLAGS: -Wl,--wrap=pthread_mutex_lock -Wl,--wrap=pthread_mutex_unlock -Wl,--wrap=lyht_find -Wl,--wrap=lyht_insert -Wl,--wrap=lyht_insert_with_resize_cb -Wl,--wrap=lyht_remove_with_resize_cb -Wl,--wrap=lyht_remove -Wl,--wrap=lydict_insert_zc -Wl,--wrap=free
 */
#include "common.h"

#include <errno.h>
#include <fcntl.h>
#include <pthread.h>
#include <signal.h>
#include <time.h>
#include <unistd.h>

#include "libyang.h"
#include "ly_common.h"
#include "hash_table_internal.h"
#include "dict.h"

#if defined(__has_feature)
# if __has_feature(thread_sanitizer)
#  define CONC_TSAN 1
# endif
#endif
#if defined(__SANITIZE_THREAD__) && !defined(CONC_TSAN)
# define CONC_TSAN 1
#endif

#define MAXTHR 16
#define MAXOPS 256
#define MAXDOCS 64
#define RESLEN 96

static const char *MOD_CC =
        "module cc {yang-version 1.1; namespace \"urn:cc\"; prefix cc;"
        " import ietf-yang-types {prefix yang;} import ietf-inet-types {prefix inet;}"
        " identity base-id; identity id-a {base base-id;} identity id-b {base base-id;} identity id-c {base id-a;}"
        " typedef flags {type bits {bit b0; bit b1; bit b2; bit b3 {position 9;} bit long-bit-name;}}"
        " container top {"
        "  leaf fl {type flags;}"
        "  leaf bin {type binary {length \"0..40\";}}"
        "  leaf idr {type identityref {base base-id;}}"
        "  leaf un {type union {type int8; type flags; type binary {length 4;} type string {length \"0..6\";}}}"
        "  leaf dec {type decimal64 {fraction-digits 3; range \"-100..100\";}}"
        "  leaf dt {type yang:date-and-time;}"
        "  leaf ip4 {type inet:ipv4-address;}"
        "  leaf ip6 {type inet:ipv6-address-no-zone;}"
        "  leaf pfx {type inet:ipv6-prefix;}"
        "  leaf i32 {type int32 {range \"0..1000\";} default 7;}"
        "  leaf str {type string {length \"1..10\"; pattern \"[a-z]*\";}}"
        "  leaf lim {type int8; must \". <= ../i32\" {error-message \"lim above i32\"; error-app-tag \"lim-tag\";}}"
        "  leaf-list ll {type uint16; ordered-by user;}"
        "  leaf-list sl {type flags;}"
        "  list item {key \"name\"; leaf name {type string;} leaf val {type flags;} leaf bin {type binary;}"
        "   leaf when {type yang:date-and-time;} leaf ref {type leafref {path \"../../i32\";}}}"
        " }"
        "}";

static const char *MOD_CD =
        "module cd {yang-version 1.1; namespace \"urn:cd\"; prefix cd; import cc {prefix cc;}"
        " container other {leaf x {type cc:flags;} leaf y {type binary;} leaf z {type identityref {base cc:base-id;}}"
        "  leaf-list n {type int32;} container inner {presence \"p\"; leaf q {type empty;}}}"
        " augment \"/cc:top\" {leaf aug {type enumeration {enum one; enum two;}}}"
        "}";

/* values whose types reference shared schema objects: instance-identifiers with key / leaf-list predicates (compiled
 * paths hold values of the key types and a reference on each type), leafrefs, a union with an instance-identifier member,
 * identityrefs, bits and enumeration keys, decimal64, patterns and ranges */
static const char *MOD_CE =
        "module ce {yang-version 1.1; namespace \"urn:ce\"; prefix ce; import cc {prefix cc;}"
        " typedef k1t {type string {length \"1..8\"; pattern \"[a-z]+\";}}"
        " container box {"
        "  list l {key \"k1 k2\"; leaf k1 {type k1t;} leaf k2 {type uint8 {range \"0..200\";}}"
        "   leaf v {type decimal64 {fraction-digits 2; range \"-10..10\";}} leaf e {type enumeration {enum red; enum green;}}}"
        "  list m {key \"id\"; leaf id {type cc:flags;} leaf w {type identityref {base cc:base-id;}}}"
        "  list en {key \"c\"; leaf c {type enumeration {enum red; enum green; enum blue;}} leaf d {type empty;}}"
        "  leaf-list ll {type int16 {range \"-50..50\";}}"
        "  leaf-list idl {type identityref {base cc:base-id;}}"
        "  leaf-list iid {type instance-identifier {require-instance false;}}"
        "  leaf iid1 {type instance-identifier;}"
        "  leaf uiid {type union {type instance-identifier {require-instance false;} type uint8; type enumeration {enum none;}}}"
        "  leaf lr {type leafref {path \"../l/k1\";}}"
        "  leaf lr2 {type leafref {path \"../ll\"; require-instance false;}}"
        " }"
        "}";

/* ------------------------------------------------------------------------------------------------
 * case-wide state
 * ------------------------------------------------------------------------------------------------ */
struct doc {
    int json;
    char *text;
    char *lyb;          /* LYB form made in the preparation context, NULL when the document is invalid */
    size_t lyb_len;
};

static struct ly_ctx *prep_ctx;         /* process-wide, only used by the main thread between cases */
static struct ly_ctx *volatile g_ctx;   /* context under test (wrappers compare tables/locks against it) */
static struct lyd_node *g_shared;
static struct doc docs[MAXDOCS];
static int ndocs, shared_idx;
static int f_warm, f_prime, f_forced, f_verbose;
static int concurrent;                  /* 1 in the concurrent runs: sync operations and hooks are active */

static long lock_checked, lock_viol, dangling;          /* atomics */
static char lock_viol_where[160];
static int notfreed;
static char *notfreed_strs[64];

/* sequence counter of forced schedules */
static pthread_mutex_t seq_mx = PTHREAD_MUTEX_INITIALIZER;
static pthread_cond_t seq_cv = PTHREAD_COND_INITIALIZER;
static int seq;

static pthread_barrier_t start_bar;
static pthread_mutex_t prime_mx = PTHREAD_MUTEX_INITIALIZER;

/* per-thread */
static __thread void *held[16];
static __thread int nheld;
static __thread int arm_unlock = -1, arm_zc = -1;
static __thread int in_hook;

/* H hook: the arena of err_ht at the moment the armed thread left ly_err_get_rec(). Since /repo commit 75f292f the arena
 * only holds pointers to separately allocated records and nothing outside lyb_hash_lock may point into it. To keep a
 * regression of that fix visible on the release build, the arena is zeroed and kept (never given back to the allocator)
 * when libyang frees it during the hook: a use of a pointer into it then deterministically reads NULL (the thread's errors
 * are gone: DIFF against the run alone) instead of whatever the allocator left there. Correct code never reads the freed
 * arena, so the trick cannot hide anything from the result comparison; under ThreadSanitizer it is switched off */
static void *q_target;
static size_t q_size;
static long q_hits;

void __real_free(void *p);

void
__wrap_free(void *p)
{
#ifndef CONC_TSAN
    /* not under ThreadSanitizer: there the memory is really freed, so that a use of a pointer into it is reported as the
     * heap-use-after-free it is */
    if (p && (p == __atomic_load_n(&q_target, __ATOMIC_ACQUIRE))) {
        memset(p, 0, q_size);
        __atomic_store_n(&q_target, NULL, __ATOMIC_RELEASE);
        __atomic_add_fetch(&q_hits, 1, __ATOMIC_RELAXED);
        return;
    }
#endif
    __real_free(p);
}

int __real_pthread_mutex_lock(pthread_mutex_t *m);
int __real_pthread_mutex_unlock(pthread_mutex_t *m);

static void
seq_signal(void)
{
    __real_pthread_mutex_lock(&seq_mx);
    ++seq;
    pthread_cond_broadcast(&seq_cv);
    __real_pthread_mutex_unlock(&seq_mx);
}

static long seq_timeouts;

static void
seq_wait(int k)
{
    struct timespec ts;

    clock_gettime(CLOCK_REALTIME, &ts);
    ts.tv_sec += 4;
    __real_pthread_mutex_lock(&seq_mx);
    while (seq < k) {
        if (pthread_cond_timedwait(&seq_cv, &seq_mx, &ts) == ETIMEDOUT) {
            /* the forced schedule was not realised (a stalled machine, or the code under test now blocks at a hook) */
            ++seq_timeouts;
            break;
        }
    }
    __real_pthread_mutex_unlock(&seq_mx);
}

/* ------------------------------------------------------------------------------------------------
 * link-time wrappers: lock set of the calling thread, table accesses, schedule hooks
 * ------------------------------------------------------------------------------------------------ */
int
__wrap_pthread_mutex_lock(pthread_mutex_t *m)
{
    int r = __real_pthread_mutex_lock(m);

    if (!r && (nheld < 16)) {
        held[nheld++] = m;
    }
    return r;
}

int
__wrap_pthread_mutex_unlock(pthread_mutex_t *m)
{
    int r, i, hook;
    struct ly_ctx *ctx = g_ctx;
    void *arena = NULL;

    for (i = nheld - 1; i >= 0; --i) {
        if (held[i] == m) {
            held[i] = held[--nheld];
            break;
        }
    }
    hook = concurrent && ctx && (m == &ctx->lyb_hash_lock) && (arm_unlock >= 0) && !in_hook;
    if (hook) {
        arena = ctx->err_ht->recs;      /* still under the lock */
        q_size = (size_t)ctx->err_ht->size * ctx->err_ht->rec_size;
        __atomic_store_n(&q_target, arena, __ATOMIC_RELEASE);
    }
    r = __real_pthread_mutex_unlock(m);

    if (hook) {
        /* H<k>: the pointer returned by ly_err_get_rec() is now used without the lock */
        int k = arm_unlock;

        arm_unlock = -1;
        in_hook = 1;
        seq_signal();
        seq_wait(k);
        __real_pthread_mutex_lock(&ctx->lyb_hash_lock);
        if (ctx->err_ht->recs != arena) {
            __atomic_add_fetch(&dangling, 1, __ATOMIC_RELAXED);
        }
        __atomic_store_n(&q_target, NULL, __ATOMIC_RELEASE);
        __real_pthread_mutex_unlock(&ctx->lyb_hash_lock);
        in_hook = 0;
    }
    return r;
}

static int
holds(void *m)
{
    for (int i = 0; i < nheld; ++i) {
        if (held[i] == m) {
            return 1;
        }
    }
    return 0;
}

static void
check_access(const struct ly_ht *ht, const char *fn)
{
    struct ly_ctx *ctx = g_ctx;
    void *need = NULL;
    const char *tab = NULL;

    if (!ctx) {
        return;
    }
    if (ht == ctx->dict.hash_tab) {
        need = &ctx->dict.lock;
        tab = "dict.hash_tab";
    } else if (ht == ctx->err_ht) {
        need = &ctx->lyb_hash_lock;
        tab = "err_ht";
    } else {
        return;
    }
    __atomic_add_fetch(&lock_checked, 1, __ATOMIC_RELAXED);
    if (!holds(need)) {
        if (__atomic_add_fetch(&lock_viol, 1, __ATOMIC_RELAXED) == 1) {
            snprintf(lock_viol_where, sizeof lock_viol_where, "%s(%s)", fn, tab);
        }
    }
}

LY_ERR __real_lyht_find(const struct ly_ht *ht, void *val_p, uint32_t hash, void **match_p);
LY_ERR __real_lyht_insert(struct ly_ht *ht, void *val_p, uint32_t hash, void **match_p);
LY_ERR __real_lyht_insert_with_resize_cb(struct ly_ht *ht, void *val_p, uint32_t hash, lyht_value_equal_cb resize_val_equal,
        void **match_p);
LY_ERR __real_lyht_remove(struct ly_ht *ht, void *val_p, uint32_t hash);
LY_ERR __real_lyht_remove_with_resize_cb(struct ly_ht *ht, void *val_p, uint32_t hash, lyht_value_equal_cb resize_val_equal);
LY_ERR __real_lydict_insert_zc(const struct ly_ctx *ctx, char *value, const char **str_p);

LY_ERR
__wrap_lyht_find(const struct ly_ht *ht, void *val_p, uint32_t hash, void **match_p)
{
    check_access(ht, "lyht_find");
    return __real_lyht_find(ht, val_p, hash, match_p);
}

LY_ERR
__wrap_lyht_insert(struct ly_ht *ht, void *val_p, uint32_t hash, void **match_p)
{
    check_access(ht, "lyht_insert");
    return __real_lyht_insert(ht, val_p, hash, match_p);
}

LY_ERR
__wrap_lyht_insert_with_resize_cb(struct ly_ht *ht, void *val_p, uint32_t hash, lyht_value_equal_cb resize_val_equal,
        void **match_p)
{
    check_access(ht, "lyht_insert_with_resize_cb");
    return __real_lyht_insert_with_resize_cb(ht, val_p, hash, resize_val_equal, match_p);
}

LY_ERR
__wrap_lyht_remove(struct ly_ht *ht, void *val_p, uint32_t hash)
{
    check_access(ht, "lyht_remove");
    return __real_lyht_remove(ht, val_p, hash);
}

LY_ERR
__wrap_lyht_remove_with_resize_cb(struct ly_ht *ht, void *val_p, uint32_t hash, lyht_value_equal_cb resize_val_equal)
{
    check_access(ht, "lyht_remove_with_resize_cb");
    return __real_lyht_remove_with_resize_cb(ht, val_p, hash, resize_val_equal);
}

LY_ERR
__wrap_lydict_insert_zc(const struct ly_ctx *ctx, char *value, const char **str_p)
{
    if (concurrent && (ctx == g_ctx) && (arm_zc >= 0)) {
        /* Z<k>: the caller has already decided to insert (e.g. it saw value->_canonical == NULL) */
        int k = arm_zc;

        arm_zc = -1;
        seq_signal();
        seq_wait(k);
    }
    return __real_lydict_insert_zc(ctx, value, str_p);
}

/* ------------------------------------------------------------------------------------------------
 * helpers
 * ------------------------------------------------------------------------------------------------ */
static void
log_cb(LY_LOG_LEVEL level, const char *msg, const char *data_path, const char *schema_path, uint64_t line)
{
    (void)level; (void)data_path; (void)schema_path; (void)line;
    if (msg && strstr(msg, "not freed")) {
        /* only at ly_ctx_destroy(), main thread */
        const char *a = strchr(msg, '"'), *b = msg ? strrchr(msg, '"') : NULL;

        if ((notfreed < 64) && a && b && (b > a)) {
            notfreed_strs[notfreed] = strndup(a + 1, (size_t)(b - a - 1));
        }
        ++notfreed;
    }
}

static uint32_t
fnv(uint32_t h, const void *p, size_t n)
{
    const unsigned char *b = p;

    for (size_t i = 0; i < n; ++i) {
        h = (h ^ b[i]) * 16777619u;
    }
    return h;
}

static uint32_t
fnvs(uint32_t h, const char *s)
{
    if (!s) {
        return fnv(h, "\x01", 1);
    }
    return fnv(fnv(h, s, strlen(s)), "\0", 1);
}

#define FNV0 2166136261u

static struct ly_ctx *
new_ctx(void)
{
    struct ly_ctx *ctx = NULL;

    if (ly_ctx_new(NULL, LY_CTX_NO_YANGLIBRARY, &ctx)) {
        return NULL;
    }
    if (lys_parse_mem(ctx, MOD_CC, LYS_IN_YANG, NULL) || lys_parse_mem(ctx, MOD_CD, LYS_IN_YANG, NULL) ||
            lys_parse_mem(ctx, MOD_CE, LYS_IN_YANG, NULL)) {
        ly_ctx_destroy(ctx);
        return NULL;
    }
    return ctx;
}

/* hash of the error records of the calling thread: last (code, vecode, msg, paths, apptag) and first msg */
static void
err_token(struct ly_ctx *ctx, char *out, size_t n)
{
    const struct ly_err_item *l = ly_err_last(ctx), *f = ly_err_first(ctx);
    uint32_t h = FNV0;
    int cnt = 0;

    if (!l) {
        snprintf(out, n, "noerr");
        return;
    }
    for (const struct ly_err_item *e = f; e; e = e->next) {
        ++cnt;
    }
    h = fnvs(h, l->msg);
    h = fnvs(h, l->data_path);
    h = fnvs(h, l->schema_path);
    h = fnvs(h, l->apptag);
    h = fnvs(h, f ? f->msg : NULL);
    snprintf(out, n, "e%d.%d.%d.%08x", (int)l->err, (int)l->vecode, cnt, h);
}

struct thr {
    int idx;
    struct ly_ctx *ctx;
    struct lyd_node *shared;
    char *ops;                      /* writable copy */
    int nres;
    char res[MAXOPS][RESLEN];
    /* dictionary references held */
    int nheld_str;
    char *held_str[64];
    const char *held_ptr[64];
    struct lyd_node *copy;          /* private copy of the shared tree */
};

static uint32_t
hash_set(struct ly_set *set)
{
    uint32_t h = FNV0;

    for (uint32_t i = 0; i < set->count; ++i) {
        struct lyd_node *n = set->dnodes[i];
        char *p = lyd_path(n, LYD_PATH_STD, NULL, 0);

        h = fnvs(h, p);
        free(p);
        if (n->schema && (n->schema->nodetype & LYD_NODE_TERM)) {
            h = fnvs(h, lyd_get_value(n));
        }
    }
    return h;
}

static const char *OWN_XPATHS[] = {
    "/cc:top/*", "/cc:top/item[val='b0 b2']/name", "//*[. = 'id-a' or . = 'cc:id-a']", "/cc:top/ll[. > 10]",
    "/cc:top/item[bin]/bin | /cd:other/*", "/cc:top[fl='b1']/i32", "count(/cc:top/item) > 1", NULL
};

/* the whole life of one own tree; returns the result token */
static void
own_tree(struct thr *t, int di, char fmt, char *out, size_t n)
{
    struct ly_ctx *ctx = t->ctx;
    struct lyd_node *tree = NULL, *tree2 = NULL, *dup = NULL, *diff = NULL;
    struct doc *d = &docs[di];
    LY_ERR r;
    uint32_t h = FNV0;
    char *s = NULL;
    int steps = 0;

    if (fmt == 'l') {
        struct ly_in *in = NULL;

        if (!d->lyb) {
            snprintf(out, n, "nolyb");
            return;
        }
        ly_in_new_memory(d->lyb, &in);
        r = lyd_parse_data(ctx, NULL, in, LYD_LYB, LYD_PARSE_STRICT, LYD_VALIDATE_PRESENT, &tree);
        ly_in_free(in, 0);
    } else {
        r = lyd_parse_data_mem(ctx, d->text, (fmt == 'j') ? LYD_JSON : LYD_XML, LYD_PARSE_STRICT, LYD_VALIDATE_PRESENT, &tree);
    }
    if (r) {
        char e[64];

        err_token(ctx, e, sizeof e);
        snprintf(out, n, "F%d:%s", (int)r, e);
        lyd_free_all(tree);
        return;
    }

#define STEP(call) do { r = (call); ++steps; h = fnv(h, &r, sizeof r); if (r) { goto done; } } while (0)
    STEP(lyd_print_mem(&s, tree, LYD_XML, LYD_PRINT_WITHSIBLINGS));
    h = fnvs(h, s);
    free(s);
    s = NULL;
    STEP(lyd_print_mem(&s, tree, LYD_JSON, LYD_PRINT_WITHSIBLINGS | LYD_PRINT_SHRINK));
    h = fnvs(h, s);
    free(s);
    s = NULL;
    {
        struct ly_out *o = NULL;
        struct ly_in *in = NULL;
        size_t len;

        ly_out_new_memory(&s, 0, &o);
        r = lyd_print_all(o, tree, LYD_LYB, 0);
        len = ly_out_printed(o);
        ly_out_free(o, NULL, 0);
        ++steps;
        h = fnv(h, &r, sizeof r);
        if (r) {
            goto done;
        }
        h = fnv(h, s, len);
        ly_in_new_memory(s, &in);
        r = lyd_parse_data(ctx, NULL, in, LYD_LYB, LYD_PARSE_STRICT, LYD_VALIDATE_PRESENT, &tree2);
        ly_in_free(in, 0);
        free(s);
        s = NULL;
        ++steps;
        h = fnv(h, &r, sizeof r);
        if (r) {
            goto done;
        }
    }
    r = lyd_compare_siblings(tree, tree2, LYD_COMPARE_FULL_RECURSION | LYD_COMPARE_DEFAULTS);
    h = fnv(h, &r, sizeof r);
    /* the re-parsed tree printed as XML (canonical strings are generated lazily for it) */
    STEP(lyd_print_mem(&s, tree2, LYD_XML, LYD_PRINT_WITHSIBLINGS | LYD_PRINT_SHRINK));
    h = fnvs(h, s);
    free(s);
    s = NULL;
    for (int i = 0; OWN_XPATHS[i]; ++i) {
        struct ly_set *set = NULL;
        ly_bool b = 0;

        if (!strncmp(OWN_XPATHS[i], "count(", 6)) {
            r = lyd_eval_xpath(tree, OWN_XPATHS[i], &b);
            h = fnv(h, &r, sizeof r);
            h = fnv(h, &b, 1);
            continue;
        }
        r = lyd_find_xpath(tree2, OWN_XPATHS[i], &set);
        h = fnv(h, &r, sizeof r);
        if (!r) {
            uint32_t hs = hash_set(set);

            h = fnv(h, &set->count, sizeof set->count);
            h = fnv(h, &hs, sizeof hs);
        }
        ly_set_free(set, NULL);
    }
    /* duplicate, edit, diff, apply, compare, validate */
    STEP(lyd_dup_siblings(tree, NULL, LYD_DUP_RECURSIVE, &dup));
    r = lyd_new_path(dup, ctx, "/cc:top/fl", "b1 long-bit-name", LYD_NEW_PATH_UPDATE, NULL);
    h = fnv(h, &r, sizeof r);
    r = lyd_new_path(dup, ctx, "/cc:top/item[name='zz']/bin", "AAEC", LYD_NEW_PATH_UPDATE, NULL);
    h = fnv(h, &r, sizeof r);
    r = lyd_new_path(dup, ctx, "/cd:other/x", "b3", LYD_NEW_PATH_UPDATE, NULL);
    h = fnv(h, &r, sizeof r);
    STEP(lyd_diff_siblings(tree, dup, 0, &diff));
    if (diff) {
        STEP(lyd_print_mem(&s, diff, LYD_XML, LYD_PRINT_WITHSIBLINGS | LYD_PRINT_SHRINK));
        h = fnvs(h, s);
        free(s);
        s = NULL;
        STEP(lyd_diff_apply_all(&tree, diff));
    }
    r = lyd_compare_siblings(tree, dup, LYD_COMPARE_FULL_RECURSION);
    h = fnv(h, &r, sizeof r);
    r = lyd_validate_all(&tree, ctx, LYD_VALIDATE_PRESENT, NULL);
    h = fnv(h, &r, sizeof r);
    /* merge the edited copy into the re-parsed tree (values are duplicated), print the result */
    r = lyd_merge_siblings(&tree2, dup, 0);
    h = fnv(h, &r, sizeof r);
    if (!r) {
        STEP(lyd_print_mem(&s, tree2, LYD_JSON, LYD_PRINT_WITHSIBLINGS | LYD_PRINT_SHRINK));
        h = fnvs(h, s);
        free(s);
        s = NULL;
    }

done:
#undef STEP
    free(s);
    if (r) {
        char e[64];

        err_token(ctx, e, sizeof e);
        snprintf(out, n, "S%d@%d:%s:%08x", (int)r, steps, e, h);
    } else {
        snprintf(out, n, "ok:%08x", h);
    }
    lyd_free_all(tree);
    lyd_free_all(tree2);
    lyd_free_all(dup);
    lyd_free_all(diff);
}

static void
shared_op(struct thr *t, const char *op, char *out, size_t n)
{
    struct lyd_node *sh = t->shared;
    LY_ERR r;
    char *s = NULL;
    uint32_t h = FNV0;

    if (!sh) {
        snprintf(out, n, "noshared");
        return;
    }
    switch (op[1]) {
    case 'x':
    case 'j':
        r = lyd_print_mem(&s, sh, (op[1] == 'x') ? LYD_XML : LYD_JSON, LYD_PRINT_WITHSIBLINGS);
        h = fnvs(h, s);
        free(s);
        snprintf(out, n, "%d:%08x", (int)r, h);
        break;
    case 'l': {
        struct ly_out *o = NULL;
        size_t len;

        ly_out_new_memory(&s, 0, &o);
        r = lyd_print_all(o, sh, LYD_LYB, 0);
        len = ly_out_printed(o);
        ly_out_free(o, NULL, 0);
        h = fnv(h, s, r ? 0 : len);
        free(s);
        snprintf(out, n, "%d:%zu:%08x", (int)r, len, h);
        break;
    }
    case 'f': {
        struct lyd_node *m = NULL;
        char *arg = vunhex(op + 2, NULL), *p = NULL;

        r = lyd_find_path(sh, arg, 0, &m);
        if (!r && m) {
            p = lyd_path(m, LYD_PATH_STD, NULL, 0);
            h = fnvs(h, p);
            if (m->schema && (m->schema->nodetype & LYD_NODE_TERM)) {
                h = fnvs(h, lyd_get_value(m));
            }
        }
        if (r) {
            char e[64];

            err_token(t->ctx, e, sizeof e);
            snprintf(out, n, "%d:%s", (int)r, e);
        } else {
            snprintf(out, n, "0:%08x", h);
        }
        free(p);
        free(arg);
        break;
    }
    case 'q': {
        struct ly_set *set = NULL;
        char *arg = vunhex(op + 2, NULL);

        r = lyd_find_xpath(sh, arg, &set);
        if (r) {
            char e[64];

            err_token(t->ctx, e, sizeof e);
            snprintf(out, n, "%d:%s", (int)r, e);
        } else {
            snprintf(out, n, "0:%u:%08x", set->count, hash_set(set));
        }
        ly_set_free(set, NULL);
        free(arg);
        break;
    }
    case 'v': {
        ly_bool b = 0;
        char *arg = vunhex(op + 2, NULL);

        r = lyd_eval_xpath(sh, arg, &b);
        if (r) {
            char e[64];

            err_token(t->ctx, e, sizeof e);
            snprintf(out, n, "%d:%s", (int)r, e);
        } else {
            snprintf(out, n, "0:%d", (int)b);
        }
        free(arg);
        break;
    }
    case 'c':
        if (!t->copy && (shared_idx >= 0) && docs[shared_idx].lyb) {
            struct ly_in *in = NULL;

            ly_in_new_memory(docs[shared_idx].lyb, &in);
            r = lyd_parse_data(t->ctx, NULL, in, LYD_LYB, LYD_PARSE_STRICT, LYD_VALIDATE_PRESENT, &t->copy);
            ly_in_free(in, 0);
            if (r) {
                snprintf(out, n, "copy%d", (int)r);
                break;
            }
        }
        r = lyd_compare_siblings(sh, t->copy, LYD_COMPARE_FULL_RECURSION | LYD_COMPARE_DEFAULTS);
        snprintf(out, n, "%d", (int)r);
        break;
    default:
        snprintf(out, n, "?");
    }
}

static void
dict_op(struct thr *t, const char *op, char *out, size_t n)
{
    char *arg = vunhex(op + 1, NULL);
    const char *p = NULL;
    LY_ERR r;
    int i;

    switch (op[0]) {
    case 'I':
        r = lydict_insert(t->ctx, arg, 0, &p);
        if (!r && (t->nheld_str < 64)) {
            t->held_str[t->nheld_str] = strdup(arg);
            t->held_ptr[t->nheld_str++] = p;
        } else if (!r) {
            lydict_remove(t->ctx, p);
        }
        snprintf(out, n, "%d:%d", (int)r, (!r && p) ? !strcmp(p, arg) : -1);
        break;
    case 'D':
    case 'R':
        for (i = t->nheld_str - 1; i >= 0; --i) {
            if (!strcmp(t->held_str[i], arg)) {
                break;
            }
        }
        if (i < 0) {
            snprintf(out, n, "-");
            break;
        }
        if (op[0] == 'D') {
            r = (t->nheld_str < 64) ? lydict_dup(t->ctx, t->held_ptr[i], &p) : LY_ENOT;
            if (!r) {
                t->held_str[t->nheld_str] = strdup(arg);
                t->held_ptr[t->nheld_str++] = p;
            }
            snprintf(out, n, "%d:%d", (int)r, (!r && p) ? (p == t->held_ptr[i]) : -1);
        } else {
            /* the stored string must still be intact when this thread gives its reference back */
            int same = !strcmp(t->held_ptr[i], arg);

            r = lydict_remove(t->ctx, t->held_ptr[i]);
            free(t->held_str[i]);
            t->held_str[i] = t->held_str[t->nheld_str - 1];
            t->held_ptr[i] = t->held_ptr[t->nheld_str - 1];
            --t->nheld_str;
            snprintf(out, n, "%d:%d", (int)r, same);
        }
        break;
    }
    free(arg);
}

static void
schema_op(struct thr *t, const char *op, char *out, size_t n)
{
    if (op[0] == 'F') {
        char *arg = vunhex(op + 1, NULL);
        const struct lysc_node *sn = lys_find_path(t->ctx, NULL, arg, 0);

        if (sn) {
            char *p = lysc_path(sn, LYSC_PATH_LOG, NULL, 0);

            snprintf(out, n, "%s:%x:%08x", sn->name, (unsigned)sn->nodetype, fnvs(FNV0, p));
            free(p);
        } else {
            char e[64];

            err_token(t->ctx, e, sizeof e);
            snprintf(out, n, "null:%s", e);
        }
        free(arg);
    } else {
        int k = atoi(op + 1);
        static const LYS_OUTFORMAT F[4] = {LYS_OUT_YANG, LYS_OUT_YIN, LYS_OUT_TREE, LYS_OUT_YANG_COMPILED};
        const struct lys_module *m = ly_ctx_get_module_implemented(t->ctx, (k & 1) ? "cd" : "cc");
        char *s = NULL;
        LY_ERR r = m ? lys_print_mem(&s, m, F[(k / 2) & 3], 0) : LY_ENOTFOUND;

        snprintf(out, n, "%d:%zu:%08x", (int)r, s ? strlen(s) : 0, fnvs(FNV0, s));
        free(s);
    }
}

static __thread uint32_t tl_log_opts;

/* one parse with the given options; token = rc[:hashes of the printed tree]:error records */
static void
parse_opts_token(struct thr *t, char fmt, int di, uint32_t popts, uint32_t vopts, uint32_t prflags, int print, char *out, size_t n)
{
    struct lyd_node *tree = NULL;
    struct doc *d = &docs[di];
    LY_ERR r;
    char e[64], *s = NULL;
    uint32_t h = FNV0;

    if (fmt == 'l') {
        struct ly_in *in = NULL;

        if (!d->lyb) {
            snprintf(out, n, "nolyb");
            return;
        }
        ly_in_new_memory(d->lyb, &in);
        r = lyd_parse_data(t->ctx, NULL, in, LYD_LYB, popts, vopts, &tree);
        ly_in_free(in, 0);
    } else {
        r = lyd_parse_data_mem(t->ctx, d->text, (fmt == 'j') ? LYD_JSON : LYD_XML, popts, vopts, &tree);
    }
    if (!r && print) {
        LY_ERR r2;

        r2 = lyd_print_mem(&s, tree, LYD_XML, LYD_PRINT_WITHSIBLINGS | prflags);
        h = fnv(h, &r2, sizeof r2);
        h = fnvs(h, s);
        free(s);
        s = NULL;
        r2 = lyd_print_mem(&s, tree, LYD_JSON, LYD_PRINT_WITHSIBLINGS | prflags);
        h = fnv(h, &r2, sizeof r2);
        h = fnvs(h, s);
        free(s);
    }
    lyd_free_all(tree);
    err_token(t->ctx, e, sizeof e);
    snprintf(out, n, "%d:%08x:%s", (int)r, h, e);
}

static void *
thread_main(void *arg)
{
    struct thr *t = arg;
    char *save = NULL;

    nheld = 0;
    arm_unlock = arm_zc = -1;
    if (concurrent && f_prime) {
        /* one thread after the other: the insertion of a new error record must not overlap any use of another one */
        struct lyd_node *x = NULL;

        __real_pthread_mutex_lock(&prime_mx);
        lyd_parse_data_mem(t->ctx, "<nosuch xmlns=\"urn:cc\"/>", LYD_XML, LYD_PARSE_STRICT, LYD_VALIDATE_PRESENT, &x);
        lyd_free_all(x);
        ly_err_clean(t->ctx, NULL);
        __real_pthread_mutex_unlock(&prime_mx);
    }
    if (concurrent && !f_forced) {
        pthread_barrier_wait(&start_bar);
    }
    t->nres = 0;
    for (char *op = strtok_r(t->ops, ",", &save); op && (t->nres < MAXOPS); op = strtok_r(NULL, ",", &save)) {
        char *out = t->res[t->nres];

        out[0] = 0;
        switch (op[0]) {
        case 'P':
            if ((atoi(op + 2) >= 0) && (atoi(op + 2) < ndocs)) {
                own_tree(t, atoi(op + 2), op[1], out, RESLEN);
            } else {
                snprintf(out, RESLEN, "?");
            }
            break;
        case 'Q': {
            unsigned di = 0, po = 0, vo = 0, pr = 0;

            if ((sscanf(op + 2, "%u:%u:%u:%u", &di, &po, &vo, &pr) == 4) && ((int)di < ndocs)) {
                parse_opts_token(t, op[1], (int)di, po, vo, pr, 1, out, RESLEN);
            } else {
                snprintf(out, RESLEN, "?");
            }
            break;
        }
        case 'G':
        case 'K': {
            unsigned cnt = 0, di = 0, po = LYD_PARSE_STRICT;
            char f = 0, first[RESLEN], cur[RESLEN];
            int var = 0;

            if (((op[0] == 'G') ? (sscanf(op + 1, "%u:%c%u:%u", &cnt, &f, &di, &po) == 4) :
                    (sscanf(op + 1, "%u:%c%u", &cnt, &f, &di) == 3)) && ((int)di < ndocs) && cnt) {
                for (unsigned k = 0; k < cnt; ++k) {
                    parse_opts_token(t, f, (int)di, po, (op[0] == 'G') ? 0 : LYD_VALIDATE_PRESENT, 0, 0, cur, sizeof cur);
                    if (op[0] == 'K') {
                        ly_err_clean(t->ctx, NULL);
                    }
                    if (!k) {
                        strcpy(first, cur);
                    } else if (strcmp(first, cur)) {
                        ++var;
                    }
                }
                snprintf(out, RESLEN, "%.60s*%uv%d", first, cnt, var);
            } else {
                snprintf(out, RESLEN, "?");
            }
            break;
        }
        case 'U': {
            unsigned cnt = 0, di = 0;
            char f = 0;
            struct lyd_node *tree = NULL;
            LY_ERR r;

            if ((sscanf(op + 1, "%u:%c%u", &cnt, &f, &di) != 3) || ((int)di >= ndocs) || ((f == 'l') && !docs[di].lyb)) {
                snprintf(out, RESLEN, "?");
                break;
            }
            if (f == 'l') {
                struct ly_in *in = NULL;

                ly_in_new_memory(docs[di].lyb, &in);
                r = lyd_parse_data(t->ctx, NULL, in, LYD_LYB, LYD_PARSE_STRICT, LYD_VALIDATE_PRESENT, &tree);
                ly_in_free(in, 0);
            } else {
                r = lyd_parse_data_mem(t->ctx, docs[di].text, (f == 'j') ? LYD_JSON : LYD_XML, LYD_PARSE_STRICT,
                        LYD_VALIDATE_PRESENT, &tree);
            }
            if (r) {
                char e[64];

                err_token(t->ctx, e, sizeof e);
                snprintf(out, RESLEN, "F%d:%s", (int)r, e);
            } else {
                int bad = 0;
                struct lyd_node *keep = NULL;

                bad += lyd_dup_siblings(tree, NULL, LYD_DUP_RECURSIVE, &keep) ? 1 : 0;
                for (unsigned k = 0; k < cnt; ++k) {
                    struct lyd_node *dup = NULL, *diff = NULL;

                    bad += lyd_dup_siblings(tree, NULL, LYD_DUP_RECURSIVE, &dup) ? 1 : 0;
                    bad += lyd_compare_siblings(tree, dup, LYD_COMPARE_FULL_RECURSION) ? 1 : 0;
                    if (k % 2) {
                        bad += lyd_diff_siblings(keep, dup, LYD_DIFF_DEFAULTS, &diff) ? 1 : 0;
                        bad += diff ? 1 : 0;
                    }
                    if (!(k % 3)) {
                        bad += lyd_merge_siblings(&keep, dup, 0) ? 1 : 0;
                    }
                    lyd_free_all(diff);
                    lyd_free_all(dup);
                }
                lyd_free_all(keep);
                snprintf(out, RESLEN, "u%u:%d", cnt, bad);
            }
            lyd_free_all(tree);
            break;
        }
        case 'T':
            if (op[1] == '-') {
                ly_temp_log_options(NULL);
            } else {
                tl_log_opts = (uint32_t)atoi(op + 1);
                ly_temp_log_options(&tl_log_opts);
            }
            snprintf(out, RESLEN, "t");
            break;
        case 'E':
            err_token(t->ctx, out, RESLEN);
            break;
        case 'C':
            ly_err_clean(t->ctx, NULL);
            snprintf(out, RESLEN, "c");
            break;
        case 'I':
        case 'R':
        case 'D':
            dict_op(t, op, out, RESLEN);
            break;
        case 'F':
        case 'Y':
            schema_op(t, op, out, RESLEN);
            break;
        case 'S':
            shared_op(t, op, out, RESLEN);
            break;
        case 'W':
            if (concurrent) {
                seq_wait(atoi(op + 1));
            }
            snprintf(out, RESLEN, "w");
            break;
        case 'N':
            if (concurrent) {
                seq_signal();
            }
            snprintf(out, RESLEN, "n");
            break;
        case 'H':
            if (concurrent) {
                arm_unlock = atoi(op + 1);
            }
            snprintf(out, RESLEN, "h");
            break;
        case 'Z':
            if (concurrent) {
                arm_zc = atoi(op + 1);
            }
            snprintf(out, RESLEN, "z");
            break;
        default:
            snprintf(out, RESLEN, "?");
        }
        ++t->nres;
    }
    arm_unlock = arm_zc = -1;
    ly_temp_log_options(NULL);
    /* give everything back */
    for (int i = 0; i < t->nheld_str; ++i) {
        lydict_remove(t->ctx, t->held_ptr[i]);
        free(t->held_str[i]);
    }
    t->nheld_str = 0;
    lyd_free_all(t->copy);
    t->copy = NULL;
    ly_err_clean(t->ctx, NULL);
    return NULL;
}

/* ------------------------------------------------------------------------------------------------
 * ThreadSanitizer reports: stderr goes to a file, the part written during a case is parsed
 * ------------------------------------------------------------------------------------------------ */
#ifdef CONC_TSAN
/* glibc serialises tzset()/localtime_r() (called by ly_time_time2str()) with a lock of its own that ThreadSanitizer
 * does not see; its reports about tzset_internal()'s bookkeeping are not races */
const char *
__tsan_default_suppressions(void)
{
    return "race:tzset_internal\n";
}

#endif

static int err_fd = -1, orig_err = -1;
static off_t err_pos;

/* a fatal signal: hand the reports captured during the current case to the real stderr (the harness keeps the stderr of
 * a crashed driver), then die by the signal */
static void
on_fatal(int sig)
{
    if ((err_fd >= 0) && (orig_err >= 0)) {
        char buf[4096];
        off_t pos = err_pos;
        ssize_t n;
        int budget = 16;

        while ((budget-- > 0) && ((n = pread(err_fd, buf, sizeof buf, pos)) > 0)) {
            if (write(orig_err, buf, (size_t)n) < 0) {
                break;
            }
            pos += n;
        }
    }
    signal(sig, SIG_DFL);
    raise(sig);
}

static void
tsan_capture_init(void)
{
#ifdef CONC_TSAN
    char path[] = "/tmp/t_conc_err_XXXXXX";

    err_fd = mkstemp(path);
    if (err_fd >= 0) {
        unlink(path);
        orig_err = dup(2);
        dup2(err_fd, 2);
        signal(SIGSEGV, on_fatal);
        signal(SIGABRT, on_fatal);
        signal(SIGBUS, on_fatal);
    }
#endif
}

/* prints tsan=<n>|kind~f1<f2<f3/g1<g2<g3|...   (function names of the first two stacks of each report) */
static void
tsan_report(void)
{
#ifdef CONC_TSAN
    off_t end;
    char *buf, *line, *save = NULL;
    int nrep = 0, block = 0, frames = 0;
    static char outb[65536];
    size_t ol = 0;

    if (err_fd < 0) {
        printf(" tsan=?");
        return;
    }
    end = lseek(err_fd, 0, SEEK_END);
    if (end <= err_pos) {
        printf(" tsan=0");
        return;
    }
    buf = malloc((size_t)(end - err_pos) + 1);
    if (pread(err_fd, buf, (size_t)(end - err_pos), err_pos) < 0) {
        buf[0] = 0;
    }
    buf[end - err_pos] = 0;
    err_pos = end;
    outb[0] = 0;
    for (line = strtok_r(buf, "\n", &save); line; line = strtok_r(NULL, "\n", &save)) {
        char *p;

        if ((p = strstr(line, "WARNING: ThreadSanitizer: "))) {
            char *q;

            p += strlen("WARNING: ThreadSanitizer: ");
            q = strstr(p, " (pid");
            if (q) {
                *q = 0;
            }
            for (q = p; *q; ++q) {
                if (*q == ' ') {
                    *q = '-';
                }
            }
            ++nrep;
            if (nrep > 12) {
                continue;
            }
            block = 0;
            frames = 0;
            if (ol < sizeof outb - 300) {
                ol += (size_t)snprintf(outb + ol, sizeof outb - ol, "|%s~", p);
            }
        } else if (nrep > 12) {
            continue;
        } else if (nrep && !strncmp(line, "  ", 2) && (line[2] != ' ') && strchr(line, ':') && !strncmp(line + strlen(line) - 1, ":", 1)) {
            /* header of a stack: `  Write of size 8 at ... by thread T1:` */
            ++block;
            frames = 0;
            if ((block == 2) && (ol < sizeof outb - 300)) {
                ol += (size_t)snprintf(outb + ol, sizeof outb - ol, "/");
            }
        } else if (nrep && (block >= 1) && (block <= 2) && !strncmp(line, "    #", 5) && (frames < 40)) {
            char fn[96];

            if ((sscanf(line, "    #%*d %95s", fn) == 1) && strncmp(fn, "__wrap_", 7) && (ol < sizeof outb - 300)) {
                ol += (size_t)snprintf(outb + ol, sizeof outb - ol, "%s%s", frames ? "<" : "", fn);
                ++frames;
            }
        }
    }
    free(buf);
    printf(" tsan=%d%s", nrep, outb);
#endif
}

/* ------------------------------------------------------------------------------------------------
 * one run of all workloads; returns 0 or a negative setup error
 * ------------------------------------------------------------------------------------------------ */
#define CASE_LOG_OPTS (LY_LOLOG | LY_LOSTORE)
#define CASE_LOG_LEVEL LY_LLWRN
static char glob_bad[128];
static uint16_t ctx_opts0, ctx_chg0;

/* the process-wide state must be what the case set at its start */
static void
check_global_state(struct ly_ctx *ctx)
{
    uint32_t lo = ly_log_options(CASE_LOG_OPTS);
    LY_LOG_LEVEL ll = ly_log_level(CASE_LOG_LEVEL);
    uint32_t *tmp = ly_temp_log_options(NULL);

    if (glob_bad[0]) {
        return;
    }
    if (lo != CASE_LOG_OPTS) {
        snprintf(glob_bad, sizeof glob_bad, "ly_log_options=0x%x(set:0x%x)", lo, (unsigned)CASE_LOG_OPTS);
    } else if (ll != CASE_LOG_LEVEL) {
        snprintf(glob_bad, sizeof glob_bad, "ly_log_level=%d(set:%d)", (int)ll, (int)CASE_LOG_LEVEL);
    } else if (ly_get_log_clb() != log_cb) {
        snprintf(glob_bad, sizeof glob_bad, "log-callback-changed");
    } else if (tmp) {
        snprintf(glob_bad, sizeof glob_bad, "main-thread-temp-log-options-set");
    } else if (ctx && (ly_ctx_get_options(ctx) != ctx_opts0)) {
        snprintf(glob_bad, sizeof glob_bad, "ctx-options=0x%x(was:0x%x)", ly_ctx_get_options(ctx), ctx_opts0);
    } else if (ctx && (ly_ctx_get_change_count(ctx) != ctx_chg0)) {
        snprintf(glob_bad, sizeof glob_bad, "ctx-change-count=%u(was:%u)", ly_ctx_get_change_count(ctx), ctx_chg0);
    }
}

/* reference counts of the compiled types of the shared schema (white box): leaf / leaf-list types, union members, leafref
 * target types */
struct tref {
    const struct lysc_type *type;
    const char *name;
    uint32_t before;
};
static struct tref trefs[512];
static int ntrefs;
static char refs_bad[128];

static void
tref_add(const struct lysc_type *type, const char *name)
{
    LY_ARRAY_COUNT_TYPE u;

    if (!type) {
        return;
    }
    for (int i = 0; i < ntrefs; ++i) {
        if (trefs[i].type == type) {
            return;
        }
    }
    if (ntrefs < 512) {
        trefs[ntrefs].type = type;
        trefs[ntrefs].name = name;
        trefs[ntrefs].before = type->refcount;
        ++ntrefs;
    }
    if (type->basetype == LY_TYPE_UNION) {
        LY_ARRAY_FOR(((const struct lysc_type_union *)type)->types, u) {
            tref_add(((const struct lysc_type_union *)type)->types[u], name);
        }
    } else if (type->basetype == LY_TYPE_LEAFREF) {
        tref_add(((const struct lysc_type_leafref *)type)->realtype, name);
    }
}

static LY_ERR
tref_cb(struct lysc_node *node, void *data, ly_bool *dfs_continue)
{
    (void)data; (void)dfs_continue;
    if (node->nodetype == LYS_LEAF) {
        tref_add(((struct lysc_node_leaf *)node)->type, node->name);
    } else if (node->nodetype == LYS_LEAFLIST) {
        tref_add(((struct lysc_node_leaflist *)node)->type, node->name);
    }
    return LY_SUCCESS;
}

static void
trefs_snapshot(struct ly_ctx *ctx)
{
    uint32_t idx = 0;
    const struct lys_module *mod;

    ntrefs = 0;
    while ((mod = ly_ctx_get_module_iter(ctx, &idx))) {
        if (mod->implemented && mod->compiled) {
            lysc_module_dfs_full(mod, tref_cb, NULL);
        }
    }
}

static void
trefs_check(void)
{
    for (int i = 0; (i < ntrefs) && !refs_bad[0]; ++i) {
        if (trefs[i].type->refcount != trefs[i].before) {
            snprintf(refs_bad, sizeof refs_bad, "%s:%u->%u", trefs[i].name, trefs[i].before, trefs[i].type->refcount);
        }
    }
}

static long dict_base, dict_end;
static int dict_bad;
static int leak_attr;

static int
setup_shared(struct ly_ctx *ctx, struct lyd_node **shared)
{
    *shared = NULL;
    if ((shared_idx >= 0) && docs[shared_idx].lyb) {
        struct ly_in *in = NULL;
        LY_ERR r;

        ly_in_new_memory(docs[shared_idx].lyb, &in);
        r = lyd_parse_data(ctx, NULL, in, LYD_LYB, LYD_PARSE_STRICT, LYD_VALIDATE_PRESENT, shared);
        ly_in_free(in, 0);
        if (r) {
            return -2;
        }
        if (f_warm) {
            char *s = NULL;
            struct lyd_node *root, *n;

            lyd_print_mem(&s, *shared, LYD_XML, LYD_PRINT_WITHSIBLINGS);
            free(s);
            s = NULL;
            lyd_print_mem(&s, *shared, LYD_JSON, LYD_PRINT_WITHSIBLINGS);
            free(s);
            /* union values cache their canonical string only when asked for LY_VALUE_CANON */
            LY_LIST_FOR(*shared, root) {
                LYD_TREE_DFS_BEGIN(root, n) {
                    if (n->schema && (n->schema->nodetype & LYD_NODE_TERM)) {
                        (void)lyd_get_value(n);
                    }
                    LYD_TREE_DFS_END(root, n);
                }
            }
        }
    }
    return 0;
}

/* the canonical strings of all terminal values of the shared tree (candidates of the lazily cached ones) */
static char *canon_strs[512];
static int ncanon;

static void
collect_canon(struct lyd_node *shared)
{
    struct lyd_node *root, *n;

    ncanon = 0;
    LY_LIST_FOR(shared, root) {
        LYD_TREE_DFS_BEGIN(root, n) {
            if (n->schema && (n->schema->nodetype & LYD_NODE_TERM) && (ncanon < 512)) {
                const char *v = lyd_get_value(n);

                if (v) {
                    canon_strs[ncanon++] = strdup(v);
                }
            }
            LYD_TREE_DFS_END(root, n);
        }
    }
}

static int
run_concurrent(int nthr, struct thr *T, char **ops)
{
    struct ly_ctx *ctx = new_ctx();
    pthread_t th[MAXTHR];
    int rc;

    if (!ctx) {
        return -1;
    }
    dict_base = ctx->dict.hash_tab->used;
    ctx_opts0 = ly_ctx_get_options(ctx);
    ctx_chg0 = ly_ctx_get_change_count(ctx);
    if ((rc = setup_shared(ctx, &g_shared))) {
        ly_ctx_destroy(ctx);
        return rc;
    }
    trefs_snapshot(ctx);
    g_ctx = ctx;
    seq = 0;
    concurrent = 1;
    pthread_barrier_init(&start_bar, NULL, (unsigned)nthr);
    for (int i = 0; i < nthr; ++i) {
        T[i].idx = i;
        T[i].ctx = ctx;
        T[i].shared = g_shared;
        free(T[i].ops);
        T[i].ops = strdup(ops[i]);
        T[i].copy = NULL;
        T[i].nheld_str = 0;
    }
    for (int i = 0; i < nthr; ++i) {
        pthread_create(&th[i], NULL, thread_main, &T[i]);
    }
    for (int i = 0; i < nthr; ++i) {
        pthread_join(th[i], NULL);
    }
    pthread_barrier_destroy(&start_bar);
    concurrent = 0;
    check_global_state(ctx);
    trefs_check();

    for (int i = 0; i < ncanon; ++i) {
        free(canon_strs[i]);
    }
    ncanon = 0;
    if (g_shared) {
        collect_canon(g_shared);
    }
    lyd_free_all(g_shared);
    g_shared = NULL;
    if (!dict_bad) {
        /* keep the first repetition that did not come back to the post-setup size */
        dict_end = ctx->dict.hash_tab->used;
        dict_bad = (dict_end != dict_base);
    }
    g_ctx = NULL;
    ly_ctx_destroy(ctx);        /* not-freed warnings arrive in log_cb */
    return 0;
}

static int
run_alone(int nthr, struct thr *T, char **ops)
{
    for (int i = 0; i < nthr; ++i) {
        struct ly_ctx *ctx = new_ctx();
        struct lyd_node *sh = NULL;
        pthread_t th;
        int rc;

        if (!ctx) {
            return -1;
        }
        if ((rc = setup_shared(ctx, &sh))) {
            ly_ctx_destroy(ctx);
            return rc;
        }
        T[i].idx = i;
        T[i].ctx = ctx;
        T[i].shared = sh;
        free(T[i].ops);
        T[i].ops = strdup(ops[i]);
        T[i].copy = NULL;
        T[i].nheld_str = 0;
        pthread_create(&th, NULL, thread_main, &T[i]);
        pthread_join(th, NULL);
        lyd_free_all(sh);
        ly_ctx_destroy(ctx);
    }
    return 0;
}

static struct thr TC[MAXTHR], TA[MAXTHR];

static void
free_docs(void)
{
    for (int i = 0; i < ndocs; ++i) {
        free(docs[i].text);
        free(docs[i].lyb);
        docs[i].text = docs[i].lyb = NULL;
    }
    ndocs = 0;
}

/* watchdog: a case that does not finish (e.g. threads looping in a corrupted table) answers HANG and ends the process;
 * the harness continues with the next case in a new process */
static void
on_alarm(int sig)
{
    (void)sig;
    if (write(1, "HANG\n", 5) < 0) {
        _exit(4);
    }
    _exit(3);
}

int
main(void)
{
    struct vcase c;

    tsan_capture_init();
    ly_set_log_clb(log_cb);
    ly_log_options(LY_LOLOG | LY_LOSTORE);
    prep_ctx = new_ctx();
    if (!prep_ctx) {
        printf("SETUP\n");
        return 2;
    }

    signal(SIGALRM, on_alarm);
    while (vnext(&c)) {
        int nthr, reps, sh, nd, base;

#ifdef CONC_TSAN
        alarm(25);
#else
        alarm(20);
#endif
        char diff[512] = "";

        if (strcmp(c.f[0], "conc") || (c.nf < 6)) {
            printf("?");
            VEND();
            continue;
        }
        nthr = atoi(c.f[1]);
        reps = atoi(c.f[2]);
        f_warm = strchr(c.f[3], 'w') != NULL;
        f_prime = strchr(c.f[3], 'p') != NULL;
        f_forced = strchr(c.f[3], 'f') != NULL;
        f_verbose = strchr(c.f[3], 'v') != NULL;
        sh = atoi(c.f[4]);
        nd = atoi(c.f[5]);
        base = 6 + nd;
        if ((nthr < 1) || (nthr > MAXTHR) || (nd < 0) || (nd > MAXDOCS) || (c.nf < base + nthr) || (sh >= nd) || (reps < 1)) {
            printf("?");
            VEND();
            continue;
        }

        /* documents; LYB forms made in the preparation context */
        ndocs = nd;
        for (int i = 0; i < nd; ++i) {
            const char *f = c.f[6 + i];
            struct lyd_node *t = NULL;

            docs[i].json = (f[0] == 'j');
            docs[i].text = vunhex((f[1] == ':') ? f + 2 : "-", NULL);
            docs[i].lyb = NULL;
            docs[i].lyb_len = 0;
            if (!lyd_parse_data_mem(prep_ctx, docs[i].text, docs[i].json ? LYD_JSON : LYD_XML, LYD_PARSE_STRICT,
                    LYD_VALIDATE_PRESENT, &t)) {
                struct ly_out *o = NULL;

                ly_out_new_memory(&docs[i].lyb, 0, &o);
                if (lyd_print_all(o, t, LYD_LYB, 0)) {
                    free(docs[i].lyb);
                    docs[i].lyb = NULL;
                } else {
                    docs[i].lyb_len = ly_out_printed(o);
                }
                ly_out_free(o, NULL, 0);
            }
            lyd_free_all(t);
            ly_err_clean(prep_ctx, NULL);
        }
        shared_idx = sh;

        /* the process-wide logging state of the case */
        ly_log_options(CASE_LOG_OPTS);
        ly_log_level(CASE_LOG_LEVEL);
        ly_set_log_clb(log_cb);
        ly_temp_log_options(NULL);
        glob_bad[0] = 0;
        refs_bad[0] = 0;

        lock_checked = lock_viol = dangling = 0;
        lock_viol_where[0] = 0;
        notfreed = 0;
        leak_attr = 0;

        dict_base = dict_end = 0;
        dict_bad = 0;
        int rc = run_alone(nthr, TA, &c.f[base]);
        int alone_notfreed = notfreed;

        long lc_alone = lock_checked;
        (void)lc_alone;
        for (int rep = 0; !rc && (rep < reps); ++rep) {
            int nf0 = notfreed;

            /* a forced schedule that ran into a timeout is tried again (twice) */
            for (int attempt = 0; attempt < 3; ++attempt) {
                long to0 = seq_timeouts;
                int nf1 = notfreed;

                rc = run_concurrent(nthr, TC, &c.f[base]);
                if (rc || (seq_timeouts == to0) || (attempt == 2)) {
                    break;
                }
                for (int k = nf1; (k < notfreed) && (k < 64); ++k) {
                    free(notfreed_strs[k]);
                    notfreed_strs[k] = NULL;
                }
                notfreed = nf1;
                dict_bad = 0;
                dangling = 0;
            }
            if (rc) {
                break;
            }
            /* attribute not-freed strings to lazily cached canonical values of the shared tree */
            for (int k = nf0; (k < notfreed) && (k < 64); ++k) {
                int hit = 0;

                for (int j = 0; notfreed_strs[k] && !f_warm && (j < ncanon); ++j) {
                    if (!strcmp(notfreed_strs[k], canon_strs[j])) {
                        hit = 1;
                        break;
                    }
                }
                leak_attr += hit;
            }
            for (int i = 0; (i < nthr) && !diff[0]; ++i) {
                if (TC[i].nres != TA[i].nres) {
                    snprintf(diff, sizeof diff, "DIFF r%dt%d:nres:%d!=%d", rep, i, TC[i].nres, TA[i].nres);
                    break;
                }
                /* operation texts for the message */
                char *cp = strdup(c.f[base + i]), *sv = NULL, *op = strtok_r(cp, ",", &sv);

                for (int j = 0; j < TC[i].nres; ++j, op = op ? strtok_r(NULL, ",", &sv) : NULL) {
                    if (strcmp(TC[i].res[j], TA[i].res[j])) {
                        snprintf(diff, sizeof diff, "DIFF r%dt%do%d:%.40s:%s!=%s", rep, i, j, op ? op : "?", TC[i].res[j],
                                TA[i].res[j]);
                        break;
                    }
                }
                free(cp);
            }
        }
        /* parse operations that succeeded / all parse operations, in the runs alone */
        int pok = 0, pall = 0;

        for (int i = 0; !rc && (i < nthr); ++i) {
            char *cp = strdup(c.f[base + i]), *sv = NULL, *op = strtok_r(cp, ",", &sv);

            for (int j = 0; (j < TA[i].nres) && op; ++j, op = strtok_r(NULL, ",", &sv)) {
                if (op[0] == 'P') {
                    ++pall;
                    pok += !strncmp(TA[i].res[j], "ok:", 3);
                }
            }
            free(cp);
        }
        if (rc) {
            printf("SETUP%d", rc);
        } else {
            printf("%s dict=%ld:%ld leak=%d:%d lock=%ld:%ld%s%s dangling=%ld", diff[0] ? diff : "ok", dict_base, dict_end,
                    notfreed - alone_notfreed, leak_attr, lock_checked, lock_viol, lock_viol ? "@" : "", lock_viol_where,
                    dangling);
            printf(" glob=%s refs=%s pok=%d/%d", glob_bad[0] ? glob_bad : "ok", refs_bad[0] ? refs_bad : "ok", pok, pall);
            if (alone_notfreed) {
                printf(" aloneleak=%d", alone_notfreed);
            }
            for (int k = 0; (k < notfreed) && (k < 4); ++k) {
                /* the first strings left behind (hex), for the report */
                printf(" left=");
                vputhex(notfreed_strs[k] ? notfreed_strs[k] : "?", notfreed_strs[k] ? strlen(notfreed_strs[k]) : 1);
            }
        }
        if (!rc && f_verbose) {
            /* the results of the E operations of the (last) concurrent run: noerr or e<number of stored items> */
            printf(" res=");
            for (int i = 0; i < nthr; ++i) {
                char *cp = strdup(c.f[base + i]), *sv = NULL, *op = strtok_r(cp, ",", &sv);
                int first = 1;

                printf("%s%d:", i ? ";" : "", i);
                for (int j = 0; (j < TC[i].nres) && op; ++j, op = strtok_r(NULL, ",", &sv)) {
                    if (!strcmp(op, "E")) {
                        int a, b, cnt;

                        if (sscanf(TC[i].res[j], "e%d.%d.%d.", &a, &b, &cnt) == 3) {
                            printf("%se%d", first ? "" : ",", cnt);
                        } else {
                            printf("%s%s", first ? "" : ",", TC[i].res[j]);
                        }
                        first = 0;
                    }
                }
                free(cp);
            }
        }
        tsan_report();
        for (int k = 0; (k < notfreed) && (k < 64); ++k) {
            free(notfreed_strs[k]);
            notfreed_strs[k] = NULL;
        }
        free_docs();
        VEND();
    }
    ly_ctx_destroy(prep_ctx);
    return 0;
}
