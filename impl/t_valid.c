/* t_valid.c -- driver of slice `valid` (property C02): validation verdicts with the ERROR CLASS.
 *
 * impl/lyx.c reports rc/vecode/app-tag only; all data validation errors are LYVE_DATA, so the class (mandatory,
 * duplicate, two cases, missing key, ...) has to be read from the message. lyx's `ins` also refuses the moves that
 * create a second instance of a leaf; the `move` command here performs them (finding moved-node-dup-unchecked).
 *
 * One case = one line: "valid" TAB cmd TAB cmd ...; a command is a space separated list of words, byte strings in hex
 * ("-" empty, "~" NULL). Fields starting with '#' are for the model and ignored (they produce no result). Output: one
 * result per command joined by " | ". Everything is freed at the end of the case.
 *
 *   mod <hex yang> [ctxopts]               new context + module; "0" or "E<rc>"
 *   parse t<k> <x|j> <parse opts> <val opts> <hex>   lyd_parse_data; VERDICT
 *   val t<k> <val opts> [m]                lyd_validate_all, with m: lyd_validate_module(LAST module loaded with mod); VERDICT
 *   dump t<k> <opts>                       as lyx (opts 1 = show LYD_NEW as n)
 *   newpath t<k> <opts> <hex path> <hex value|~>    lyd_new_path2; "0" or VERDICT
 *   freepath t<k> <hex path>               lyd_free_tree(lyd_find_path); "0" / "-"
 *   chgpath t<k> <hex path> <hex value>    lyd_change_term; rc
 *   move t<k> <hex path> <hex anchor path> <c|s>     lyd_unlink_tree(node); lyd_insert_child/sibling(anchor, node); rc
 *   dupins t<k> <hex path> <hex anchor path> <c|s>   lyd_dup_single(node) + insert; rc
 *   newterm t<k> <hex parent path|-> <name> <hex value>   lyd_new_term (no look for an existing instance; - = top level); rc
 *   newlist t<k> <hex parent path|-> <name> <hex key predicates>   lyd_new_list2; rc
 *   rt t<src> t<dst> <x|j|b> <print opts> <parse opts> <val opts>   lyd_print_mem(src), lyd_parse_data of the text; VERDICT
 *                                          ("P<rc>" when printing fails); b = LYB
 *   free t<k>
 * VERDICT: "0" or  <rc>/<vecode>/<app-tag or ->/<class>  with class one of
 *   type nokey dup dupcase nomand nomandchoice nomin nomax nouniq nomust nowhen noinst keyorder unknown state other
 */
#include "common.h"

#include <assert.h>

#include "libyang.h"
#include "ly_common.h"
#include "tree_data_internal.h"
#include "tree_schema_internal.h"
#include "plugins_exts/metadata.h"

#define NTREE 8

static struct ly_ctx *C;
static const struct lys_module *M;
static struct lyd_node *T[NTREE];

static void
log_cb(LY_LOG_LEVEL level, const char *msg, const char *data_path, const char *schema_path, uint64_t line)
{
    (void)level; (void)schema_path; (void)line;
    if (getenv("LYX_DEBUG")) {
        fprintf(stderr, "LOG: %s (%s)\n", msg, data_path ? data_path : "");
    }
}

struct sbuf {
    char *s;
    size_t n, cap;
};

static void
sb_add(struct sbuf *b, const char *p, size_t n)
{
    if (b->n + n + 1 > b->cap) {
        b->cap = (b->n + n + 1) * 2;
        b->s = realloc(b->s, b->cap);
    }
    memcpy(b->s + b->n, p, n);
    b->n += n;
    b->s[b->n] = 0;
}

static void
sb_str(struct sbuf *b, const char *p)
{
    sb_add(b, p, strlen(p));
}

static void
sb_hex(struct sbuf *b, const char *p, size_t n)
{
    char t[3];

    if (!p) {
        sb_str(b, "~");
        return;
    }
    if (!n) {
        sb_str(b, "-");
        return;
    }
    for (size_t i = 0; i < n; i++) {
        snprintf(t, sizeof t, "%02x", (unsigned char)p[i]);
        sb_add(b, t, 2);
    }
}

static void
sb_fmt(struct sbuf *b, const char *fmt, ...)
{
    char tmp[512];
    va_list ap;

    va_start(ap, fmt);
    vsnprintf(tmp, sizeof tmp, fmt, ap);
    va_end(ap);
    sb_str(b, tmp);
}

static char *
arg_str(const char *w)
{
    if (!strcmp(w, "~")) {
        return NULL;
    }
    return vunhex(w, NULL);
}

static int
slot_t(const char *w)
{
    return (w[0] == 't') ? atoi(w + 1) % NTREE : 0;
}

static void
fix_first(int k)
{
    if (T[k]) {
        while (T[k]->prev->next) {
            T[k] = T[k]->prev;
        }
        while (lyd_parent(T[k])) {
            T[k] = lyd_parent(T[k]);
        }
        while (T[k]->prev->next) {
            T[k] = T[k]->prev;
        }
    }
}

static const char *
err_class(const char *m)
{
    static const struct {
        const char *pfx, *cls;
    } tab[] = {
        {"Mandatory node", "nomand"}, {"Mandatory choice", "nomandchoice"}, {"Duplicate instance", "dup"},
        {"Data for both cases", "dupcase"}, {"Too few", "nomin"}, {"Too many", "nomax"}, {"Unique data leaf", "nouniq"},
        {"List instance is missing its key", "nokey"}, {"Must condition", "nomust"}, {"When condition", "nowhen"},
        {"Invalid leafref value", "noinst"}, {"Invalid instance-identifier", "noinst"},
        {"Invalid position of the key", "keyorder"}, {"Unsatisfied", "type"}, {"Invalid", "type"},
        {"Value \"", "type"}, {"Node \"", "unknown"}, {"Unexpected data state", "state"}, {"No module", "unknown"},
        {"Failed to", "type"}, {"Unknown", "unknown"},
    };

    if (!m) {
        return "other";
    }
    for (size_t i = 0; i < sizeof tab / sizeof *tab; i++) {
        if (!strncmp(m, tab[i].pfx, strlen(tab[i].pfx))) {
            return tab[i].cls;
        }
    }
    return "other";
}

static void
verdict(struct sbuf *o, LY_ERR rc)
{
    const struct ly_err_item *e;

    sb_fmt(o, "%d", (int)rc);
    if (rc && C && (e = ly_err_last(C))) {
        sb_fmt(o, "/%d/%s/%s", (int)e->vecode, e->apptag ? e->apptag : "-", err_class(e->msg));
    } else if (rc) {
        sb_str(o, "/-/-/other");
    }
}

static void
dump_one(struct sbuf *o, const struct lyd_node *n, int depth, int opts)
{
    const struct lyd_node *c;

    {
        sb_fmt(o, "%d:", depth);
        if (n->schema) {
            sb_fmt(o, "%s:%s:", n->schema->module->name, n->schema->name);
            if (n->schema->nodetype & LYD_NODE_TERM) {
                const char *v = lyd_get_value(n);

                sb_str(o, "=");
                sb_hex(o, v, v ? strlen(v) : 0);
            } else if (n->schema->nodetype & LYD_NODE_ANY) {
                char *vs = NULL;

                sb_str(o, "a");
                if (!lyd_any_value_str(n, &vs) && vs) {
                    sb_hex(o, vs, strlen(vs));
                }
                free(vs);
            } else {
                sb_str(o, "i");
            }
            sb_str(o, ":");
            if (n->flags & LYD_DEFAULT) {
                sb_str(o, "d");
            }
            if ((opts & 1) && (n->flags & LYD_NEW)) {
                sb_str(o, "n");
            }
            if (n->schema->flags & LYS_CONFIG_R) {
                sb_str(o, "s");
            }
            if (opts & 2) {
                /* does the parent index its children in a hash table */
                const struct lyd_node_inner *in = (const struct lyd_node_inner *)lyd_parent(n);

                if (in && in->children_ht) {
                    sb_str(o, "h");
                }
            }
            for (const struct lyd_meta *m = n->meta; m; m = m->next) {
                const char *mv = lyd_get_meta_value(m);

                if (lyd_meta_is_internal(m)) {
                    continue;
                }
                sb_fmt(o, ":@%s:%s=", m->annotation->module->name, m->name);
                sb_hex(o, mv, mv ? strlen(mv) : 0);
            }
        } else {
            sb_str(o, "?:?:o");
        }
        sb_str(o, ";");
        for (c = lyd_child(n); c; c = c->next) {
            dump_one(o, c, depth + 1, opts);
        }
    }
}

static LYD_FORMAT
fmt_of(const char *w)
{
    return (w[0] == 'j') ? LYD_JSON : (w[0] == 'b') ? LYD_LYB : LYD_XML;
}

static void
run_cmd(char *cmd, struct sbuf *o)
{
    char *w[12];
    int nw = 0;

    for (char *p = strtok(cmd, " "); p && (nw < 12); p = strtok(NULL, " ")) {
        w[nw++] = p;
    }
#define NEED(n) if (nw < (n)) { sb_str(o, "?args"); return; }
    if (!nw) {
        sb_str(o, "?");
        return;
    }
    if (C) {
        ly_err_clean(C, NULL);
    }
    if (!strcmp(w[0], "mod")) {
        NEED(2);
        char *text = vunhex(w[1], NULL);
        LY_ERR rc;
        struct lys_module *m = NULL;

        if (!C) {
            rc = ly_ctx_new(NULL, nw > 2 ? (uint16_t)strtoul(w[2], NULL, 0) : 0, &C);
            if (rc) {
                sb_fmt(o, "E%d", (int)rc);
                free(text);
                return;
            }
        }
        rc = lys_parse_mem(C, text, LYS_IN_YANG, &m);
        if (!rc && m) {
            /* the module under test is the one loaded last (modules it imports are loaded before it) */
            M = m;
        }
        if (rc) {
            sb_fmt(o, "E%d", (int)rc);
        } else {
            sb_str(o, "0");
        }
        free(text);
        return;
    }
    if (!C || !M) {
        sb_str(o, "?nomod");
        return;
    }
    if (!strcmp(w[0], "parse")) {
        NEED(6);
        int t = slot_t(w[1]);
        size_t len;
        char *data = vunhex(w[5], &len);
        struct ly_in *in = NULL;
        struct lyd_node *tree = NULL;
        LY_ERR rc;

        lyd_free_all(T[t]);
        T[t] = NULL;
        ly_in_new_memory(data, &in);
        rc = lyd_parse_data(C, NULL, in, fmt_of(w[2]), (uint32_t)strtoul(w[3], NULL, 0),
                (uint32_t)strtoul(w[4], NULL, 0), &tree);
        ly_in_free(in, 0);
        verdict(o, rc);
        if (rc && tree) {
            sb_str(o, "!tree-returned-on-error");
            lyd_free_all(tree);
            tree = NULL;
        }
        T[t] = tree;
        free(data);
    } else if (!strcmp(w[0], "val")) {
        NEED(3);
        int t = slot_t(w[1]);
        uint32_t opts = (uint32_t)strtoul(w[2], NULL, 0);
        LY_ERR rc;

        if (nw > 3) {
            rc = lyd_validate_module(&T[t], M, opts, NULL);
        } else {
            rc = lyd_validate_all(&T[t], C, opts, NULL);
        }
        verdict(o, rc);
        fix_first(t);
    } else if (!strcmp(w[0], "dump")) {
        NEED(2);
        int t = slot_t(w[1]);
        int opts = nw > 2 ? atoi(w[2]) : 0;
        int any = 0;

        /* only the data of the module under test (validation of all modules adds state data of internal modules) */
        for (struct lyd_node *n = T[t]; n; n = n->next) {
            if (n->schema && (lyd_owner_module(n) == M)) {
                dump_one(o, n, 0, opts);
                any = 1;
            }
        }
        if (!any) {
            sb_str(o, "empty");
        }
    } else if (!strcmp(w[0], "newpath")) {
        NEED(5);
        int t = slot_t(w[1]);
        char *p = arg_str(w[3]), *v = arg_str(w[4]);
        struct lyd_node *np = NULL, *nn = NULL;
        LY_ERR rc = lyd_new_path2(T[t], C, p, v, v ? strlen(v) : 0, LYD_ANYDATA_STRING, (uint32_t)strtoul(w[2], NULL, 0), &np, &nn);

        if (!T[t] && np) {
            T[t] = np;
        }
        fix_first(t);
        verdict(o, rc);
        free(p);
        free(v);
    } else if (!strcmp(w[0], "freepath") || !strcmp(w[0], "chgpath")) {
        NEED(3);
        int t = slot_t(w[1]);
        char *p = arg_str(w[2]), *v = nw > 3 ? arg_str(w[3]) : NULL;
        struct lyd_node *m = NULL;
        LY_ERR rc = lyd_find_path(T[t], p, 0, &m);

        if (rc || !m) {
            sb_str(o, "-");
        } else if (w[0][0] == 'c') {
            rc = (m->schema->nodetype & LYD_NODE_TERM) ? lyd_change_term(m, v) : LY_EINVAL;
            sb_fmt(o, "%d", (int)rc);
            fix_first(t);
        } else {
            if (m == T[t]) {
                T[t] = m->next;
            }
            lyd_free_tree(m);
            fix_first(t);
            sb_str(o, "0");
        }
        free(p);
        free(v);
    } else if (!strcmp(w[0], "move") || !strcmp(w[0], "dupins")) {
        NEED(5);
        int t = slot_t(w[1]);
        char *p = arg_str(w[2]), *a = arg_str(w[3]);
        struct lyd_node *n = NULL, *anchor = NULL, *first = NULL;
        LY_ERR rc;

        if (lyd_find_path(T[t], p, 0, &n) || !n || lyd_find_path(T[t], a, 0, &anchor) || !anchor || (n == anchor)) {
            sb_str(o, "-");
        } else {
            if (w[0][0] == 'd') {
                struct lyd_node *d = NULL;

                rc = lyd_dup_single(n, NULL, LYD_DUP_RECURSIVE, &d);
                n = d;
            } else {
                if (n == T[t]) {
                    T[t] = n->next;
                }
                rc = lyd_unlink_tree(n);
            }
            if (!rc) {
                if (w[4][0] == 'c') {
                    rc = lyd_insert_child(anchor, n);
                } else {
                    rc = lyd_insert_sibling(anchor, n, &first);
                }
                if (rc) {
                    lyd_free_tree(n);
                }
            }
            if (!T[t]) {
                T[t] = anchor;
            }
            fix_first(t);
            sb_fmt(o, "%d", (int)rc);
        }
        free(p);
        free(a);
    } else if (!strcmp(w[0], "newterm") || !strcmp(w[0], "newlist")) {
        NEED(5);
        int t = slot_t(w[1]);
        char *pp = arg_str(w[2]), *v = arg_str(w[4]);
        struct lyd_node *parent = NULL, *node = NULL, *first = NULL;
        LY_ERR rc = LY_SUCCESS;

        if (strcmp(w[2], "-") && (lyd_find_path(T[t], pp, 0, &parent) || !parent)) {
            sb_str(o, "-");
        } else {
            if (w[0][3] == 't') {
                rc = lyd_new_term(parent, parent ? NULL : M, w[3], v, 0, &node);
            } else {
                rc = lyd_new_list2(parent, parent ? NULL : M, w[3], v, 0, &node);
            }
            if (!rc && !parent && node) {
                if (T[t]) {
                    rc = lyd_insert_sibling(T[t], node, &first);
                    if (rc) {
                        lyd_free_tree(node);
                    } else {
                        T[t] = first;
                    }
                } else {
                    T[t] = node;
                }
            }
            fix_first(t);
            sb_fmt(o, "%d", (int)rc);
        }
        free(pp);
        free(v);
    } else if (!strcmp(w[0], "rt")) {
        NEED(7);
        int t = slot_t(w[2]);
        struct lyd_node *n = T[slot_t(w[1])], *tree = NULL;
        char *text = NULL;
        LYD_FORMAT f = fmt_of(w[3]);
        LY_ERR rc = lyd_print_mem(&text, n, f, (uint32_t)strtoul(w[4], NULL, 0) | LYD_PRINT_WITHSIBLINGS);

        lyd_free_all(T[t]);
        T[t] = NULL;
        if (rc || !text) {
            sb_fmt(o, "P%d", (int)rc);
        } else {
            struct ly_in *in = NULL;

            ly_in_new_memory(text, &in);
            ly_err_clean(C, NULL);
            rc = lyd_parse_data(C, NULL, in, f, (uint32_t)strtoul(w[5], NULL, 0), (uint32_t)strtoul(w[6], NULL, 0), &tree);
            ly_in_free(in, 0);
            verdict(o, rc);
            if (rc && tree) {
                sb_str(o, "!tree-returned-on-error");
                lyd_free_all(tree);
                tree = NULL;
            }
            T[t] = tree;
        }
        free(text);
    } else if (!strcmp(w[0], "free")) {
        NEED(2);
        lyd_free_all(T[slot_t(w[1])]);
        T[slot_t(w[1])] = NULL;
        sb_str(o, "0");
    } else {
        sb_str(o, "?cmd");
    }
}

int
main(void)
{
    struct vcase c;

    ly_log_options(LY_LOSTORE_LAST);
    ly_set_log_clb(log_cb);
    while (vnext(&c)) {
        struct sbuf o = {0};
        int first = 1;

        sb_str(&o, "");
        for (int i = 1; i < c.nf; i++) {
            if (c.f[i][0] == '#') {
                continue;
            }
            if (!first) {
                sb_str(&o, " | ");
            }
            first = 0;
            run_cmd(c.f[i], &o);
        }
        for (int k = 0; k < NTREE; k++) {
            lyd_free_all(T[k]);
            T[k] = NULL;
        }
        if (C) {
            ly_ctx_destroy(C);
            C = NULL;
        }
        M = NULL;
        fputs(o.s ? o.s : "", stdout);
        free(o.s);
        VEND();
    }
    return 0;
}
