/* t_lyb.c - white-box driver for the LYB chunk layer and schema hashes.
 * The static functions of src/printer_lyb.c, src/parser_lyb.c and src/lyb.c are reached by including
 * the files from the working tree (one translation unit; the archive members are then not linked).
 *
 * components (one case per line, TAB separated):
 *   lybw  <script>                 script = ops separated by ',': S (start siblings), E (stop siblings),
 *                                  W<hex> / W- (lyb_write of these bytes), Wn<count> (count bytes of the fixed pattern)
 *                                  -> <hex of the output> <open siblings as written:position:inner;...>
 *   lybr  <shape> <hex input>      shape = S, E, R<count>  -> <payloads as hex,...> <consumed> <open siblings>
 *   lybrt <script>                 write, then read the produced bytes back with the same shape
 *                                  -> OK <output length> <payload bytes>  |  BAD <first differing payload>
 *   lybhash <mod hex> <name hex> <collision id>   -> lyb_generate_hash()
 *   lybsib  <mod> <name,name,...>  module with these top-level leaves: lyb_hash_siblings(), then for every
 *                                  sibling the bytes of lyb_print_schema_hash() and the sibling that
 *                                  lyb_parse_schema_hash() finds for them
 *                                  -> <hex>:<index> ...  |  E
 * errors: E1 LOGINT, E2 stop without open siblings (not executed), E3 input overrun, A assertion failed.
 */
#include "common.h"
#include <setjmp.h>
#include "printer_lyb.c"
#include "parser_lyb.c"
#include "lyb.c"

static void
log_cb(LY_LOG_LEVEL level, const char *msg, const char *data_path, const char *schema_path, uint64_t line)
{
    (void)level; (void)msg; (void)data_path; (void)schema_path; (void)line;
}

/* assert() of the included code ends the case with the result "A"; when the reader had already run over the
 * end of its input at that moment the result is "E3" (the model stops at the overrun) */
static jmp_buf vjmp;
static int vjmp_armed = 0;
static struct ly_in *vin = NULL;
static size_t vin_len = 0;

void
__assert_fail(const char *assertion, const char *file, unsigned int line, const char *function)
{
    if (vjmp_armed) {
        vjmp_armed = 0;
        longjmp(vjmp, (vin && ((size_t)(vin->current - vin->start) > vin_len)) ? 3 : 1);
    }
    fprintf(stderr, "assert %s %s:%u %s\n", assertion, file, line, function);
    abort();
}

static unsigned char
pattern_byte(size_t i)
{
    return (unsigned char)((i * 7 + i / 251 + 1) & 0xff);
}

struct sop {
    char kind;          /* S E W R */
    unsigned char *buf; /* W: payload */
    size_t len;         /* W, R: count */
};

static struct sop *
parse_script(const char *s, size_t *n_p)
{
    size_t n = 1, i = 0;
    struct sop *ops;

    for (const char *p = s; *p; ++p) {
        n += (*p == ',');
    }
    ops = calloc(n + 1, sizeof *ops);
    while (*s) {
        const char *e = strchr(s, ',');
        size_t l = e ? (size_t)(e - s) : strlen(s);

        ops[i].kind = s[0];
        if ((s[0] == 'W') && (l > 1) && (s[1] == 'n')) {
            ops[i].len = strtoull(s + 2, NULL, 10);
            ops[i].buf = malloc(ops[i].len + 1);
            for (size_t k = 0; k < ops[i].len; k++) {
                ops[i].buf[k] = pattern_byte(k);
            }
        } else if (s[0] == 'W') {
            char *h = strndup(s + 1, l - 1);

            ops[i].buf = (unsigned char *)vunhex(l > 1 ? h : "-", &ops[i].len);
            free(h);
        } else if (s[0] == 'R') {
            ops[i].len = strtoull(s + 1, NULL, 10);
        }
        ++i;
        if (!e) {
            break;
        }
        s = e + 1;
    }
    *n_p = i;
    return ops;
}

static void
free_script(struct sop *ops, size_t n)
{
    for (size_t i = 0; i < n; i++) {
        free(ops[i].buf);
    }
    free(ops);
}

static void
print_sibs(struct lylyb_ctx *lybctx)
{
    LY_ARRAY_COUNT_TYPE u;

    if (!LY_ARRAY_COUNT(lybctx->siblings)) {
        printf("-");
    }
    /* innermost first, as in the model */
    for (u = LY_ARRAY_COUNT(lybctx->siblings); u; --u) {
        printf("%zu:%zu:%u%s", lybctx->siblings[u - 1].written, lybctx->siblings[u - 1].position,
                (unsigned)lybctx->siblings[u - 1].inner_chunks, u > 1 ? ";" : "");
    }
}

/* run the writer; returns 0 or the error class */
static int
run_writer(struct sop *ops, size_t n, struct ly_out *out, struct lylyb_ctx *lybctx)
{
    LY_ERR r = LY_SUCCESS;

    for (size_t i = 0; i < n; i++) {
        switch (ops[i].kind) {
        case 'S':
            r = lyb_write_start_siblings(out, lybctx);
            break;
        case 'E':
            if (!LY_ARRAY_COUNT(lybctx->siblings)) {
                return 2;
            }
            r = lyb_write_stop_siblings(out, lybctx);
            break;
        case 'W':
            r = lyb_write(out, ops[i].buf, ops[i].len, lybctx);
            break;
        default:
            return 9;
        }
        if (r) {
            return (r == LY_EINT) ? 1 : 8;
        }
    }
    /* holes of the still open siblings are uninitialised memory: the model has zeros there */
    for (LY_ARRAY_COUNT_TYPE u = 0; u < LY_ARRAY_COUNT(lybctx->siblings); ++u) {
        memset(*out->method.mem.buf + lybctx->siblings[u].position, 0, LYB_META_BYTES);
    }
    return 0;
}

/* run the reader on data[0..len); payloads[i] receives the bytes of the i-th R op (malloc'ed).
 * returns 0 or the error class */
static int
run_reader(struct sop *ops, size_t n, const unsigned char *data, size_t len, struct lylyb_ctx *lybctx,
        unsigned char **payloads, size_t *consumed)
{
    size_t pad = 4096, np = 0;
    char *buf;
    struct ly_in *in = NULL;
    int rc = 0;

    /* the memory input has no length: pad with zeros so that an overrun stays inside the allocation,
     * and report it as E3 after the call in which it happened */
    for (size_t i = 0; i < n; i++) {
        if ((ops[i].kind == 'R') || (ops[i].kind == 'W')) {
            pad += ops[i].len;
        }
        pad += 64;
    }
    buf = calloc(len + pad, 1);
    if (len) {
        memcpy(buf, data, len);
    }
    ly_in_new_memory(buf, &in);
    lybctx->in = in;
    vin = in;
    vin_len = len;

    for (size_t i = 0; (i < n) && !rc; i++) {
        switch (ops[i].kind) {
        case 'S':
            if (lyb_read_start_siblings(lybctx)) {
                rc = 8;
            }
            break;
        case 'E':
            if (!LY_ARRAY_COUNT(lybctx->siblings)) {
                rc = 2;
            } else if (lyb_read_stop_siblings(lybctx)) {
                rc = 1;
            }
            break;
        case 'R':
        case 'W':
            payloads[np] = calloc(ops[i].len + 1, 1);
            lyb_read(payloads[np], ops[i].len, lybctx);
            ++np;
            break;
        default:
            rc = 9;
            break;
        }
        if ((size_t)(in->current - buf) > len) {
            rc = 3;
        }
    }
    *consumed = in->current - buf;
    vin = NULL;
    ly_in_free(in, 0);
    free(buf);
    return rc;
}

int
main(void)
{
    struct vcase c;
    struct ly_ctx *ctx = NULL;

    ly_set_log_clb(log_cb);
    if (ly_ctx_new(NULL, 0, &ctx)) {
        fprintf(stderr, "ctx\n");
        return 2;
    }

    while (vnext(&c)) {
        const char *comp = c.f[0];

        if (!strcmp(comp, "lybw") || !strcmp(comp, "lybrt")) {
            size_t n, np = 0, consumed = 0;
            struct sop *ops = parse_script(c.nf > 1 ? c.f[1] : "", &n);
            char *mem = NULL;
            struct ly_out *out = NULL;
            struct lylyb_ctx wctx, rctx;
            unsigned char **payloads = calloc(n + 1, sizeof *payloads);
            int rc;

            memset(&wctx, 0, sizeof wctx);
            memset(&rctx, 0, sizeof rctx);
            wctx.ctx = ctx;
            rctx.ctx = ctx;
            ly_out_new_memory(&mem, 0, &out);
            vjmp_armed = 1;
            if ((rc = setjmp(vjmp))) {
                printf(rc == 3 ? (!strcmp(comp, "lybrt") ? "BAD R-E3" : "E3") : "A");
                vin = NULL;
            } else {
                rc = run_writer(ops, n, out, &wctx);
                if (!strcmp(comp, "lybw")) {
                    if (rc) {
                        printf("E%d", rc);
                    } else {
                        vputhex(mem, out->method.mem.len);
                        printf(" ");
                        print_sibs(&wctx);
                    }
                } else if (rc) {
                    printf("W-E%d", rc);
                } else {
                    rc = run_reader(ops, n, (unsigned char *)mem, out->method.mem.len, &rctx, payloads, &consumed);
                    if (rc) {
                        printf("BAD R-E%d", rc);
                    } else {
                        size_t total = 0, bad = 0, k = 0;

                        for (size_t i = 0; i < n; i++) {
                            if (ops[i].kind != 'W') {
                                continue;
                            }
                            if (!bad && memcmp(payloads[k], ops[i].buf, ops[i].len)) {
                                bad = k + 1;
                            }
                            total += ops[i].len;
                            ++k;
                        }
                        if (bad) {
                            printf("BAD payload %zu", bad - 1);
                        } else if (consumed != out->method.mem.len) {
                            printf("BAD consumed %zu of %zu", consumed, out->method.mem.len);
                        } else if (LY_ARRAY_COUNT(rctx.siblings) != LY_ARRAY_COUNT(wctx.siblings)) {
                            printf("BAD depth");
                        } else {
                            printf("OK %zu %zu", out->method.mem.len, total);
                        }
                    }
                }
            }
            vjmp_armed = 0;
            for (np = 0; np <= n; np++) {
                free(payloads[np]);
            }
            free(payloads);
            LY_ARRAY_FREE(wctx.siblings);
            LY_ARRAY_FREE(rctx.siblings);
            ly_out_free(out, NULL, 1);
            free_script(ops, n);
        } else if (!strcmp(comp, "lybr")) {
            size_t n, len, consumed = 0;
            struct sop *ops = parse_script(c.f[1], &n);
            unsigned char *data = (unsigned char *)vunhex(c.nf > 2 ? c.f[2] : "-", &len);
            struct lylyb_ctx rctx;
            unsigned char **payloads = calloc(n + 1, sizeof *payloads);
            int rc;

            memset(&rctx, 0, sizeof rctx);
            rctx.ctx = ctx;
            vjmp_armed = 1;
            if ((rc = setjmp(vjmp))) {
                printf(rc == 3 ? "E3" : "A");
                vin = NULL;
                if (rctx.in) {
                    /* input buffer of the interrupted run */
                    free((char *)rctx.in->start);
                    ly_in_free(rctx.in, 0);
                }
            } else {
                rc = run_reader(ops, n, data, len, &rctx, payloads, &consumed);
                if (rc) {
                    printf("E%d", rc);
                } else {
                    size_t k = 0;

                    for (size_t i = 0; i < n; i++) {
                        if (ops[i].kind != 'R') {
                            continue;
                        }
                        if (k) {
                            printf(",");
                        }
                        vputhex(payloads[k], ops[i].len);
                        ++k;
                    }
                    if (!k) {
                        printf("-");
                    }
                    printf(" %zu ", consumed);
                    print_sibs(&rctx);
                }
            }
            vjmp_armed = 0;
            for (size_t i = 0; i <= n; i++) {
                free(payloads[i]);
            }
            free(payloads);
            LY_ARRAY_FREE(rctx.siblings);
            free(data);
            free_script(ops, n);
        } else if (!strcmp(comp, "lybhash")) {
            size_t l1, l2;
            char *mname = vunhex(c.f[1], &l1), *nname = vunhex(c.f[2], &l2);
            struct lys_module mod;
            struct lysc_node node;

            memset(&mod, 0, sizeof mod);
            memset(&node, 0, sizeof node);
            mod.name = mname;
            node.module = &mod;
            node.name = nname;
            printf("%u", (unsigned)lyb_generate_hash(&node, (uint8_t)atoi(c.f[3])));
            free(mname);
            free(nname);
        } else if (!strcmp(comp, "lybsib")) {
            /* fresh context: module names repeat between cases */
            struct ly_ctx *sctx = NULL;
            struct lys_module *mod = NULL;
            char *yang = NULL;
            size_t cap = strlen(c.f[1]) * 2 + strlen(c.f[2]) * 32 + 256, off;
            const struct lysc_node *first, *sib;
            struct ly_ht *ht = NULL;

            yang = malloc(cap);
            off = snprintf(yang, cap, "module %s {namespace \"urn:%s\"; prefix p;", c.f[1], c.f[1]);
            for (char *p = c.f[2]; *p; ) {
                char *e = strchr(p, ',');
                size_t l = e ? (size_t)(e - p) : strlen(p);

                off += snprintf(yang + off, cap - off, " leaf %.*s {type string;}", (int)l, p);
                p += l + (e ? 1 : 0);
            }
            snprintf(yang + off, cap - off, "}");
            if (ly_ctx_new(NULL, LY_CTX_NO_YANGLIBRARY, &sctx) || lys_parse_mem(sctx, yang, LYS_IN_YANG, &mod)) {
                printf("SCHEMA");
            } else {
                lyb_cache_module_hash(mod);
                first = lys_getnext(NULL, NULL, mod->compiled, 0);
                if (!first) {
                    printf("-");
                } else if (lyb_hash_siblings((struct lysc_node *)first, &ht)) {
                    printf("E");
                } else {
                    const struct lys_module **models = NULL;
                    int k = 0;

                    LY_ARRAY_CREATE_GOTO(sctx, models, 1, off, sibdone);
                    models[0] = mod;
                    LY_ARRAY_INCREMENT(models);
                    for (sib = first; sib; sib = lys_getnext(sib, NULL, mod->compiled, 0), ++k) {
                        char *mem = NULL;
                        struct ly_out *out = NULL;
                        struct ly_in *in = NULL;
                        struct lylyb_ctx pctx, rctx;
                        struct lyd_lyb_ctx lydctx;
                        struct ly_ht *sht = ht;
                        const struct lysc_node *found = NULL, *it;
                        int idx = -1, j = 0;
                        char *buf;

                        memset(&pctx, 0, sizeof pctx);
                        memset(&rctx, 0, sizeof rctx);
                        memset(&lydctx, 0, sizeof lydctx);
                        pctx.ctx = sctx;
                        ly_out_new_memory(&mem, 0, &out);
                        if (lyb_print_schema_hash(out, (struct lysc_node *)sib, &sht, &pctx)) {
                            printf("%sPE", k ? " " : "");
                            ly_out_free(out, NULL, 1);
                            continue;
                        }
                        printf("%s", k ? " " : "");
                        vputhex(mem, out->method.mem.len);
                        /* reader side */
                        buf = calloc(out->method.mem.len + 64, 1);
                        if (out->method.mem.len) {
                            memcpy(buf, mem, out->method.mem.len);
                        }
                        ly_in_new_memory(buf, &in);
                        rctx.ctx = sctx;
                        rctx.in = in;
                        rctx.models = models;
                        lydctx.lybctx = &rctx;
                        lydctx.int_opts = LYD_INTOPT_ANY;
                        if (lyb_parse_schema_hash(&lydctx, NULL, mod, &found)) {
                            printf(":PE");
                        } else {
                            for (it = first; it; it = lys_getnext(it, NULL, mod->compiled, 0), ++j) {
                                if (it == found) {
                                    idx = j;
                                }
                            }
                            printf(":%d", idx);
                        }
                        ly_in_free(in, 0);
                        free(buf);
                        ly_out_free(out, NULL, 1);
                    }
sibdone:
                    LY_ARRAY_FREE(models);
                    lyht_free(ht, NULL);
                }
            }
            free(yang);
            ly_ctx_destroy(sctx);
        } else {
            printf("?");
        }
        VEND();
    }
    ly_ctx_destroy(ctx);
    return 0;
}
