/* t_doc.c — driver of slice `doc` for the API-level round-trip oracle RoundTripX (tools/props/comps_doc.py).
 *
 * The script interpreter of lyx.c (included, its main renamed) plus commands lyx.c lacks:
 *   xopaq  t<k>[#i] c<k> <name> <hexvalue> <prefix|~> <module-name|~>   lyd_new_opaq (JSON format); without #i: new top-level sibling
 *   xopaq2 t<k>[#i] c<k> <name> <hexvalue> <prefix|~> <hex namespace|~> lyd_new_opaq2 (XML format)
 *   xattr  t<k>#i <module-name|~> <name> <hexvalue>                     lyd_new_attr (JSON)
 *   xattr2 t<k>#i <hex namespace|~> <name> <hexvalue>                   lyd_new_attr2 (XML)
 *   xany   t<k>[#i] c<k> <module> <name> <t|s|x|j> <hexvalue>           lyd_new_any; t: the value is XML text parsed into a data tree
 *   xbig   t<k> c<k> <hexpath> <len> <fill char code>                   lyd_new_path with a generated value of len bytes
 *   xdump  t<k>                       dump incl. opaque nodes (resolved module / namespace, name, value, attributes) and anydata
 *   xcmp   t<a> t<b>                  lyd_compare_siblings(FULL_RECURSION|DEFAULTS) ':' number of node pairs whose metadata differ
 *   xrt    t<src> t<dst> fmt print_opts parse_opts val_opts     print + parse back (as lyx rt) and answer  rc  or  P<rc>
 *   xrt1   t<k>#i t<dst> fmt print_opts parse_opts val_opts     as xrt for ONE node (lyd_print_mem of that node, siblings only with
 *                                                               LYD_PRINT_WITHSIBLINGS in print_opts)
 *   xcmp1  t<k>#i t<dst>              lyd_compare_single(FULL_RECURSION|DEFAULTS) of the node and the FIRST node of t<dst> ':'
 *                                     metadata differences ':' number of top-level nodes in t<dst>
 *   xdump1 t<k>#i                     xdump of that node (and its subtree) only
 *   xrtop  t<src> t<dst> fmt <r|n|y> print_opts                 print the operation tree, lyd_parse_op() it back (reply: into a
 *                                                               duplicate of the request's operation node)
 * Answers follow lyx.c (results separated by " | ", then end:...).
 */
#define main lyx_main
#include "lyx.c"
#undef main

static const char *
opaq_modid(const struct lyd_node_opaq *q, char *buf, size_t n)
{
    const struct lys_module *m = NULL;

    if (q->format == LY_VALUE_XML) {
        if (!q->name.module_ns) {
            return "-";
        }
        m = ly_ctx_get_module_implemented_ns(q->ctx, q->name.module_ns);
        if (m) {
            return m->name;
        }
        snprintf(buf, n, "{%s}", q->name.module_ns);
        return buf;
    }
    if (!q->name.module_name) {
        return "-";
    }
    return q->name.module_name;
}

static const char *
attr_modid(const struct lyd_node_opaq *q, const struct lyd_attr *a, char *buf, size_t n)
{
    const struct lys_module *m = NULL;

    if (a->format == LY_VALUE_XML) {
        if (!a->name.module_ns) {
            return "-";
        }
        m = ly_ctx_get_module_implemented_ns(q->ctx, a->name.module_ns);
        if (m) {
            return m->name;
        }
        snprintf(buf, n, "{%s}", a->name.module_ns);
        return buf;
    }
    return a->name.module_name ? a->name.module_name : "-";
}

static void xdump_node(struct sbuf *o, const struct lyd_node *n, int depth);

static void
xdump_one(struct sbuf *o, const struct lyd_node *n, int depth)
{
    const struct lyd_node *c;
    char buf[256];

    {
        sb_fmt(o, "%d:", depth);
        if (n->schema) {
            sb_fmt(o, "%s:%s:", n->schema->module->name, n->schema->name);
            if (n->schema->nodetype & LYD_NODE_TERM) {
                const char *v = lyd_get_value(n);

                sb_str(o, "=");
                sb_hex(o, v, v ? strlen(v) : 0);
            } else if (n->schema->nodetype & LYD_NODE_ANY) {
                const struct lyd_node_any *any = (const struct lyd_node_any *)n;
                char *vs = NULL;

                sb_fmt(o, "a%d", (int)any->value_type);
                if (any->value_type == LYD_ANYDATA_DATATREE) {
                    sb_str(o, "{");
                    xdump_node(o, any->value.tree, 0);
                    sb_str(o, "}");
                } else if (!lyd_any_value_str(n, &vs) && vs) {
                    sb_hex(o, vs, strlen(vs));
                }
                free(vs);
            } else {
                sb_str(o, "i");
            }
            sb_str(o, ":");
            if (n->flags & LYD_DEFAULT) {
                sb_str(o, "d");
            }
            for (const struct lyd_meta *m = n->meta; m; m = m->next) {
                const char *mv = lyd_get_meta_value(m);

                if (lyd_meta_is_internal(m)) {
                    continue;
                }
                sb_fmt(o, ":@%s:%s=", m->annotation->module->name, m->name);
                sb_hex(o, mv, mv ? strlen(mv) : 0);
            }
        } else {
            const struct lyd_node_opaq *q = (const struct lyd_node_opaq *)n;

            sb_fmt(o, "?%s:%s:o", opaq_modid(q, buf, sizeof buf), q->name.name);
            sb_hex(o, q->value, q->value ? strlen(q->value) : 0);
            for (const struct lyd_attr *a = q->attr; a; a = a->next) {
                sb_fmt(o, ":@%s:%s=", attr_modid(q, a, buf, sizeof buf), a->name.name);
                sb_hex(o, a->value, a->value ? strlen(a->value) : 0);
            }
        }
        sb_str(o, ";");
        if ((c = lyd_child(n))) {
            xdump_node(o, c, depth + 1);
        }
    }
}

static void
xdump_node(struct sbuf *o, const struct lyd_node *n, int depth)
{
    for ( ; n; n = n->next) {
        xdump_one(o, n, depth);
    }
}

static long meta_diffs(const struct lyd_node *a, const struct lyd_node *b);

static long
meta_diffs1(const struct lyd_node *a, const struct lyd_node *b)
{
    long d = 0;

    if (!a || !b) {
        return (a || b) ? 1 : 0;
    }
    if (a->schema && b->schema) {
        const struct lyd_meta *m1 = a->meta, *m2 = b->meta;

        for ( ; ; ) {
            while (m1 && lyd_meta_is_internal(m1)) {
                m1 = m1->next;
            }
            while (m2 && lyd_meta_is_internal(m2)) {
                m2 = m2->next;
            }
            if (!m1 || !m2) {
                break;
            }
            if (lyd_compare_meta(m1, m2)) {
                ++d;
            }
            m1 = m1->next;
            m2 = m2->next;
        }
        if (m1 || m2) {
            ++d;
        }
    }
    return d + meta_diffs(lyd_child(a), lyd_child(b));
}

static long
meta_diffs(const struct lyd_node *a, const struct lyd_node *b)
{
    long d = 0;

    for ( ; a && b; a = a->next, b = b->next) {
        if (a->schema && b->schema) {
            const struct lyd_meta *m1 = a->meta, *m2 = b->meta;

            for ( ; ; ) {
                while (m1 && lyd_meta_is_internal(m1)) {
                    m1 = m1->next;
                }
                while (m2 && lyd_meta_is_internal(m2)) {
                    m2 = m2->next;
                }
                if (!m1 || !m2) {
                    break;
                }
                if (lyd_compare_meta(m1, m2)) {
                    ++d;
                }
                m1 = m1->next;
                m2 = m2->next;
            }
            if (m1 || m2) {
                ++d;
            }
        }
        d += meta_diffs(lyd_child(a), lyd_child(b));
    }
    if (a || b) {
        ++d;
    }
    return d;
}

static struct lyd_node *
top_of(struct lyd_node *n)
{
    while (n && lyd_parent(n)) {
        n = lyd_parent(n);
    }
    return n;
}

static void
attach_top(int t, struct lyd_node *node)
{
    if (!node) {
        return;
    }
    if (!T[t]) {
        T[t] = node;
    } else {
        struct lyd_node *first = NULL;

        lyd_insert_sibling(T[t], node, &first);
        if (first) {
            T[t] = first;
        }
    }
    fix_first(t);
}

static int
xcmd(char *cmd, struct sbuf *o)
{
    char *copy, *w[12];
    int nw = 0;

    if (cmd[0] != 'x') {
        return 0;
    }
    copy = strdup(cmd);
    for (char *p = strtok(copy, " "); p && (nw < 12); p = strtok(NULL, " ")) {
        w[nw++] = p;
    }
#define XNEED(n) if (nw < (n)) { sb_str(o, "?args"); free(copy); return 1; }
    if (!nw) {
        free(copy);
        return 0;
    }
    if (!strcmp(w[0], "xopaq") || !strcmp(w[0], "xopaq2")) {
        XNEED(7);
        int t = slot_t(w[1]), c = slot_c(w[2]);
        struct lyd_node *parent = strchr(w[1], '#') ? node_at(w[1]) : NULL, *node = NULL;
        char *val = arg_str(w[4]);
        const char *pref = strcmp(w[5], "~") ? w[5] : NULL;
        LY_ERR rc;

        if (!strcmp(w[0], "xopaq")) {
            rc = lyd_new_opaq(parent, C[c], w[3], val, pref, strcmp(w[6], "~") ? w[6] : NULL, &node);
        } else {
            char *ns = arg_str(w[6]);

            rc = lyd_new_opaq2(parent, C[c], w[3], val, pref, ns, &node);
            free(ns);
        }
        if (!rc && !parent) {
            attach_top(t, node);
        }
        err_info(o, C[c], rc);
        free(val);
    } else if (!strcmp(w[0], "xattr") || !strcmp(w[0], "xattr2")) {
        XNEED(5);
        struct lyd_node *n = node_at(w[1]);
        char *val = arg_str(w[4]);
        LY_ERR rc;

        if (!n) {
            sb_str(o, "?node");
        } else {
            if (!strcmp(w[0], "xattr")) {
                rc = lyd_new_attr(n, strcmp(w[2], "~") ? w[2] : NULL, w[3], val, NULL);
            } else {
                char *ns = arg_str(w[2]);

                rc = lyd_new_attr2(n, ns, w[3], val, NULL);
                free(ns);
            }
            sb_fmt(o, "%d", (int)rc);
        }
        free(val);
    } else if (!strcmp(w[0], "xany")) {
        XNEED(7);
        int t = slot_t(w[1]), c = slot_c(w[2]);
        struct lyd_node *parent = strchr(w[1], '#') ? node_at(w[1]) : NULL, *node = NULL, *tree = NULL;
        const struct lys_module *mod = ly_ctx_get_module_implemented(C[c], w[3]);
        char *val = arg_str(w[6]);
        LY_ERR rc;

        if (w[5][0] == 't') {
            rc = lyd_parse_data_mem(C[c], val ? val : "", LYD_XML, LYD_PARSE_ONLY | LYD_PARSE_OPAQ, 0, &tree);
            if (!rc) {
                rc = lyd_new_any(parent, mod, w[4], tree, LYD_ANYDATA_DATATREE, LYD_NEW_ANY_USE_VALUE, &node);
                if (rc) {
                    lyd_free_all(tree);
                }
            }
        } else {
            LYD_ANYDATA_VALUETYPE vt = (w[5][0] == 'x') ? LYD_ANYDATA_XML : (w[5][0] == 'j') ? LYD_ANYDATA_JSON : LYD_ANYDATA_STRING;

            rc = lyd_new_any(parent, mod, w[4], val, vt, 0, &node);
        }
        if (!rc && !parent) {
            attach_top(t, node);
        }
        err_info(o, C[c], rc);
        free(val);
    } else if (!strcmp(w[0], "xbig")) {
        XNEED(6);
        int t = slot_t(w[1]), c = slot_c(w[2]);
        char *path = arg_str(w[3]);
        size_t len = (size_t)strtoul(w[4], NULL, 0);
        char *val = malloc(len + 1);
        struct lyd_node *np = NULL;
        LY_ERR rc;

        memset(val, atoi(w[5]), len);
        val[len] = 0;
        rc = lyd_new_path2(T[t], C[c], path, val, len, LYD_ANYDATA_STRING, 0, &np, NULL);
        if (!T[t] && np) {
            T[t] = np;
        }
        fix_first(t);
        err_info(o, C[c], rc);
        free(val);
        free(path);
    } else if (!strcmp(w[0], "xdump")) {
        XNEED(2);
        xdump_node(o, T[slot_t(w[1])], 0);
        if (!T[slot_t(w[1])]) {
            sb_str(o, "empty");
        }
    } else if (!strcmp(w[0], "xcmp")) {
        XNEED(3);
        const struct lyd_node *a = T[slot_t(w[1])], *b = T[slot_t(w[2])];

        sb_fmt(o, "%d:%ld", (int)lyd_compare_siblings(a, b, LYD_COMPARE_FULL_RECURSION | LYD_COMPARE_DEFAULTS), meta_diffs(a, b));
    } else if (!strcmp(w[0], "xdump1")) {
        XNEED(2);
        const struct lyd_node *n1 = node_at(w[1]);

        if (n1) {
            int depth = 0;

            for (const struct lyd_node *par = lyd_parent(n1); par; par = lyd_parent(par)) {
                ++depth;
            }
            xdump_one(o, n1, depth);
        } else {
            sb_str(o, "empty");
        }
    } else if (!strcmp(w[0], "xcmp1")) {
        XNEED(3);
        const struct lyd_node *a = node_at(w[1]), *b = T[slot_t(w[2])], *it;
        int cnt = 0;

        for (it = b; it; it = it->next) {
            ++cnt;
        }
        sb_fmt(o, "%d:%ld:%d", (a && b) ? (int)lyd_compare_single(a, b, LYD_COMPARE_FULL_RECURSION | LYD_COMPARE_DEFAULTS) : -1,
                meta_diffs1(a, b), cnt);
    } else if (!strcmp(w[0], "xrt") || !strcmp(w[0], "xrt1")) {
        XNEED(7);
        int t = slot_t(w[2]);
        struct lyd_node *n = !strcmp(w[0], "xrt1") ? node_at(w[1]) : T[slot_t(w[1])], *tree = NULL;
        const struct ly_ctx *ctx = n ? LYD_CTX(n) : C[0];
        char *s = NULL;
        LYD_FORMAT f = fmt_of(w[3]);
        LY_ERR rc = lyd_print_mem(&s, n, f, (uint32_t)strtoul(w[4], NULL, 0));

        lyd_free_all(T[t]);
        T[t] = NULL;
        if (rc) {
            sb_fmt(o, "P%d", (int)rc);
        } else if (!s) {
            sb_str(o, "0");
        } else {
            struct ly_in *in = NULL;

            ly_in_new_memory(s, &in);
            rc = lyd_parse_data(ctx, NULL, in, f, (uint32_t)strtoul(w[5], NULL, 0), (uint32_t)strtoul(w[6], NULL, 0), &tree);
            ly_in_free(in, 0);
            err_info(o, ctx, rc);
            if (rc) {
                sb_errclass(o, ctx);
                lyd_free_all(tree);
                tree = NULL;
            }
            T[t] = tree;
        }
        free(s);
    } else if (!strcmp(w[0], "xrtop")) {
        XNEED(6);
        int t = slot_t(w[2]);
        struct lyd_node *n = T[slot_t(w[1])], *tree = NULL, *op = NULL;
        const struct ly_ctx *ctx = n ? LYD_CTX(n) : C[0];
        char *s = NULL;
        LYD_FORMAT f = fmt_of(w[3]);
        enum lyd_type ty = (w[4][0] == 'r') ? LYD_TYPE_RPC_YANG : (w[4][0] == 'n') ? LYD_TYPE_NOTIF_YANG : LYD_TYPE_REPLY_YANG;
        struct lyd_node *opn = NULL, *parent = NULL;
        LY_ERR rc;

        if (ty == LYD_TYPE_REPLY_YANG) {
            /* the reply is the content of the operation node; it is parsed into a duplicate of that node */
            for (opn = n; opn; opn = dfs_next(opn)) {
                if (opn->schema && (opn->schema->nodetype & (LYS_RPC | LYS_ACTION))) {
                    break;
                }
            }
            if (!opn) {
                sb_str(o, "?noop");
                free(copy);
                return 1;
            }
            rc = lyd_print_mem(&s, lyd_child(opn), f, (uint32_t)strtoul(w[5], NULL, 0) | LYD_PRINT_WITHSIBLINGS);
            if (!rc) {
                rc = lyd_dup_single(opn, NULL, LYD_DUP_WITH_PARENTS, &parent);
            }
        } else {
            rc = lyd_print_mem(&s, n, f, (uint32_t)strtoul(w[5], NULL, 0));
        }

        lyd_free_all(T[t]);
        T[t] = NULL;
        if (rc) {
            sb_fmt(o, "P%d", (int)rc);
            lyd_free_all(top_of(parent));
        } else if (!s && (ty != LYD_TYPE_REPLY_YANG)) {
            sb_str(o, "0");
        } else {
            struct ly_in *in = NULL;

            ly_in_new_memory(s ? s : "", &in);
            if (ty == LYD_TYPE_REPLY_YANG) {
                rc = lyd_parse_op(ctx, parent, in, f, ty, NULL, &op);
                tree = top_of(parent);
            } else {
                rc = lyd_parse_op(ctx, NULL, in, f, ty, &tree, &op);
            }
            ly_in_free(in, 0);
            err_info(o, ctx, rc);
            if (rc) {
                sb_errclass(o, ctx);
                lyd_free_all(tree);
                tree = NULL;
            }
            T[t] = tree;
        }
        free(s);
    } else {
        free(copy);
        return 0;
    }
    free(copy);
    return 1;
}

int
main(void)
{
    struct vcase c;

    ly_set_log_clb(log_cb);
    ly_log_options(LY_LOLOG | LY_LOSTORE_LAST);
    while (vnext(&c)) {
        struct sbuf o = {0};

        notfreed_warn = 0;
        for (int i = 1; i < c.nf; i++) {
            if (i > 1) {
                sb_str(&o, " | ");
            }
            if (!xcmd(c.f[i], &o)) {
                run_cmd(c.f[i], &o);
            }
        }
        for (int i = 0; i < NTREE; i++) {
            lyd_free_all(T[i]);
            T[i] = NULL;
        }
        for (int i = 0; i < NCTX; i++) {
            if (C[i]) {
                ly_ctx_destroy(C[i]);
                C[i] = NULL;
            }
        }
        sb_fmt(&o, " | end:0:%d", notfreed_warn);
        fputs(o.s, stdout);
        free(o.s);
        VEND();
    }
    return 0;
}
