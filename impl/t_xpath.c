/* t_xpath.c — driver of slice `xpath` (property C08): XPath evaluation on data.
 *
 * The evaluator is reached through the public lyd_eval_xpath4() and, to see text/root items of a node-set and the
 * number -> string conversion, through lyxp_eval()/lyxp_set_cast() (xpath.c is included from the working tree, so
 * every static function of it is the one of the tree under test).
 *
 *   xpd  <yang-hex[,yang-hex...]> <xml-hex>                       print the canonical dump of the validated tree
 *   xp   <yang...> <xml-hex> <dump> <ctx> <expr-hex> [<ast>]      evaluate <expr> with context node <ctx>
 *   xp2  <yang...> <xml-hex> <kind> <expr1-hex> <expr2-hex>       evaluate both from the root: `<result1> || <result2>`
 *   xpa  <yang...> <expr-hex>                                     lys_find_xpath_atoms(ctx, NULL, expr, 0): `<rc>:<count>`
 *   xpk  <kernel> <args...>                                       conversion kernels (see below)
 *
 * <ctx> = pre-order index of the context node in the whole forest (default nodes included), -1 = the root.
 * <dump> = the dump the case was generated for (`?` = do not check): when the tree under test dumps differently the
 * answer is DUMPDIFF (the generator asks for the dump with xpd first, so this only happens when parsing is not
 * deterministic).
 * dump: records joined by `;`, one per node in document order:
 *   <depth>:<kind>:<module>:<name>:<value-hex>:<dflt>:<type>:<keys>
 *   kind c container, l list, f leaf, t leaf-list; type of a term node: i<min>,<max> integer types, d<fraction digits>
 *   decimal64, s anything else (and inner nodes); keys: names of the keys of a list joined by `,` or `-`.
 * result of xp:
 *   N:<item>,<item>...   node-set in the order libyang holds it; item = r (root) | e<idx> | t<idx> (text node of idx) | m
 *   S:<hex>              string
 *   F:<num>:<str-hex>    number: exact value (see put_num) and libyang's own conversion to string of it
 *   B:0 | B:1
 *   E<rc>                evaluation or parse error (LY_ERR number; 7 = LY_EVALID)
 * followed by ` A:<ok|DIFF>` telling whether lyd_eval_xpath4() reports the same type and value (element nodes only),
 * and in AddressSanitizer builds by ` LEAK` when the case left unreachable memory behind.
 *
 * Numbers are printed exactly: nan, inf, -inf, -0, or <sign><odd mantissa>p<binary exponent> (long double has a 64-bit
 * mantissa, so this is exact), 0 for +0.
 *
 * kernels (xpk):  s2n <hex>        cast_string_to_number             -> number
 *                 n2s <num-expr>   number given as XPath expression evaluated by the library (e.g. `1 div 4`) -> F line
 */
#include "common.h"
#include <math.h>
#include "xpath.c"

/* under AddressSanitizer the leak checker runs after every case: a leak is reported on the line of its case */
#if defined(__SANITIZE_ADDRESS__)
# define T_XPATH_LSAN 1
#elif defined(__has_feature)
# if __has_feature(address_sanitizer)
#  define T_XPATH_LSAN 1
# endif
#endif
#ifdef T_XPATH_LSAN
int __lsan_do_recoverable_leak_check(void);
#endif

static void
log_cb(LY_LOG_LEVEL level, const char *msg, const char *data_path, const char *schema_path, uint64_t line)
{
    (void)level; (void)msg; (void)data_path; (void)schema_path; (void)line;
}

static struct ly_ctx *g_ctx;
static struct lyd_node *g_tree;
static char *g_yang, *g_xml;
static const struct lyd_node **g_nodes;
static size_t g_nnodes, g_cap;
static int g_loaderr;

static void
index_rec(const struct lyd_node *n)
{
    const struct lyd_node *ch;

    if (g_nnodes == g_cap) {
        g_cap = g_cap ? 2 * g_cap : 256;
        g_nodes = realloc(g_nodes, g_cap * sizeof *g_nodes);
    }
    g_nodes[g_nnodes++] = n;
    LY_LIST_FOR(lyd_child(n), ch) {
        index_rec(ch);
    }
}

static long
node_index(const struct lyd_node *n)
{
    for (size_t i = 0; i < g_nnodes; i++) {
        if (g_nodes[i] == n) {
            return (long)i;
        }
    }
    return -2;
}

/* (re)load context and tree when the yang/xml fields differ from the previous case */
static int
load(const char *yang, const char *xml)
{
    const struct lyd_node *n;

    if (g_yang && !strcmp(g_yang, yang) && g_xml && !strcmp(g_xml, xml)) {
        return g_loaderr;
    }
    if (!g_yang || strcmp(g_yang, yang)) {
        lyd_free_all(g_tree);
        g_tree = NULL;
        free(g_xml);
        g_xml = NULL;
        ly_ctx_destroy(g_ctx);
        g_ctx = NULL;
        free(g_yang);
        g_yang = strdup(yang);
        g_loaderr = 0;
        if (ly_ctx_new(NULL, 0, &g_ctx)) {
            g_loaderr = 1;
            return 1;
        }
        char *copy = strdup(yang), *save = NULL;
        for (char *tok = strtok_r(copy, ",", &save); tok; tok = strtok_r(NULL, ",", &save)) {
            char *txt = vunhex(tok, NULL);
            if (lys_parse_mem(g_ctx, txt, LYS_IN_YANG, NULL)) {
                g_loaderr = 2;
            }
            free(txt);
        }
        free(copy);
        if (g_loaderr) {
            return g_loaderr;
        }
    }
    lyd_free_all(g_tree);
    g_tree = NULL;
    free(g_xml);
    g_xml = strdup(xml);
    g_nnodes = 0;
    g_loaderr = 0;
    {
        char *txt = vunhex(xml, NULL);
        /* parse + validate: default nodes are created */
        if (lyd_parse_data_mem(g_ctx, txt, LYD_XML, LYD_PARSE_STRICT, LYD_VALIDATE_PRESENT, &g_tree)) {
            g_loaderr = 3;
        }
        free(txt);
    }
    if (!g_loaderr) {
        LY_LIST_FOR(g_tree, n) {
            index_rec(n);
        }
    }
    return g_loaderr;
}

static void
put_type(FILE *f, const struct lyd_node *n)
{
    const struct lysc_type *ty;

    if (!n->schema || !(n->schema->nodetype & LYD_NODE_TERM)) {
        fputc('s', f);
        return;
    }
    ty = ((struct lyd_node_term *)n)->value.realtype;
    switch (ty->basetype) {
    case LY_TYPE_INT8: fprintf(f, "i-128,127"); break;
    case LY_TYPE_INT16: fprintf(f, "i-32768,32767"); break;
    case LY_TYPE_INT32: fprintf(f, "i-2147483648,2147483647"); break;
    case LY_TYPE_INT64: fprintf(f, "i-9223372036854775808,9223372036854775807"); break;
    case LY_TYPE_UINT8: fprintf(f, "i0,255"); break;
    case LY_TYPE_UINT16: fprintf(f, "i0,65535"); break;
    case LY_TYPE_UINT32: fprintf(f, "i0,4294967295"); break;
    case LY_TYPE_UINT64: fprintf(f, "i0,18446744073709551615"); break;
    case LY_TYPE_DEC64: fprintf(f, "d%u", (unsigned)((struct lysc_type_dec *)ty)->fraction_digits); break;
    default: fputc('s', f); break;
    }
}

static char *
dump_tree(void)
{
    char *buf = NULL;
    size_t len = 0;
    FILE *f = open_memstream(&buf, &len);

    for (size_t i = 0; i < g_nnodes; i++) {
        const struct lyd_node *n = g_nodes[i], *p;
        int depth = 0;
        char kind = '?';
        const char *val = "";

        for (p = lyd_parent(n); p; p = lyd_parent(p)) {
            ++depth;
        }
        switch (n->schema ? n->schema->nodetype : 0) {
        case LYS_CONTAINER: kind = 'c'; break;
        case LYS_LIST: kind = 'l'; break;
        case LYS_LEAF: kind = 'f'; val = lyd_get_value(n); break;
        case LYS_LEAFLIST: kind = 't'; val = lyd_get_value(n); break;
        default: break;
        }
        fprintf(f, "%s%d:%c:%s:%s:", i ? ";" : "", depth, kind, n->schema ? n->schema->module->name : "?", LYD_NAME(n));
        if (!val[0]) {
            fputc('-', f);
        } else {
            for (const unsigned char *q = (const unsigned char *)val; *q; q++) {
                fprintf(f, "%02x", *q);
            }
        }
        fprintf(f, ":%d:", (n->flags & LYD_DEFAULT) ? 1 : 0);
        put_type(f, n);
        fputc(':', f);
        if (n->schema && (n->schema->nodetype == LYS_LIST)) {
            const struct lysc_node *k;
            int any = 0;

            for (k = lysc_node_child(n->schema); k && (k->flags & LYS_KEY); k = k->next) {
                fprintf(f, "%s%s", any ? "," : "", k->name);
                any = 1;
            }
            if (!any) {
                fputc('-', f);
            }
        } else {
            fputc('-', f);
        }
    }
    fclose(f);
    return buf;
}

/* exact value of a long double */
static void
put_num(long double v)
{
    if (isnan(v)) {
        printf("nan");
    } else if (isinf(v)) {
        printf(signbit(v) ? "-inf" : "inf");
    } else if (v == 0) {
        printf(signbit(v) ? "-0" : "0");
    } else {
        int e;
        long double m = frexpl(fabsl(v), &e);      /* 0.5 <= m < 1 */
        uint64_t mi = (uint64_t)ldexpl(m, 64);    /* exact: 64-bit mantissa */
        e -= 64;
        while (!(mi & 1)) {
            mi >>= 1;
            ++e;
        }
        printf("%s%" PRIu64 "p%d", signbit(v) ? "-" : "", mi, e);
    }
}

static void
put_num_with_str(long double v)
{
    struct lyxp_set s;

    put_num(v);
    memset(&s, 0, sizeof s);
    s.type = LYXP_SET_NUMBER;
    s.val.num = v;
    s.ctx = g_ctx;
    fputc(':', stdout);
    if (lyxp_set_cast(&s, LYXP_SET_STRING)) {
        printf("E");
    } else {
        vputhex(s.val.str, strlen(s.val.str));
        lyxp_set_free_content(&s);
    }
}

static void
eval_case(const struct lyd_node *ctx_node, const char *expr)
{
    struct lyxp_expr *exp = NULL;
    struct lyxp_set set;
    LY_ERR rc;
    LY_XPATH_TYPE rtype = 0;
    struct ly_set *nset = NULL;
    char *str = NULL;
    long double num = 0;
    ly_bool bln = 0;
    int same = 1;

    memset(&set, 0, sizeof set);
    rc = lyxp_expr_parse(g_ctx, expr, 0, 1, &exp);
    if (!rc) {
        /* exactly what lyd_eval_xpath4() does */
        rc = lyxp_eval(g_ctx, exp, NULL, LY_VALUE_JSON, NULL, ctx_node, ctx_node, g_tree, NULL, &set, LYXP_IGNORE_WHEN);
    }
    LY_ERR rc2 = lyd_eval_xpath4(ctx_node, g_tree, NULL, expr, LY_VALUE_JSON, NULL, NULL, &rtype, &nset, &str, &num, &bln);

    if (rc) {
        printf("E%d", (int)rc);
        same = (rc2 == rc);
    } else {
        switch (set.type) {
        case LYXP_SET_NODE_SET: {
            uint32_t k = 0;

            printf("N:");
            same = !rc2 && (rtype == LY_XPATH_NODE_SET);
            for (uint32_t i = 0; i < set.used; i++) {
                struct lyxp_set_node *it = &set.val.nodes[i];

                if (i) {
                    fputc(',', stdout);
                }
                switch (it->type) {
                case LYXP_NODE_ROOT:
                case LYXP_NODE_ROOT_CONFIG:
                    printf("r");
                    break;
                case LYXP_NODE_ELEM:
                    printf("e%ld", node_index(it->node));
                    if (same && ((k >= nset->count) || (nset->dnodes[k] != it->node))) {
                        same = 0;
                    }
                    ++k;
                    break;
                case LYXP_NODE_TEXT:
                    printf("t%ld", node_index(it->node));
                    break;
                case LYXP_NODE_META:
                    printf("m");
                    break;
                default:
                    printf("?");
                    break;
                }
            }
            if (same && (k != nset->count)) {
                same = 0;
            }
            break;
        }
        case LYXP_SET_STRING:
            printf("S:");
            vputhex(set.val.str, strlen(set.val.str));
            same = !rc2 && (rtype == LY_XPATH_STRING) && str && !strcmp(str, set.val.str);
            break;
        case LYXP_SET_NUMBER:
            printf("F:");
            put_num_with_str(set.val.num);
            same = !rc2 && (rtype == LY_XPATH_NUMBER) &&
                    ((isnan(num) && isnan(set.val.num)) || ((num == set.val.num) && (signbit(num) == signbit(set.val.num))));
            break;
        case LYXP_SET_BOOLEAN:
            printf("B:%d", set.val.bln ? 1 : 0);
            same = !rc2 && (rtype == LY_XPATH_BOOLEAN) && (!bln == !set.val.bln);
            break;
        default:
            printf("T?%d", (int)set.type);
            break;
        }
        lyxp_set_free_content(&set);
    }
    printf(" A:%s", same ? "ok" : "DIFF");
    lyxp_expr_free(g_ctx, exp);
    ly_set_free(nset, NULL);
    free(str);
}

int
main(void)
{
    struct vcase c;

    ly_set_log_clb(log_cb);
    ly_log_options(0);

    while (vnext(&c)) {
        const char *comp = c.f[0];

        if (!strcmp(comp, "xpd") && (c.nf >= 3)) {
            int e = load(c.f[1], c.f[2]);

            if (e) {
                printf("LOADERR%d", e);
            } else {
                char *d = dump_tree();

                printf("%s", g_nnodes ? d : "-");
                free(d);
            }
        } else if (!strcmp(comp, "xp") && (c.nf >= 6)) {
            int e = load(c.f[1], c.f[2]);

            if (e) {
                printf("LOADERR%d", e);
            } else {
                char *d = dump_tree();
                long ctx = strtol(c.f[4], NULL, 10);

                if (strcmp(c.f[3], "?") && strcmp(c.f[3], g_nnodes ? d : "-")) {
                    printf("DUMPDIFF");
                } else if ((ctx < -1) || (ctx >= (long)g_nnodes) || !g_tree) {
                    printf("BADCTX");
                } else {
                    char *expr = vunhex(c.f[5], NULL);

                    eval_case(ctx < 0 ? NULL : g_nodes[ctx], expr);
                    free(expr);
                }
                free(d);
            }
        } else if (!strcmp(comp, "xp2") && (c.nf >= 6)) {
            int e = load(c.f[1], c.f[2]);

            if (e || !g_tree) {
                printf("LOADERR%d", e);
            } else {
                char *e1 = vunhex(c.f[4], NULL), *e2 = vunhex(c.f[5], NULL);

                eval_case(NULL, e1);
                printf(" || ");
                eval_case(NULL, e2);
                free(e1);
                free(e2);
            }
        } else if (!strcmp(comp, "xpa") && (c.nf >= 3)) {
            /* schema evaluation: only the modules are needed (empty document) */
            int e = load(c.f[1], "-");

            if (e && (e != 3)) {
                printf("LOADERR%d", e);
            } else {
                char *expr = vunhex(c.f[2], NULL);
                struct ly_set *set = NULL;
                LY_ERR r = lys_find_xpath_atoms(g_ctx, NULL, expr, 0, &set);

                printf("%d:%u", (int)r, set ? set->count : 0);
                ly_set_free(set, NULL);
                free(expr);
            }
        } else if (!strcmp(comp, "xpm") && (c.nf >= 3)) {
            /* must decisions: parse without validation, add the default nodes, evaluate every must of every data node
             * (explicit and default ones) with lyd_eval_xpath3(), then let lyd_validate_module() decide on the same data.
             * output  M:<number of musts>:<number of false musts>:<evaluation errors>:<validation 0 accepted / 1 refused> */
            int e = load(c.f[1], "-");

            if (e && (e != 3)) {
                printf("LOADERR%d", e);
            } else {
                char *txt = vunhex(c.f[2], NULL);
                struct lyd_node *tree = NULL, *root, *node;
                unsigned nm = 0, nfalse = 0, nerr = 0;

                const struct lys_module *mod = ly_ctx_get_module_implemented(g_ctx, "m");

                /* (the data of module m only: the internal modules have mandatory state data) */
                if (!mod || lyd_parse_data_mem(g_ctx, txt, LYD_XML, LYD_PARSE_STRICT | LYD_PARSE_ONLY, 0, &tree) ||
                        lyd_new_implicit_module(&tree, mod, 0, NULL)) {
                    printf("PARSEERR");
                } else {
                    LY_LIST_FOR(tree, root) {
                        LYD_TREE_DFS_BEGIN(root, node) {
                            struct lysc_must *musts = node->schema ? lysc_node_musts(node->schema) : NULL;
                            LY_ARRAY_COUNT_TYPE u;

                            LY_ARRAY_FOR(musts, u) {
                                ly_bool res = 0;

                                ++nm;
                                if (lyd_eval_xpath3(node, node->schema->module, lyxp_get_expr(musts[u].cond),
                                        LY_VALUE_SCHEMA_RESOLVED, musts[u].prefixes, NULL, &res)) {
                                    ++nerr;
                                } else if (!res) {
                                    ++nfalse;
                                }
                            }
                            LYD_TREE_DFS_END(root, node);
                        }
                    }
                    uint32_t lo = LY_LOLOG | LY_LOSTORE_LAST, *prev_lo = ly_temp_log_options(&lo);
                    LY_ERR vr = lyd_validate_module(&tree, mod, 0, NULL);
                    const struct ly_err_item *ei = vr ? ly_err_last(g_ctx) : NULL;

                    ly_temp_log_options(prev_lo);

                    /* a refusal that is not about a must statement is reported as such */
                    printf("M:%u:%u:%u:%d%s", nm, nfalse, nerr, vr ? 1 : 0,
                            (vr && !(ei && ei->msg && strstr(ei->msg, "Must condition"))) ? ":OTHER" : "");
                    if (vr && getenv("T_XPATH_DEBUG")) {
                        fprintf(stderr, "validation %d: %s\n", (int)vr, ei && ei->msg ? ei->msg : "(no message)");
                    }
                }
                lyd_free_all(tree);
                free(txt);
            }
        } else if (!strcmp(comp, "xpk") && (c.nf >= 3) && !strcmp(c.f[1], "s2n")) {
            char *s = vunhex(c.f[2], NULL);

            printf("F:");
            put_num(cast_string_to_number(s));
            free(s);
        } else if (!strcmp(comp, "xpk") && (c.nf >= 3) && !strcmp(c.f[1], "n2s")) {
            /* value given as decimal text, converted by strtold as eval_number() does */
            char *s = vunhex(c.f[2], NULL);

            if (!g_ctx) {
                ly_ctx_new(NULL, 0, &g_ctx);
            }
            printf("F:");
            put_num_with_str(strtold(s, NULL));
            free(s);
        } else {
            printf("?");
        }
#ifdef T_XPATH_LSAN
        if (__lsan_do_recoverable_leak_check()) {
            printf(" LEAK");
        }
#endif
        VEND();
    }
    lyd_free_all(g_tree);
    ly_ctx_destroy(g_ctx);
    return 0;
}
