/* t_ytext.c — white-box driver of slice ytext:
 *   - the string printer of src/printer_yang.c (static ypr_encode(), ypr_text()) reached by including the file,
 *   - the quoted-string lexer of src/parser_yang.c (get_argument() -> static read_qstring()),
 *   - lyd_path() predicate quoting (src/tree_data.c) against lyd_find_path()/lyd_find_xpath(),
 *   - the API-level module round trip for a description / units string (lys_parse_mem + lys_print_mem).
 */
#include "common.h"
#include "printer_yang.c"
#include "in_internal.h"

/* not static in parser_yang.c, but not declared in a header */
LY_ERR get_argument(struct lysp_yang_ctx *ctx, enum yang_arg arg, uint16_t *flags, char **word_p,
        char **word_b, size_t *word_len);

static void
log_cb(LY_LOG_LEVEL level, const char *msg, const char *data_path, const char *schema_path, uint64_t line)
{
    (void)level; (void)msg; (void)data_path; (void)schema_path; (void)line;
}

static struct ly_ctx *ctx;
static struct lysp_yang_ctx *yctx;

/* parser context as built by tests/utests/schema/test_yang.c */
static void
yctx_setup(void)
{
    struct lysp_module *pmod;

    yctx = calloc(1, sizeof *yctx);
    yctx->main_ctx = (struct lysp_ctx *)yctx;
    yctx->format = LYS_IN_YANG;
    ly_set_new(&yctx->parsed_mods);
    pmod = calloc(1, sizeof *pmod);
    ly_set_add(yctx->parsed_mods, pmod, 1, NULL);
    pmod->mod = calloc(1, sizeof *pmod->mod);
    pmod->mod->ctx = ctx;
    pmod->mod->parsed = pmod;
}

/* ypr_text() into memory; returns malloc'ed NUL-terminated text */
static char *
do_print(int shrink, unsigned level, int flags, const char *name, const char *s)
{
    struct lys_ypr_ctx pc;
    struct ly_out *out = NULL;
    char *mem = NULL;

    memset(&pc, 0, sizeof pc);
    ly_out_new_memory(&mem, 0, &out);
    pc.out = out;
    pc.level = (uint16_t)level;
    pc.options = shrink ? LY_PRINT_SHRINK : 0;
    pc.schema = LYS_YPR_PARSED;
    ypr_text(&pc, name, s, flags);
    ly_print_flush(out);
    ly_out_free(out, NULL, 0);
    return mem ? mem : strdup("");
}

/* get_argument() on text (which starts at a quote) with ctx->indent = col; prints "E" or "<hex> <consumed>" */
static void
do_lex(const char *text, uint64_t col)
{
    struct ly_in *in = NULL;
    char *word = NULL, *buf = NULL;
    size_t wlen = 0;

    if ((text[0] != '"') && (text[0] != '\'')) {
        printf("N");
        return;
    }
    ly_in_new_memory(text, &in);
    yctx->in = in;
    yctx->indent = col;
    if (get_argument(yctx, Y_STR_ARG, NULL, &word, &buf, &wlen)) {
        printf("E");
    } else {
        vputhex(word, wlen);
        printf(" %zu", (size_t)(in->current - text));
        free(buf);
    }
    ly_in_free(in, 0);
    ly_err_clean(ctx, NULL);
}

static const char *MOD_DATA =
        "module m {namespace \"urn:m\"; prefix m; container c {"
        "leaf-list ll {type string;} list l {key k; leaf k {type string;} leaf v {type string;}}}}";

/* check that both searches of path return exactly node */
static void
do_find(const struct lyd_node *root, const char *path, const struct lyd_node *node)
{
    struct lyd_node *match = NULL;
    struct ly_set *set = NULL;
    int f, x;

    f = (lyd_find_path(root, path, 0, &match) == LY_SUCCESS) && (match == node);
    x = (lyd_find_xpath(root, path, &set) == LY_SUCCESS) && set && (set->count == 1) && (set->dnodes[0] == node);
    ly_set_free(set, NULL);
    printf(" %d %d", f, x);
    ly_err_clean(ctx, NULL);
}

int
main(void)
{
    struct vcase c;
    const struct lys_module *mod = NULL;

    ly_set_log_clb(log_cb);
    if (ly_ctx_new(NULL, 0, &ctx) || lys_parse_mem(ctx, MOD_DATA, LYS_IN_YANG, &mod)) {
        fprintf(stderr, "ctx\n");
        return 2;
    }
    yctx_setup();

    while (vnext(&c)) {
        const char *comp = c.f[0];

        if (!strcmp(comp, "yenc") && (c.nf >= 2)) {
            /* yenc <hex s> : ypr_encode(out, s, -1) */
            char *s = vunhex(c.f[1], NULL), *mem = NULL;
            struct ly_out *out = NULL;

            ly_out_new_memory(&mem, 0, &out);
            ypr_encode(out, s, -1);
            ly_print_flush(out);
            vputhex(mem ? mem : "", mem ? strlen(mem) : 0);
            ly_out_free(out, NULL, 1);
            free(s);
        } else if (!strcmp(comp, "yprint") && (c.nf >= 6)) {
            /* yprint <shrink> <level> <flags> <hex name> <hex s> */
            char *name = vunhex(c.f[4], NULL), *s = vunhex(c.f[5], NULL);
            char *txt = do_print(atoi(c.f[1]), (unsigned)atoi(c.f[2]), atoi(c.f[3]), name, s);

            vputhex(txt, strlen(txt));
            free(txt);
            free(name);
            free(s);
        } else if (!strcmp(comp, "ylex") && (c.nf >= 3)) {
            /* ylex <column> <hex text starting at the opening quote> */
            char *t = vunhex(c.f[2], NULL);

            do_lex(t, strtoull(c.f[1], NULL, 10));
            free(t);
        } else if (!strcmp(comp, "yrt") && (c.nf >= 6)) {
            /* yrt <shrink> <level> <flags> <hex name> <hex s> : print, then lex what was printed (followed by ';')
             * at the column where the printer put the opening quote */
            int shrink = atoi(c.f[1]), flags = atoi(c.f[3]);
            unsigned level = (unsigned)atoi(c.f[2]);
            char *name = vunhex(c.f[4], NULL), *s = vunhex(c.f[5], NULL);
            char *txt = do_print(shrink, level, flags, name, s), *full, *q, *ls;
            uint64_t col;

            vputhex(txt, strlen(txt));
            printf(" ");
            /* opening quote: first quote character after the statement name */
            q = txt + (shrink ? 0 : 2 * level) + strlen(name);
            q += strcspn(q, "\"'");
            for (ls = q; (ls > txt) && (ls[-1] != '\n'); --ls) {}
            col = (uint64_t)(q - ls);
            full = malloc(strlen(q) + 2);
            sprintf(full, "%s;", q);
            do_lex(full, col);
            free(full);
            free(txt);
            free(name);
            free(s);
        } else if (!strcmp(comp, "ymod") && (c.nf >= 3)) {
            /* ymod <0: module description | 1: units of a typedef | 2: presence of a container | 3: default of a string
             * leaf (printed single-quoted when it was read single-quoted); +4: s is written single-quoted and
             * verbatim instead of double-quoted and escaped> <hex s>
             * API-level round trip: a module holding the statement with argument s (written with every special
             * character escaped, so that the first parse yields s) is parsed, printed as YANG, the output parsed
             * in a fresh context and printed again.
             * prints: E (s not accepted) | X (first parse differs from s) |
             *         <hex value after 2nd parse|E> <1 if both YANG outputs are equal> */
            int which = atoi(c.f[1]);
            size_t slen, i, o = 0;
            char *s = vunhex(c.f[2], &slen), *qt = malloc(2 * slen + 3), *data = NULL, *p1 = NULL, *p2 = NULL;
            struct ly_ctx *c1 = NULL, *c2 = NULL;
            struct lys_module *m1 = NULL, *m2 = NULL;
            const char *v1, *v2;

            if (which & 4) {
                /* single-quoted, verbatim (only for s without a single quote) */
                which &= 3;
                if (strchr(s, '\'')) {
                    slen = 0;
                    which = 9;
                }
                qt[o++] = '\'';
                memcpy(qt + o, s, slen);
                o += slen;
                qt[o++] = '\'';
                slen = 0;
            } else {
                qt[o++] = '"';
            }
            for (i = 0; i < slen; ++i) {
                switch (s[i]) {
                case '\n': qt[o++] = '\\'; qt[o++] = 'n'; break;
                case '\t': qt[o++] = '\\'; qt[o++] = 't'; break;
                case '"': qt[o++] = '\\'; qt[o++] = '"'; break;
                case '\\': qt[o++] = '\\'; qt[o++] = '\\'; break;
                default: qt[o++] = s[i]; break;
                }
            }
            if (qt[0] == '"') {
                qt[o++] = '"';
            }
            qt[o] = 0;
            if (which == 9) {
                data = strdup("x");
            } else if (which == 1) {
                asprintf(&data, "module y {namespace \"urn:y\"; prefix y; typedef t {type string; units %s;}}", qt);
            } else if (which == 2) {
                asprintf(&data, "module y {namespace \"urn:y\"; prefix y; container t {presence %s;}}", qt);
            } else if (which == 3) {
                asprintf(&data, "module y {namespace \"urn:y\"; prefix y; leaf t {type string; default %s;}}", qt);
            } else {
                asprintf(&data, "module y {namespace \"urn:y\"; prefix y; description %s;}", qt);
            }
#define YMOD_VAL(M) ((which == 1) ? (M)->parsed->typedefs[0].units : (which == 2) ? \
        ((struct lysp_node_container *)(M)->parsed->data)->presence : (which == 3) ? \
        ((struct lysp_node_leaf *)(M)->parsed->data)->dflt.str : (M)->dsc)
            ly_ctx_new(NULL, 0, &c1);
            ly_ctx_new(NULL, 0, &c2);
            if (lys_parse_mem(c1, data, LYS_IN_YANG, &m1)) {
                printf("E");
            } else if (!(v1 = YMOD_VAL(m1)) || strcmp(v1, s)) {
                printf("X");
            } else {
                lys_print_mem(&p1, m1, LYS_OUT_YANG, 0);
                if (!p1 || lys_parse_mem(c2, p1, LYS_IN_YANG, &m2)) {
                    printf("E 0");
                } else {
                    v2 = YMOD_VAL(m2);
                    vputhex(v2, strlen(v2));
                    lys_print_mem(&p2, m2, LYS_OUT_YANG, 0);
                    printf(" %d", (p2 && !strcmp(p1, p2)) ? 1 : 0);
                }
            }
            free(p1);
            free(p2);
            free(data);
            free(qt);
            free(s);
            ly_ctx_destroy(c1);
            ly_ctx_destroy(c2);
        } else if (!strcmp(comp, "pathq") && (c.nf >= 2)) {
            /* pathq <hex value> */
            char *v = vunhex(c.f[1], NULL), *p;
            const char *other = strcmp(v, "zz") ? "zz" : "zy";
            struct lyd_node *root = NULL, *ll = NULL, *ll2 = NULL, *l = NULL, *l2 = NULL;

            if (lyd_new_inner(NULL, mod, "c", 0, &root) || lyd_new_term(root, NULL, "ll", other, 0, &ll2) ||
                    lyd_new_term(root, NULL, "ll", v, 0, &ll) || lyd_new_list(root, NULL, "l", 0, &l2, other) ||
                    lyd_new_list(root, NULL, "l", 0, &l, v)) {
                printf("E");
            } else {
                p = lyd_path(ll, LYD_PATH_STD, NULL, 0);
                vputhex(p, strlen(p));
                do_find(root, p, ll);
                free(p);
                printf(" ");
                p = lyd_path(l, LYD_PATH_STD, NULL, 0);
                vputhex(p, strlen(p));
                do_find(root, p, l);
                free(p);
            }
            lyd_free_all(root);
            ly_err_clean(ctx, NULL);
            free(v);
        } else {
            printf("?");
        }
        VEND();
    }
    return 0;
}
