/* t_c14x.c - C14 extension driver: every command of impl/lyx.c (included unchanged, its main() renamed) plus commands
 * that reach what lyx.c cannot: the four lyd_dup_* entry points with a `parent` argument, lyd_merge_tree /
 * lyd_merge_module with a recording callback, anydata / anyxml values of every representation, opaque nodes with
 * attributes, node flags / private pointers in the dump, pointer-disjointness and context-ownership checks.
 *
 * Case line: "c14x" TAB cmd TAB cmd ... (same protocol and same slots c0..c7 / t0..t31 as lyx.c).
 *
 *   xdump t<k>                      extended canonical dump: one entry per node, ';' terminated
 *         schema node  <depth>:<module>:<name>:<V>:<flags>:<priv>[:@<module>:<name>=<hex>]*
 *         opaque node  <depth>:?<hex ns>:<name>:o<hex value>:<flags>:<priv>[:@<hex ns>:<name>=<hex>]*
 *         V = "=<hex canonical value>" (term) | "i" (inner) | "a<T><hex>" (anydata/anyxml; T = t data tree (hex of the
 *         xdump of the inner forest) s string x XML j JSON b LYB (bytes), "aN<T>" = no value);
 *         flags = letters d (LYD_DEFAULT) w (LYD_WHEN_TRUE) n (LYD_NEW) e (LYD_EXT); priv = decimal value of node->priv
 *   xline t<k>#i                    the entry of one node alone (depth printed as 0)
 *   xpriv t<k>                      node->priv := DFS index + 1 for every node of the forest
 *   xanyset t<k>#i <T> <hex|t<j>>   lyd_any_copy_value(): T = s x j with a hex string, t with a tree slot (copied), b with a
 *                                   tree slot (printed as LYB, the bytes are copied), N = NULL value
 *   xopaq c<k> <t<k>#i|t<k>^> <name> <hexvalue> <hexns> [<attrname> <hexvalue>]...
 *                                   lyd_new_opaq2() child of node i (or new top-level sibling of slot k) + lyd_new_attr2()
 *   xdup <s|b|S|B> t<src>#i t<dst> <opts> <c<k>|-> <t<p>#j|->
 *                                   s lyd_dup_single b lyd_dup_siblings S lyd_dup_single_to_ctx B lyd_dup_siblings_to_ctx;
 *                                   with a parent node (last word) the duplicate is connected there and t<dst> is ignored;
 *                                   result "<rc> <DFS index of the returned node in its forest> <xline of it>"
 *   xshare t<a> t<b>                "ok" when the two forests (nodes, metadata, attributes, anydata values recursively,
 *                                   children hash tables) have no heap block in common, else "shared:<what>"
 *   xctxof t<k> c<k>                "ok" when every node (anydata data trees included) belongs to context c<k>
 *   xmerge <t|s|m> t<trg> t<src>[#i] <opts> [<module>|-]
 *                                   t lyd_merge_tree s lyd_merge_siblings m lyd_merge_module (module by name, "-" = NULL)
 *                                   with a callback; result "<rc> <callback log>"; log = comma separated <name>= (matching
 *                                   target node found, called with both) / <name>+ (subtree added, source NULL), a '!'
 *                                   appended when the two nodes passed to the callback do not have the same schema / name
 */
#define main lyx_main_unused
#include "lyx.c"
#undef main

static void xdump_node(struct sbuf *o, const struct lyd_node *n, int depth, int recursive);
static int xdump_noflags;     /* inside an anydata value: flags and private pointers are not part of the value */

static void
xdump_flags(struct sbuf *o, const struct lyd_node *n)
{
    if (xdump_noflags) {
        sb_str(o, "::0");
        return;
    }
    sb_str(o, ":");
    if (n->flags & LYD_DEFAULT) {
        sb_str(o, "d");
    }
    if (n->flags & LYD_WHEN_TRUE) {
        sb_str(o, "w");
    }
    if (n->flags & LYD_NEW) {
        sb_str(o, "n");
    }
    if (n->flags & LYD_EXT) {
        sb_str(o, "e");
    }
    sb_fmt(o, ":%ld", (long)(intptr_t)n->priv);
}

static void
xdump_one(struct sbuf *o, const struct lyd_node *n, int depth)
{
    sb_fmt(o, "%d:", depth);
    if (n->schema) {
        sb_fmt(o, "%s:%s:", n->schema->module->name, n->schema->name);
        if (n->schema->nodetype & LYD_NODE_TERM) {
            const char *v = lyd_get_value(n);

            sb_str(o, "=");
            sb_hex(o, v, v ? strlen(v) : 0);
        } else if (n->schema->nodetype & LYD_NODE_ANY) {
            const struct lyd_node_any *a = (const struct lyd_node_any *)n;

            sb_str(o, "a");
            if (!a->value.str) {
                /* no value; the value type still counts for lyd_compare_single() */
                sb_fmt(o, "N%c", (a->value_type == LYD_ANYDATA_DATATREE) ? 't' : (a->value_type == LYD_ANYDATA_STRING) ? 's' :
                        (a->value_type == LYD_ANYDATA_XML) ? 'x' : (a->value_type == LYD_ANYDATA_JSON) ? 'j' : 'b');
            } else {
                switch (a->value_type) {
                case LYD_ANYDATA_DATATREE: {
                    struct sbuf in = {0};

                    sb_str(o, "t");
                    ++xdump_noflags;
                    xdump_node(&in, a->value.tree, 0, 1);
                    --xdump_noflags;
                    sb_hex(o, in.s ? in.s : "", in.n);
                    free(in.s);
                    break;
                }
                case LYD_ANYDATA_STRING:
                    sb_str(o, "s");
                    sb_hex(o, a->value.str, strlen(a->value.str));
                    break;
                case LYD_ANYDATA_XML:
                    sb_str(o, "x");
                    sb_hex(o, a->value.xml, strlen(a->value.xml));
                    break;
                case LYD_ANYDATA_JSON:
                    sb_str(o, "j");
                    sb_hex(o, a->value.json, strlen(a->value.json));
                    break;
                case LYD_ANYDATA_LYB: {
                    int l = lyd_lyb_data_length(a->value.mem);

                    sb_str(o, "b");
                    sb_hex(o, a->value.mem, l > 0 ? (size_t)l : 0);
                    break;
                }
                }
            }
        } else {
            sb_str(o, "i");
        }
        xdump_flags(o, n);
        for (const struct lyd_meta *m = n->meta; m; m = m->next) {
            const char *mv = lyd_get_meta_value(m);

            if (lyd_meta_is_internal(m)) {
                continue;
            }
            sb_fmt(o, ":@%s:%s=", m->annotation->module->name, m->name);
            sb_hex(o, mv, mv ? strlen(mv) : 0);
        }
    } else {
        const struct lyd_node_opaq *q = (const struct lyd_node_opaq *)n;

        sb_str(o, "?");
        if (q->name.module_ns) {
            sb_hex(o, q->name.module_ns, strlen(q->name.module_ns));
        } else {
            sb_str(o, "~");
        }
        sb_fmt(o, ":%s:o", q->name.name);
        sb_hex(o, q->value, q->value ? strlen(q->value) : 0);
        xdump_flags(o, n);
        for (const struct lyd_attr *a = q->attr; a; a = a->next) {
            sb_str(o, ":@");
            if (a->name.module_ns) {
                sb_hex(o, a->name.module_ns, strlen(a->name.module_ns));
            } else {
                sb_str(o, "~");
            }
            sb_fmt(o, ":%s=", a->name.name);
            sb_hex(o, a->value, a->value ? strlen(a->value) : 0);
        }
    }
    sb_str(o, ";");
}

static void
xdump_node(struct sbuf *o, const struct lyd_node *n, int depth, int recursive)
{
    const struct lyd_node *c;

    for ( ; n; n = n->next) {
        xdump_one(o, n, depth);
        if (recursive && (c = lyd_child(n))) {
            xdump_node(o, c, depth + 1, 1);
        }
    }
}

/* ---------- pointer collection for xshare ---------- */
struct pset {
    const void **p;
    size_t n, cap;
};

static void
ps_add(struct pset *s, const void *p)
{
    if (!p) {
        return;
    }
    if (s->n == s->cap) {
        s->cap = s->cap ? s->cap * 2 : 256;
        s->p = realloc(s->p, s->cap * sizeof *s->p);
    }
    s->p[s->n++] = p;
}

static void
ps_collect(struct pset *s, const struct lyd_node *n)
{
    for ( ; n; n = n->next) {
        ps_add(s, n);
        if (n->schema) {
            for (const struct lyd_meta *m = n->meta; m; m = m->next) {
                ps_add(s, m);
            }
            if (n->schema->nodetype & LYD_NODE_INNER) {
                ps_add(s, ((const struct lyd_node_inner *)n)->children_ht);
            } else if (n->schema->nodetype & LYD_NODE_ANY) {
                const struct lyd_node_any *a = (const struct lyd_node_any *)n;

                if (a->value.str && (a->value_type == LYD_ANYDATA_DATATREE)) {
                    ps_collect(s, a->value.tree);
                } else if (a->value.str && (a->value_type == LYD_ANYDATA_LYB)) {
                    ps_add(s, a->value.mem);
                }
            }
        } else {
            const struct lyd_node_opaq *q = (const struct lyd_node_opaq *)n;

            for (const struct lyd_attr *a = q->attr; a; a = a->next) {
                ps_add(s, a);
                ps_add(s, a->val_prefix_data);
            }
            ps_add(s, q->val_prefix_data);
        }
        ps_collect(s, lyd_child(n));
    }
}

static const char *
ctx_foreign(const struct lyd_node *n, const struct ly_ctx *ctx)
{
    const char *r;

    for ( ; n; n = n->next) {
        if (LYD_CTX(n) != ctx) {
            return LYD_NAME(n);
        }
        if (n->schema) {
            for (const struct lyd_meta *m = n->meta; m; m = m->next) {
                if (m->annotation->module->ctx != ctx) {
                    return m->name;
                }
            }
            if (n->schema->nodetype & LYD_NODE_ANY) {
                const struct lyd_node_any *a = (const struct lyd_node_any *)n;

                if (a->value.str && (a->value_type == LYD_ANYDATA_DATATREE) && (r = ctx_foreign(a->value.tree, ctx))) {
                    return r;
                }
            }
        }
        if ((r = ctx_foreign(lyd_child(n), ctx))) {
            return r;
        }
    }
    return NULL;
}

/* ---------- merge callback ---------- */
static LY_ERR
xmerge_cb(struct lyd_node *trg, const struct lyd_node *src, void *data)
{
    struct sbuf *log = data;

    if (log->n) {
        sb_str(log, ",");
    }
    sb_str(log, trg ? LYD_NAME(trg) : "NULL");
    sb_str(log, src ? "=" : "+");
    if (src && trg && ((src->schema != trg->schema) || strcmp(LYD_NAME(src), LYD_NAME(trg)))) {
        sb_str(log, "!");
    }
    return LY_SUCCESS;
}

static int
slot_of_node(const struct lyd_node *n)
{
    while (lyd_parent(n)) {
        n = lyd_parent(n);
    }
    n = lyd_first_sibling(n);
    for (int i = 0; i < NTREE; i++) {
        if (T[i] == n) {
            return i;
        }
    }
    return -1;
}

static void
run_x(char **w, int nw, struct sbuf *o)
{
    if (!strcmp(w[0], "xdump")) {
        NEED(2);
        xdump_node(o, T[slot_t(w[1])], 0, 1);
        if (!T[slot_t(w[1])]) {
            sb_str(o, "empty");
        }
    } else if (!strcmp(w[0], "xline")) {
        NEED(2);
        struct lyd_node *n = node_at(w[1]);

        if (n) {
            xdump_one(o, n, 0);
        } else {
            sb_str(o, "-");
        }
    } else if (!strcmp(w[0], "xpriv")) {
        NEED(2);
        long i = 0;

        for (struct lyd_node *n = T[slot_t(w[1])]; n; n = dfs_next(n)) {
            n->priv = (void *)(intptr_t)(++i);
        }
        sb_str(o, "0");
    } else if (!strcmp(w[0], "xanyset")) {
        NEED(4);
        struct lyd_node *n = node_at(w[1]);
        union lyd_any_value v = {0};
        LY_ERR rc;

        if (!n || !n->schema || !(n->schema->nodetype & LYD_NODE_ANY)) {
            sb_str(o, "-");
            return;
        }
        switch (w[2][0]) {
        case 't':
            v.tree = T[slot_t(w[3])];
            rc = lyd_any_copy_value(n, &v, LYD_ANYDATA_DATATREE);
            break;
        case 'b': {
            char *mem = NULL;

            rc = lyd_print_mem(&mem, T[slot_t(w[3])], LYD_LYB, LYD_PRINT_WITHSIBLINGS);
            if (!rc) {
                v.mem = mem;
                rc = lyd_any_copy_value(n, &v, LYD_ANYDATA_LYB);
            }
            free(mem);
            break;
        }
        case 'N':
            rc = lyd_any_copy_value(n, NULL, 0);
            break;
        default: {
            char *s = arg_str(w[3]);

            v.str = s;
            rc = lyd_any_copy_value(n, &v, (w[2][0] == 's') ? LYD_ANYDATA_STRING : (w[2][0] == 'x') ? LYD_ANYDATA_XML : LYD_ANYDATA_JSON);
            free(s);
            break;
        }
        }
        sb_fmt(o, "%d", (int)rc);
    } else if (!strcmp(w[0], "xopaq")) {
        NEED(6);
        int c = slot_c(w[1]), t = slot_t(w[2]);
        int top = strchr(w[2], '^') ? 1 : 0;
        struct lyd_node *par = top ? NULL : node_at(w[2]), *n = NULL;
        char *val = arg_str(w[4]), *ns = arg_str(w[5]);
        LY_ERR rc;

        if (!top && !par) {
            sb_str(o, "-");
            free(val);
            free(ns);
            return;
        }
        if (par && par->schema && !(par->schema->nodetype & LYD_NODE_INNER)) {
            sb_str(o, "-");
            free(val);
            free(ns);
            return;
        }
        rc = lyd_new_opaq2(par, C[c], w[3], val, NULL, ns, &n);
        if (!rc && top) {
            if (T[t]) {
                rc = lyd_insert_sibling(T[t], n, &T[t]);
            } else {
                T[t] = n;
            }
        }
        for (int i = 6; !rc && (i + 1 < nw); i += 2) {
            char *av = arg_str(w[i + 1]);

            rc = lyd_new_attr2(n, ns, w[i], av, NULL);
            free(av);
        }
        sb_fmt(o, "%d", (int)rc);
        free(val);
        free(ns);
    } else if (!strcmp(w[0], "xdup")) {
        NEED(7);
        struct lyd_node *n = node_at(w[2]), *d = NULL, *par = strcmp(w[6], "-") ? node_at(w[6]) : NULL;
        int t = slot_t(w[3]);
        uint32_t opts = (uint32_t)strtoul(w[4], NULL, 0);
        const struct ly_ctx *ctx = strcmp(w[5], "-") ? C[slot_c(w[5])] : NULL;
        LY_ERR rc;

        if (!n || (strcmp(w[6], "-") && !par) || (par && (!par->schema || !(par->schema->nodetype & LYD_NODE_INNER)))) {
            sb_str(o, "-");
            return;
        }
        if (!par) {
            lyd_free_all(T[t]);
            T[t] = NULL;
        } else {
            t = slot_of_node(par);
        }
        switch (w[1][0]) {
        case 's':
            rc = lyd_dup_single(n, (struct lyd_node_inner *)par, opts, &d);
            break;
        case 'b':
            rc = lyd_dup_siblings(n, (struct lyd_node_inner *)par, opts, &d);
            break;
        case 'S':
            rc = lyd_dup_single_to_ctx(n, ctx, (struct lyd_node_inner *)par, opts, &d);
            break;
        default:
            rc = lyd_dup_siblings_to_ctx(n, ctx, (struct lyd_node_inner *)par, opts, &d);
            break;
        }
        sb_fmt(o, "%d", (int)rc);
        if (rc && d) {
            sb_str(o, "!node-returned-on-error");
            d = NULL;
        }
        if (d) {
            if (!par) {
                struct lyd_node *top = d;

                while (lyd_parent(top)) {
                    top = lyd_parent(top);
                }
                T[t] = lyd_first_sibling(top);
            }
            if (t >= 0) {
                fix_first(t);
                sb_fmt(o, " %ld ", node_index(t, d));
            } else {
                sb_str(o, " -1 ");
            }
            xdump_one(o, d, 0);
        }
    } else if (!strcmp(w[0], "xshare")) {
        NEED(3);
        struct pset a = {0}, b = {0};
        const char *res = "ok";

        ps_collect(&a, T[slot_t(w[1])]);
        ps_collect(&b, T[slot_t(w[2])]);
        if (a.n) {
            qsort(a.p, a.n, sizeof *a.p, cmp_ptr);
        }
        for (size_t i = 0; i < b.n; i++) {
            if (a.n && bsearch(&b.p[i], a.p, a.n, sizeof *a.p, cmp_ptr)) {
                res = "shared:heap-block";
                break;
            }
        }
        sb_str(o, res);
        free(a.p);
        free(b.p);
    } else if (!strcmp(w[0], "xctxof")) {
        NEED(3);
        const char *r = ctx_foreign(T[slot_t(w[1])], C[slot_c(w[2])]);

        if (r) {
            sb_fmt(o, "foreign:%s", r);
        } else {
            sb_str(o, "ok");
        }
    } else if (!strcmp(w[0], "xmerge")) {
        NEED(5);
        int t = slot_t(w[2]), s = slot_t(w[3]);
        struct lyd_node *src = node_at(w[3]);
        uint16_t opts = (uint16_t)strtoul(w[4], NULL, 0);
        struct sbuf log = {0};
        const struct ly_ctx *ctx = T[t] ? LYD_CTX(T[t]) : (src ? LYD_CTX(src) : C[0]);
        LY_ERR rc;

        switch (w[1][0]) {
        case 't':
            rc = lyd_merge_tree(&T[t], src, opts);
            break;
        case 's':
            rc = lyd_merge_siblings(&T[t], src, opts);
            break;
        default: {
            const struct lys_module *mod = ((nw > 5) && strcmp(w[5], "-")) ? ly_ctx_get_module_implemented(ctx, w[5]) : NULL;

            rc = lyd_merge_module(&T[t], src, mod, xmerge_cb, &log, opts);
            break;
        }
        }
        if ((opts & LYD_MERGE_DESTRUCT) && src && (rc != LY_EINVAL)) {
            /* the whole source forest is spent (merged or freed) */
            T[s] = NULL;
        }
        fix_first(t);
        sb_fmt(o, "%d ", (int)rc);
        sb_str(o, log.n ? log.s : "-");
        free(log.s);
    } else {
        sb_str(o, "?cmd");
    }
}

static int
is_x(const char *cmd)
{
    static const char *names[] = {"xdump ", "xline ", "xpriv ", "xanyset ", "xopaq ", "xdup ", "xshare ", "xctxof ", "xmerge ", NULL};

    for (int i = 0; names[i]; i++) {
        if (!strncmp(cmd, names[i], strlen(names[i]))) {
            return 1;
        }
    }
    return 0;
}

int
main(void)
{
    struct vcase c;

    ly_set_log_clb(log_cb);
    ly_log_options(LY_LOLOG | LY_LOSTORE_LAST);
    while (vnext(&c)) {
        struct sbuf o = {0};

        notfreed_warn = 0;
        for (int i = 1; i < c.nf; i++) {
            if (i > 1) {
                sb_str(&o, " | ");
            }
            if (is_x(c.f[i])) {
                char *wbuf[40];
                int nw = 0;

                for (char *p = strtok(c.f[i], " "); p && (nw < 40); p = strtok(NULL, " ")) {
                    wbuf[nw++] = p;
                }
                if (!nw) {
                    sb_str(&o, "?");
                } else {
                    size_t start = o.n;

                    run_x(wbuf, nw, &o);
                    last_ok = (o.n > start) && (o.s[start] == '0') && ((o.n == start + 1) || (o.s[start + 1] == ' '));
                }
            } else {
                run_cmd(c.f[i], &o);
            }
        }
        for (int i = 0; i < NTREE; i++) {
            lyd_free_all(T[i]);
            T[i] = NULL;
        }
        for (int i = 0; i < NCTX; i++) {
            if (C[i]) {
                ly_ctx_destroy(C[i]);
                C[i] = NULL;
            }
        }
        sb_fmt(&o, " | end:0:%d", notfreed_warn);
        fputs(o.s, stdout);
        free(o.s);
        VEND();
    }
    return 0;
}
