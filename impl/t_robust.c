/* t_robust.c — API-level robustness driver for property C05 (search, not proof).
 *
 * One case per input line, TAB separated:   rb <entry> <args...> <input> [M:<hex module>]
 * <input> is a hex byte string ("-" = empty) or a compact description of a repetitive text
 *     R:<pre>,<open>,<n>,<mid>,<close>,<post>     (hex parts; text = pre open^n mid close^n post)
 * A trailing field M:<hex> asks for a private context for this case: the fixed module set plus that module.
 *
 * Entries (public libyang API only):
 *   yang / yin <input>                  lys_parse_mem(ctx, input, LYS_IN_YANG / LYS_IN_YIN, &mod)
 *   data <x|j> <parse opts> <val opts> <input>
 *                                       lyd_parse_data_mem(ctx, input, LYD_XML / LYD_JSON, popts, vopts, &tree)
 *   op <x|j> <type> <input>             lyd_parse_op(); type = rpc notif reply reply-act (LYD_TYPE_*_YANG; the replies get
 *                                       the rpc rb:op / the action rb:top/item/reset as parent), nc-rpc nc-notif nc-reply
 *                                       nc-reply-act (LYD_TYPE_*_NETCONF), rc-rpc rc-notif rc-reply (LYD_TYPE_*_RESTCONF)
 *   xfind <input>                       lyd_find_xpath(health tree, input, &set)
 *   xeval <input>                       lyd_eval_xpath4(node /rb:top, health tree, NULL, input, LY_VALUE_JSON, ...)
 *   sxfind <input>                      lys_find_xpath(ctx, NULL, input, 0, &set)
 *   fpath <input>                       lyd_find_path(health tree, input, 0, &match)
 *   npath <value hex|~> <input>         lyd_new_path(NULL, ctx, input, value, 0, &node)
 *   npathp <value hex|~> <input>        lyd_new_path(copy of the health tree, ctx, input, value, LYD_NEW_PATH_UPDATE, &node);
 *                                       on error the copy must print as before
 *   value <leaf> <input>                lyd_value_validate(ctx, /rb:types/<leaf>, input, len, NULL | types node, ...)
 *   api <kind> <args>                   a tree with degenerate but legal content built by lyd_new_any / lyd_new_opaq(2) / lyd_new_attr(2) /
 *                                       lyd_new_term / lyd_new_meta / lyd_new_path / lyd_new_list, then lyd_print_mem in XML, JSON and LYB
 *                                       (+ parsing each output back), lyd_dup_siblings, lyd_compare_siblings, free
 *   pattern <pattern> <input>           ly_pattern_match(ctx, pattern, input, 0, NULL)   (the pattern may be an R: text too)
 *
 * Around every case (see DESIGN C05 and tools/props/comps_robust.py):
 *   - the context of the shard (fixed module set, created on demand) has a HEALTH BASELINE: hashes of a fixed valid
 *     workload (parse+validate+print two documents in XML and JSON, three XPath evaluations, compiled print of module rb,
 *     and - full variant - loading one more valid module from memory and printing its compiled form);
 *   - ly_err_clean(), per-case CPU limit (RB_CPU_LIMIT seconds of process CPU time, default 10 -> line "TIMEOUT"),
 *   - the call; return code; on error: every output pointer is NULL (except the documented NETCONF/RESTCONF envelope tree),
 *     an error record with a message exists (not required for LY_ENOT / LY_ENOTFOUND / LY_EINCOMPLETE), the module list of
 *     the context (name, revision, implemented, latest-revision flag, enabled features) is what it was before the call; the
 *     dictionary of the context holds the same strings with the same reference counts as before the call, or else the
 *     context is destroyed at once and no string may be reported `not freed` by ly_ctx_destroy(); the log-location
 *     stack of the thread is empty;
 *   - the light health workload is re-run and compared with the baseline; after a failed module load also the full one;
 *   - everything is freed; under ASan the leak checker runs after every case (__lsan_do_recoverable_leak_check) and a
 *     leak is reported as  !leak(<allocating libyang function>,<its caller>)  read from the captured report;
 *   - a successful module load, or a case that left strings / memory behind, ends the life of the context: it is destroyed
 *     WITHIN the case (strings still referenced at ly_ctx_destroy() are a failure of that case unless it was already reported for
 *     leaving them) and re-created for the next case; every re-created context must reproduce the first baseline; at the end of
 *     the input the used context is compared with a FRESH one on the full workload (reported on stderr only).
 *   - LY_EINT (an internal error, LOGINT) must not be reachable from input: it is a failure of its own;
 *   - an error code needs an error record; LY_ENOT / LY_ENOTFOUND / LY_EINCOMPLETE are answers (not errors) only for the searching
 *     and matching entries (xfind xeval sxfind fpath npath value pattern) and LY_ENOT for lyd_parse_op (documented).
 * Output: one line  "<entry> rc=<n> <observations> H=ok"  ; every failed post-condition is a word starting with '!'.
 */
#include "common.h"

#include <signal.h>
#include <sys/resource.h>
#include <sys/time.h>
#include <unistd.h>

#include "libyang.h"
#include "ly_common.h"              /* struct ly_ctx: only to COUNT the dictionary strings (read-only) */
#include "hash_table_internal.h"

/* the thread's log-location stack of src/log.c (schema node / data node / path / input the next message is attributed to):
 * every public call must leave it empty, otherwise later messages carry a stale path and a freed node may be read */
extern THREAD_LOCAL struct ly_log_location_s log_location;

/* ------------------------------------------------------------------------------------------------------------- */
static const char *MOD_RB =
        "module rb {yang-version 1.1; namespace \"urn:rb\"; prefix rb;\n"
        "  import ietf-inet-types { prefix inet; }\n"
        "  import ietf-yang-types { prefix yang; }\n"
        "  feature f1; feature f2 { if-feature \"f1\"; }\n"
        "  identity base-id; identity id-a { base base-id; } identity id-b { base id-a; }\n"
        "  typedef pct { type uint8 { range \"0..100\"; } }\n"
        "  typedef name { type string { length \"1..16\"; pattern '[a-z][a-z0-9\\-]*'; } }\n"
        "  container top {\n"
        "    leaf name { type name; }\n"
        "    leaf count { type int32; default 5; }\n"
        "    leaf-list tag { type string; ordered-by user; }\n"
        "    list item { key \"id\"; leaf id { type uint16; } leaf val { type string; }\n"
        "      leaf ref { type leafref { path \"../../name\"; } }\n"
        "      container inner { leaf flag { type boolean; } leaf d { type decimal64 { fraction-digits 2; } } }\n"
        "      action reset { input { leaf delay { type uint32; } } output { leaf result { type string; } } }\n"
        "      notification changed { leaf what { type string; } }\n"
        "    }\n"
        "    list pair { key \"a b\"; leaf a { type string; } leaf b { type int8; } leaf v { type pct; } }\n"
        "    choice ch { case c1 { leaf x1 { type string; } } case c2 { leaf x2 { type string; } leaf x3 { type empty; } } }\n"
        "    container pres { presence \"p\"; leaf must-leaf { type uint8; must \". < 200\"; }\n"
        "      leaf w { when \"../must-leaf > 10\"; type string; } }\n"
        "    anydata any; anyxml axml;\n"
        "    leaf state { config false; type string; }\n"
        "    leaf opt { if-feature \"f1\"; type string; }\n"
        "  }\n"
        "  container types {\n"
        "    leaf i8 { type int8; } leaf i16 { type int16; } leaf i32 { type int32; } leaf i64 { type int64; }\n"
        "    leaf u8 { type uint8; } leaf u16 { type uint16; } leaf u32 { type uint32; } leaf u64 { type uint64; }\n"
        "    leaf dec { type decimal64 { fraction-digits 3; range \"-100.5..100 | 200\"; } }\n"
        "    leaf dec18 { type decimal64 { fraction-digits 18; } }\n"
        "    leaf str { type string { length \"0..8 | 10\"; pattern '[a-c]*'; pattern 'x.*' { modifier invert-match; } } }\n"
        "    leaf bool { type boolean; }\n"
        "    leaf en { type enumeration { enum a; enum \"b c\"; enum z { value -5; } } }\n"
        "    leaf bits { type bits { bit one; bit two { position 5; } bit three; } }\n"
        "    leaf bin { type binary { length \"0..6\"; } }\n"
        "    leaf empty { type empty; }\n"
        "    leaf idref { type identityref { base base-id; } }\n"
        "    leaf iid { type instance-identifier { require-instance false; } }\n"
        "    leaf iidr { type instance-identifier; }\n"
        "    leaf lref { type leafref { path \"/rb:top/rb:item/rb:id\"; } }\n"
        "    leaf un { type union { type int8; type enumeration { enum x; } type string { pattern 'q+'; } type pct; } }\n"
        "    leaf unlr { type union { type leafref { path \"../i8\"; } type identityref { base id-a; } type boolean; } }\n"
        "    leaf ipv4 { type inet:ipv4-address; } leaf ipv6 { type inet:ipv6-address; } leaf ip { type inet:ip-address; }\n"
        "    leaf ipnz { type inet:ipv4-address-no-zone; } leaf ip6nz { type inet:ipv6-address-no-zone; }\n"
        "    leaf pfx4 { type inet:ipv4-prefix; } leaf pfx6 { type inet:ipv6-prefix; } leaf pfx { type inet:ip-prefix; }\n"
        "    leaf host { type inet:host; } leaf dn { type inet:domain-name; } leaf uri { type inet:uri; }\n"
        "    leaf port { type inet:port-number; } leaf dscp { type inet:dscp; } leaf asn { type inet:as-number; }\n"
        "    leaf dt { type yang:date-and-time; } leaf mac { type yang:mac-address; } leaf phys { type yang:phys-address; }\n"
        "    leaf hex { type yang:hex-string; } leaf uuid { type yang:uuid; } leaf oid { type yang:object-identifier; }\n"
        "    leaf oid128 { type yang:object-identifier-128; } leaf c64 { type yang:counter64; } leaf ts { type yang:timestamp; }\n"
        "    leaf xp { type yang:xpath1.0; } leaf dotted { type yang:dotted-quad; } leaf yid { type yang:yang-identifier; }\n"
        "  }\n"
        "  rpc op { input { leaf a { type string; mandatory true; } leaf b { type uint8; } container c { leaf d { type string; } } }\n"
        "    output { leaf r { type string; } list l { key k; leaf k { type uint8; } } } }\n"
        "  notification ev { leaf sev { type enumeration { enum low; enum high; } } container info { leaf txt { type string; } } }\n"
        "}\n";

static const char *DOC1_XML =
        "<top xmlns=\"urn:rb\"><name>abc</name><tag>t1</tag><tag>t2</tag>"
        "<item><id>1</id><val>x</val><ref>abc</ref><inner><flag>true</flag><d>1.5</d></inner></item>"
        "<item><id>2</id><val>y</val></item><item><id>10</id><val>x</val><inner><d>-0.25</d></inner></item>"
        "<pair><a>k</a><b>-3</b><v>50</v></pair><x2>zz</x2>"
        "<pres><must-leaf>20</must-leaf><w>w</w></pres><any><foo xmlns=\"urn:x\">1</foo></any></top>"
        "<types xmlns=\"urn:rb\"><i8>-128</i8><u64>18446744073709551615</u64><dec>-100.5</dec><str>abc</str><bool>true</bool>"
        "<en>b c</en><bits>one three</bits><bin>YWJj</bin><empty/><idref>id-b</idref>"
        "<iid xmlns:r=\"urn:rb\">/r:top/r:item[r:id='2']/r:val</iid><lref>2</lref><un>qq</un>"
        "<ipv4>10.0.0.1</ipv4><ipv6>2001:DB8::1</ipv6><pfx4>10.1.2.3/8</pfx4><host>example.com</host>"
        "<dt>2020-02-29T23:59:60Z</dt><mac>AA:bb:0C:00:00:01</mac><uuid>F81D4FAE-7DEC-11D0-A765-00A0C91E6BF6</uuid>"
        "<xp xmlns:q=\"urn:rb\">/q:top/q:name</xp></types>";

static const char *DOC2_JSON =
        "{\"rb:top\":{\"name\":\"n2\",\"count\":7,\"tag\":[\"b\",\"a\"],\"item\":[{\"id\":3,\"val\":\"x\",\"inner\":{\"d\":\"2.50\"}}],"
        "\"pair\":[{\"a\":\"z\",\"b\":1},{\"a\":\"a\",\"b\":2,\"v\":0}],\"x1\":\"q\",\"axml\":{\"k\":[1,2,{\"z\":null}]}},"
        "\"rb:types\":{\"i64\":\"-9223372036854775808\",\"u8\":255,\"dec18\":\"-9.223372036854775808\",\"en\":\"z\",\"bits\":\"two\","
        "\"empty\":[null],\"idref\":\"rb:id-a\",\"un\":-5,\"unlr\":true,\"ip\":\"::ffff:1.2.3.4\",\"pfx6\":\"2001:db8:1::/33\","
        "\"oid\":\"1.3.6.1\",\"c64\":\"0\",\"dotted\":\"1.2.3.4\"}}";

static const char *XPATHS[3] = {
    "count(/rb:top/rb:item[rb:val='x']) + sum(/rb:top/rb:item/rb:id)",
    "/rb:top/rb:item[rb:id > 1]/rb:inner/rb:d | /rb:top/rb:tag[2] | //rb:v[. = 50]/../rb:a",
    "concat(string(/rb:top/rb:name), '|', substring-before(/rb:types/rb:dt, 'T'), '|', boolean(/rb:top/rb:pres/rb:w[../rb:must-leaf=20]))",
};

/* the extra valid module of the full workload; %u = serial number */
static const char *MOD_HX =
        "module hx%u {yang-version 1.1; namespace \"urn:hx%u\"; prefix h; import rb { prefix rb; }\n"
        "  typedef t { type rb:name { length \"2..5\"; } }\n"
        "  grouping g { leaf a { type t; default \"ab\"; } leaf-list b { type uint8 { range \"1..10 | 20\"; } max-elements 3; } }\n"
        "  container c { uses g; leaf r { type leafref { path \"/rb:top/rb:name\"; } }\n"
        "    list l { key \"k\"; unique \"v\"; leaf k { type string; } leaf v { type rb:pct; } must \"count(../l) < 10\"; } }\n"
        "}\n";

/* ------------------------------------------------------------------------------------------------------------- */
static int notfreed_warn;
static int have_lsan;
static int heap_grew;              /* the heap in use grew over the call of the last case (before the health workload) */

int __lsan_do_recoverable_leak_check(void) __attribute__((weak));
void __lsan_ignore_object(const void *p) __attribute__((weak));
size_t __sanitizer_get_current_allocated_bytes(void) __attribute__((weak));

/* many shards run side by side: keep the memory of one process small (the environment still overrides single options) */
const char *
__asan_default_options(void)
{
    return "quarantine_size_mb=8:malloc_context_size=12:detect_stack_use_after_return=0";
}

/* the leak report lists the leaked objects, so that they can be set aside and are not reported again after later cases */
const char *
__lsan_default_options(void)
{
    return "report_objects=1";
}

static void
log_cb(LY_LOG_LEVEL level, const char *msg, const char *data_path, const char *schema_path, uint64_t line)
{
    (void)level; (void)data_path; (void)schema_path; (void)line;
    if (msg && strstr(msg, "not freed")) {
        ++notfreed_warn;
    }
    if (getenv("RB_DEBUG")) {
        fprintf(stderr, "LOG: %s\n", msg);
    }
}

/* run the leak checker with its report (fd 2) captured; a leak becomes the word  !leak(<function>,<caller>,<caller>)  made of the
 * first three libyang frames of the first allocation stack, so that the harness needs no stderr and the process lives on */
static void __attribute__((noinline))
scrub_stack(void)
{
    volatile char pad[65536];

    for (size_t i = 0; i < sizeof pad; i += 64) {
        pad[i] = 0;
    }
}

static int
leak_check(void)
{
    static char buf[262144];
    int saved, n = 0;
    FILE *tmp;
    char *p, *q, fr[3][80] = {"?", "?", "?"};

    scrub_stack();
    fflush(stderr);
    tmp = tmpfile();
    if (!tmp) {
        if (__lsan_do_recoverable_leak_check()) {
            printf(" !leak(?,?,?)");
            return 1;
        }
        return 0;
    }
    saved = dup(2);
    dup2(fileno(tmp), 2);
    if (__lsan_do_recoverable_leak_check()) {
        size_t len;

        dup2(saved, 2);
        rewind(tmp);
        len = fread(buf, 1, sizeof buf - 1, tmp);
        buf[len] = 0;
        /* frames look like:  #1 0x55.. in func /path/file.c:12:3 */
        for (p = buf; (p = strstr(p, " in ")); p += 4) {
            char fn[80], path[256];

            if (sscanf(p + 4, "%79s %255s", fn, path) == 2) {
                if (strstr(path, "/src/") && !strstr(path, "/impl/")) {
                    strcpy(fr[n], fn);
                    if (++n == 3) {
                        break;
                    }
                }
            }
            q = strchr(p, '\n');
            if (q && !strncmp(q + 1, "\n", 1) && n) {
                break;          /* end of the first allocation stack */
            }
        }
        printf(" !leak(%s,%s,%s)", fr[0], fr[1], fr[2]);
        /* "Objects leaked above:" / "0x60c000001234 (56 bytes)" : set them aside */
        for (p = buf; __lsan_ignore_object && (p = strstr(p, "\n0x")); ) {
            unsigned long long a = strtoull(p + 1, &q, 16);

            if (a && !strncmp(q, " (", 2)) {
                __lsan_ignore_object((const void *)(uintptr_t)a);
            }
            p = q;
        }
        if (getenv("RB_DEBUG")) {
            fputs(buf, stderr);
        }
        close(saved);
        fclose(tmp);
        return 1;
    }
    dup2(saved, 2);
    close(saved);
    fclose(tmp);
    return 0;
}

static uint64_t
fnv(uint64_t h, const char *p, size_t n)
{
    for (size_t i = 0; i < n; i++) {
        h = (h ^ (unsigned char)p[i]) * 1099511628211ULL;
    }
    return h;
}

static uint64_t
fnvs(uint64_t h, const char *s)
{
    return s ? fnv(h, s, strlen(s) + 1) : fnv(h, "\x01", 1);
}

#define FNV0 1469598103934665603ULL

/* number of dictionary strings and the sum of their reference counts (read-only walk over the hash table) */
static void
dict_stat(const struct ly_ctx *ctx, uint32_t *strings, uint64_t *refs)
{
    struct ly_ht *ht = ctx->dict.hash_tab;
    struct ly_ht_rec *rec;
    uint32_t hl, ri;
    uint64_t r = 0;

    LYHT_ITER_ALL_RECS(ht, hl, ri, rec) {
        r += ((struct ly_dict_rec *)rec->val)->refcount;
    }
    *strings = ht->used;
    *refs = r;
}

/* per-case CPU limit */
static const char *cur_entry = "?";

static void
on_cpu(int sig)
{
    char buf[96];
    int n = snprintf(buf, sizeof buf, "TIMEOUT %s cpu-limit\n", cur_entry);

    (void)sig;
    if (write(1, buf, (size_t)n) < 0) {}
    _exit(3);
}

static void
cpu_limit(int seconds)
{
    struct itimerval it;

    memset(&it, 0, sizeof it);
    it.it_value.tv_sec = seconds;
    setitimer(ITIMER_PROF, &it, NULL);
}

/* ------------------------------------------------------------------------------------------------------------- */
/* module list of the context: names, revisions, implemented, latest-revision flag, enabled features */
static uint64_t
ctx_sig(const struct ly_ctx *ctx, unsigned *count)
{
    uint32_t idx = 0, fi;
    const struct lys_module *m;
    struct lysp_feature *f;
    uint64_t h = FNV0;
    unsigned n = 0;

    while ((m = ly_ctx_get_module_iter(ctx, &idx))) {
        ++n;
        h = fnvs(h, m->name);
        h = fnvs(h, m->revision);
        h = fnv(h, m->implemented ? "I" : "i", 1);
        h = fnv(h, (m->latest_revision & 1) ? "L" : "l", 1);
        /* what a user sees of the flag: the latest-revision lookup by name answers this module or another one */
        h = fnv(h, (ly_ctx_get_module_latest(ctx, m->name) == m) ? "Q" : "q", 1);
        h = fnv(h, (ly_ctx_get_module_latest_ns(ctx, m->ns) == m) ? "N" : "n", 1);
        h = fnv(h, m->compiled ? "C" : "c", 1);
        f = NULL;
        fi = 0;
        while (m->parsed && (f = lysp_feature_next(f, m->parsed, &fi))) {
            h = fnvs(h, f->name);
            h = fnv(h, (f->flags & LYS_FENABLED) ? "1" : "0", 1);
        }
    }
    if (count) {
        *count = n;
    }
    return h;
}

struct health {
    uint64_t part[8];          /* 0 doc1 xml, 1 doc1 json, 2 doc2 xml, 3 doc2 json, 4 xpaths, 5 compiled rb, 6 extra module */
};

struct shard {
    struct ly_ctx *ctx;
    struct lyd_node *tree;     /* DOC1 parsed and validated: the data the XPath / path entries run on */
    struct health base;
    unsigned hx;               /* serial number of the next extra module */
    int dirty;
    unsigned cases;
    int blamed;                /* some case of this context already reported strings / memory it left behind */
    int suspect;               /* the dictionary (strings or reference counts) differs after the last call: decided at destroy */
};

static uint64_t
print_hash(const struct lyd_node *t, LYD_FORMAT fmt, uint64_t h)
{
    char *s = NULL;

    if (lyd_print_mem(&s, t, fmt, LYD_PRINT_WITHSIBLINGS | LYD_PRINT_WD_ALL | LYD_PRINT_SHRINK) || !s) {
        h = fnvs(h, "PRINT-FAILED");
    } else {
        h = fnvs(h, s);
    }
    free(s);
    return h;
}

/* (re)create the data tree the XPath / path / value entries run on; printing it once makes every lazily computed
 * canonical value exist, so that later read-only calls do not add strings to the dictionary */
static void
tree_make(struct shard *S)
{
    char *s = NULL;

    lyd_free_all(S->tree);
    S->tree = NULL;
    if (lyd_parse_data_mem(S->ctx, DOC1_XML, LYD_XML, LYD_PARSE_STRICT, LYD_VALIDATE_PRESENT, &S->tree)) {
        S->tree = NULL;
        return;
    }
    if (!lyd_print_mem(&s, S->tree, LYD_JSON, LYD_PRINT_WITHSIBLINGS | LYD_PRINT_WD_ALL)) {
        free(s);
    }
    s = NULL;
    if (!lyd_print_mem(&s, S->tree, LYD_XML, LYD_PRINT_WITHSIBLINGS | LYD_PRINT_WD_ALL)) {
        free(s);
    }
}

/* light workload (parts 0-5); with full != 0 also part 6 */
static void
health_run(struct shard *S, struct health *H, int full)
{
    struct ly_ctx *ctx = S->ctx;
    struct lyd_node *t1 = NULL, *t2 = NULL;
    const struct lys_module *rb;
    char *s = NULL;
    uint64_t h;

    memset(H, 0, sizeof *H);
    if (lyd_parse_data_mem(ctx, DOC1_XML, LYD_XML, LYD_PARSE_STRICT, LYD_VALIDATE_PRESENT, &t1) || !t1) {
        H->part[0] = H->part[1] = 1;
    } else {
        H->part[0] = print_hash(t1, LYD_XML, FNV0);
        H->part[1] = print_hash(t1, LYD_JSON, FNV0);
    }
    if (lyd_parse_data_mem(ctx, DOC2_JSON, LYD_JSON, LYD_PARSE_STRICT, LYD_VALIDATE_PRESENT, &t2) || !t2) {
        H->part[2] = H->part[3] = 1;
    } else {
        H->part[2] = print_hash(t2, LYD_XML, FNV0);
        H->part[3] = print_hash(t2, LYD_JSON, FNV0);
    }
    h = FNV0;
    for (int i = 0; t1 && (i < 3); i++) {
        LY_XPATH_TYPE ty = 0;
        struct ly_set *set = NULL;
        char *str = NULL, num[64];
        long double n = 0;
        ly_bool b = 0;

        if (lyd_eval_xpath4(t1, t1, NULL, XPATHS[i], LY_VALUE_JSON, NULL, NULL, &ty, &set, &str, &n, &b)) {
            h = fnvs(h, "XPATH-FAILED");
            continue;
        }
        h = fnv(h, (const char *)&ty, sizeof ty);
        if (ty == LY_XPATH_NODE_SET) {
            for (uint32_t k = 0; set && (k < set->count); k++) {
                char *p = lyd_path(set->dnodes[k], LYD_PATH_STD, NULL, 0);

                h = fnvs(h, p);
                h = fnvs(h, lyd_get_value(set->dnodes[k]));
                free(p);
            }
        } else if (ty == LY_XPATH_STRING) {
            h = fnvs(h, str);
        } else if (ty == LY_XPATH_NUMBER) {
            snprintf(num, sizeof num, "%.6Lf", n);
            h = fnvs(h, num);
        } else {
            h = fnv(h, b ? "T" : "F", 1);
        }
        ly_set_free(set, NULL);
        free(str);
    }
    H->part[4] = h;
    rb = ly_ctx_get_module_implemented(ctx, "rb");
    if (!rb || lys_print_mem(&s, rb, LYS_OUT_YANG_COMPILED, 0) || !s) {
        H->part[5] = 1;
    } else {
        H->part[5] = fnvs(FNV0, s);
    }
    free(s);
    s = NULL;
    lyd_free_all(t1);
    lyd_free_all(t2);

    if (full) {
        char text[2048], name[32];
        struct lys_module *m = NULL;
        size_t nl;

        /* loading a module may recompile the modules it depends on: no data tree may be alive (libyang rule) */
        lyd_free_all(S->tree);
        S->tree = NULL;

        snprintf(text, sizeof text, MOD_HX, S->hx, S->hx);
        nl = (size_t)snprintf(name, sizeof name, "hx%u", S->hx);
        ++S->hx;
        if (lys_parse_mem(ctx, text, LYS_IN_YANG, &m) || !m || lys_print_mem(&s, m, LYS_OUT_YANG_COMPILED, 0) || !s) {
            H->part[6] = 1;
        } else {
            /* the serial number does not count */
            h = FNV0;
            for (char *p = s; *p; ) {
                if (!strncmp(p, name, nl)) {
                    h = fnv(h, "hx", 2);
                    p += nl;
                } else {
                    h = fnv(h, p, 1);
                    ++p;
                }
            }
            H->part[6] = h;
        }
        free(s);
        tree_make(S);
    }
    ly_err_clean(ctx, NULL);
}

static int
health_cmp(const struct health *a, const struct health *b, int full, char *why, size_t whylen)
{
    static const char *names[] = {"doc1-xml", "doc1-json", "doc2-xml", "doc2-json", "xpath", "compiled-rb", "extra-module"};
    int bad = 0;

    why[0] = 0;
    for (int i = 0; i < (full ? 7 : 6); i++) {
        if (a->part[i] != b->part[i]) {
            if (bad) {
                strncat(why, ",", whylen - strlen(why) - 1);
            }
            strncat(why, names[i], whylen - strlen(why) - 1);
            bad = 1;
        }
    }
    return bad;
}

static const char *
repo_dir(void)
{
    const char *r = getenv("VERIF_REPO");

    return (r && r[0]) ? r : "/repo";
}

static struct ly_ctx *
ctx_make(const char *extra)
{
    struct ly_ctx *ctx = NULL;
    char dirs[1024];
    const char *feats[] = {"f1", NULL};

    snprintf(dirs, sizeof dirs, "%s/tests/modules/yang:%s/models", repo_dir(), repo_dir());
    if (ly_ctx_new(dirs, LY_CTX_DISABLE_SEARCHDIR_CWD, &ctx)) {
        return NULL;
    }
    if (lys_parse_mem(ctx, MOD_RB, LYS_IN_YANG, NULL) || !ly_ctx_get_module_implemented(ctx, "rb") ||
            lys_set_implemented(ly_ctx_get_module_implemented(ctx, "rb"), feats)) {
        fprintf(stderr, "t_robust: fixed module rb does not load: %s\n", ly_err_last(ctx) ? ly_err_last(ctx)->msg : "?");
        ly_ctx_destroy(ctx);
        return NULL;
    }
    if (extra && lys_parse_mem(ctx, extra, LYS_IN_YANG, NULL)) {
        ly_ctx_destroy(ctx);
        return NULL;
    }
    ly_err_clean(ctx, NULL);
    return ctx;
}

static int first_base_set;
static struct health first_base;

/* returns 0 on success; on failure prints the reason as a '!' word */
static int
shard_open(struct shard *S, const char *extra)
{
    char why[128];

    memset(S, 0, sizeof *S);
    S->ctx = ctx_make(extra);
    if (!S->ctx) {
        return 1;
    }
    health_run(S, &S->base, 1);
    if (!extra) {
        if (!first_base_set) {
            first_base = S->base;
            first_base_set = 1;
        } else if (health_cmp(&S->base, &first_base, 1, why, sizeof why)) {
            printf("!fresh-context-differs(%s) ", why);
        }
    }
    for (int i = 0; i < 7; i++) {
        if (S->base.part[i] == 1) {
            printf("!health-workload-fails-in-fresh-context(%d) ", i);
        }
    }
    if (!S->tree) {
        printf("!health-document-does-not-parse ");
    }
    return 0;
}

/* final comparison with a fresh context (only for the shared context) + destroy */
static void
shard_close(struct shard *S, int compare_fresh)
{
    char why[128];

    if (!S->ctx) {
        return;
    }
    if (compare_fresh) {
        struct shard F;
        struct health hu, hf;

        if (!shard_open(&F, NULL)) {
            S->hx = F.hx = (S->hx > F.hx) ? S->hx : F.hx;      /* same unused serial number on both sides */
            health_run(S, &hu, 1);
            health_run(&F, &hf, 1);
            if (health_cmp(&hu, &hf, 1, why, sizeof why)) {
                printf("!used-context-differs-from-fresh(%s) ", why);
            }
            lyd_free_all(F.tree);
            ly_ctx_destroy(F.ctx);
        }
    }
    lyd_free_all(S->tree);
    S->tree = NULL;
    notfreed_warn = 0;
    ly_ctx_destroy(S->ctx);
    S->ctx = NULL;
    if (notfreed_warn && S->suspect) {
        /* the last call changed the dictionary and these strings are still referenced now that everything is freed */
        printf("!dict-strings-left=%d ", notfreed_warn);
    } else if (notfreed_warn) {
        /* strings still referenced when the context is destroyed: a failure of its own only when no case of this context
         * was reported for leaving strings or memory behind (those are the cause, and they are reported precisely) */
        printf("%sctx-destroy-not-freed=%d ", S->blamed ? "" : "!", notfreed_warn);
    }
}

/* ------------------------------------------------------------------------------------------------------------- */
/* input decoding: hex, or R:<pre>,<open>,<n>,<mid>,<close>,<post> */
static char *
decode_input(const char *f, size_t *len)
{
    if (strncmp(f, "R:", 2)) {
        char *r = vunhex(f, len);

        *len = strlen(r);      /* the API takes C strings */
        return r;
    } else {
        char *copy = strdup(f + 2), *p = copy, *part[6] = {0};
        char *b[6] = {0}, *out, *o;
        size_t l[6] = {0}, n, total;
        int k = 0;

        while ((k < 6) && p) {
            part[k++] = p;
            p = strchr(p, ',');
            if (p) {
                *p++ = 0;
            }
        }
        if (k < 6) {
            free(copy);
            *len = 0;
            return calloc(1, 8);
        }
        n = strtoul(part[2], NULL, 10);
        for (int i = 0; i < 6; i++) {
            if (i != 2) {
                b[i] = vunhex(part[i], &l[i]);
                l[i] = strlen(b[i]);
            }
        }
        total = l[0] + n * l[1] + l[3] + n * l[4] + l[5];
        out = o = malloc(total + 8);
        memcpy(o, b[0], l[0]); o += l[0];
        for (size_t i = 0; i < n; i++) { memcpy(o, b[1], l[1]); o += l[1]; }
        memcpy(o, b[3], l[3]); o += l[3];
        for (size_t i = 0; i < n; i++) { memcpy(o, b[4], l[4]); o += l[4]; }
        memcpy(o, b[5], l[5]); o += l[5];
        memset(o, 0, 8);
        for (int i = 0; i < 6; i++) {
            free(b[i]);
        }
        free(copy);
        *len = total;
        return out;
    }
}

/* exact-size heap copy so that ASan sees a read past the terminating NUL */
static char *
exact(char *raw, size_t len)
{
    char *s = malloc(len + 1);

    memcpy(s, raw, len);
    s[len] = 0;
    free(raw);
    return s;
}

static char *
get_input(const char *f, size_t *len)
{
    char *raw = decode_input(f, len);

    return exact(raw, *len);
}

/* "not found / no match / needs the data tree" are answers, not errors, for the searching and matching entry points; a
 * parser has no such answers (except the documented LY_ENOT of lyd_parse_op for an unexpected NETCONF root element) */
static int strict_record;

static int
needs_record(LY_ERR rc)
{
    if (strict_record) {
        return rc && (strict_record == 2 ? (rc != LY_ENOT) : 1);
    }
    return rc && (rc != LY_ENOT) && (rc != LY_ENOTFOUND) && (rc != LY_EINCOMPLETE);
}

/* " ec=<class of the last error message>": the message without its quoted parts and digits, lower case, other characters as
 * '-' (copied from impl/lyx.c); it tells failures of one entry point apart by the error path that was taken */
static void
print_errclass(const struct ly_ctx *ctx)
{
    const struct ly_err_item *e = ly_err_last(ctx);
    const char *m = e ? e->msg : NULL;
    char buf[48];
    size_t n = 0;
    int inq = 0;

    if (!m) {
        return;
    }
    for ( ; *m && (n < sizeof buf - 1); ++m) {
        if (*m == '"') {
            inq = !inq;
            continue;
        }
        if (inq) {
            continue;
        }
        if (isalpha((unsigned char)*m)) {
            buf[n++] = (char)tolower((unsigned char)*m);
        } else if (n && (buf[n - 1] != '-')) {
            buf[n++] = '-';
        }
    }
    while (n && (buf[n - 1] == '-')) {
        --n;
    }
    buf[n] = 0;
    printf("ec=%s ", buf);
}

static void
check_record(const struct ly_ctx *ctx, LY_ERR rc)
{
    const struct ly_err_item *e;

    if (rc == LY_EINT) {
        /* "internal error" (LOGINT) must not be reachable from input */
        printf("!internal-error ");
    }
    if (!needs_record(rc)) {
        return;
    }
    e = ly_err_last(ctx);
    if (!e) {
        printf("!no-error-record ");
    } else if (!e->msg || !e->msg[0]) {
        printf("!error-record-without-message ");
    } else if (e->err != rc) {
        /* informational only: the record of the last error may carry another code than the return value */
        printf("rec=%d ", (int)e->err);
    }
}

static unsigned
count_nodes(const struct lyd_node *n)
{
    unsigned c = 0;
    const struct lyd_node *e, *s;

    LY_LIST_FOR(n, s) {
        LYD_TREE_DFS_BEGIN(s, e) {
            ++c;
            LYD_TREE_DFS_END(s, e);
        }
    }
    return c;
}

static LYD_FORMAT
fmt_of(const char *w)
{
    return (w[0] == 'j') ? LYD_JSON : LYD_XML;
}

/* ------------------------------------------------------------------------------------------------------------- */
static void
run_case(struct shard *S, struct vcase *c, int nf)
{
    struct ly_ctx *ctx = S->ctx;
    const char *entry = c->f[1];
    char *in = NULL;
    size_t len = 0;
    LY_ERR rc = LY_SUCCESS;
    unsigned nmod0, nmod1;
    uint64_t sig0, sig1;
    int module_entry = 0;
    struct health H;
    char why[128];
    uint32_t dict0, dict1;
    uint64_t ref0, ref1;
    size_t heap0, heap1;

    if (!strcmp(entry, "yang") || !strcmp(entry, "yin")) {
        /* no data tree may be alive while the set of modules changes (libyang rule: loading a module may recompile the
         * modules it depends on); the full health run re-creates it */
        lyd_free_all(S->tree);
        S->tree = NULL;
    }
    sig0 = ctx_sig(ctx, &nmod0);
    ly_err_clean(ctx, NULL);
    dict_stat(ctx, &dict0, &ref0);
    heap0 = __sanitizer_get_current_allocated_bytes ? __sanitizer_get_current_allocated_bytes() : 0;
    printf("%s ", entry);
    strict_record = (!strcmp(entry, "yang") || !strcmp(entry, "yin") || !strcmp(entry, "data")) ? 1 : (!strcmp(entry, "op") ? 2 : 0);

    if ((!strcmp(entry, "yang") || !strcmp(entry, "yin")) && (nf >= 3)) {
        struct lys_module *mod = NULL;

        module_entry = 1;
        in = get_input(c->f[2], &len);
        rc = lys_parse_mem(ctx, in, entry[1] == 'a' ? LYS_IN_YANG : LYS_IN_YIN, &mod);
        printf("rc=%d ", (int)rc);
        if (rc) {
            if (mod) {
                printf("!module-returned-on-error ");
            }
        } else {
            char *s = NULL;

            if (!mod) {
                printf("!success-without-module ");
            } else {
                /* exercise the printers on what was accepted */
                if (!lys_print_mem(&s, mod, LYS_OUT_YANG, 0)) {
                    free(s);
                }
                s = NULL;
                if (mod->compiled && !lys_print_mem(&s, mod, LYS_OUT_YANG_COMPILED, 0)) {
                    free(s);
                }
            }
            S->dirty = 1;
        }
    } else if (!strcmp(entry, "data") && (nf >= 6)) {
        struct lyd_node *tree = NULL;
        uint32_t po = (uint32_t)strtoul(c->f[3], NULL, 0), vo = (uint32_t)strtoul(c->f[4], NULL, 0);

        in = get_input(c->f[5], &len);
        rc = lyd_parse_data_mem(ctx, in, fmt_of(c->f[2]), po, vo, &tree);
        printf("rc=%d ", (int)rc);
        if (rc && tree) {
            printf("!tree-returned-on-error ");
        }
        if (!rc && tree) {
            char *s = NULL;

            printf("n=%u ", count_nodes(tree));
            if (!lyd_print_mem(&s, tree, LYD_XML, LYD_PRINT_WITHSIBLINGS)) {
                free(s);
            }
            s = NULL;
            if (!lyd_print_mem(&s, tree, LYD_JSON, LYD_PRINT_WITHSIBLINGS | LYD_PRINT_WD_ALL_TAG)) {
                free(s);
            }
        }
        lyd_free_all(tree);
    } else if (!strcmp(entry, "op") && (nf >= 5)) {
        struct lyd_node *tree = NULL, *op = NULL, *ptop = NULL, *parent = NULL;
        struct ly_in *lin = NULL;
        const char *ty = c->f[3];
        enum lyd_type dt = LYD_TYPE_RPC_YANG;
        int want_parent = 0, envelope = 0, pass_op = 1;
        unsigned before = 0;

        if (!strcmp(ty, "rpc")) { dt = LYD_TYPE_RPC_YANG; }
        else if (!strcmp(ty, "notif")) { dt = LYD_TYPE_NOTIF_YANG; }
        else if (!strcmp(ty, "reply")) { dt = LYD_TYPE_REPLY_YANG; want_parent = 1; }
        else if (!strcmp(ty, "reply-act")) { dt = LYD_TYPE_REPLY_YANG; want_parent = 2; }
        else if (!strcmp(ty, "nc-rpc")) { dt = LYD_TYPE_RPC_NETCONF; envelope = 1; }
        else if (!strcmp(ty, "nc-notif")) { dt = LYD_TYPE_NOTIF_NETCONF; envelope = 1; }
        else if (!strcmp(ty, "nc-reply")) { dt = LYD_TYPE_REPLY_NETCONF; envelope = 1; want_parent = 1; pass_op = 0; }
        else if (!strcmp(ty, "nc-reply-act")) { dt = LYD_TYPE_REPLY_NETCONF; envelope = 1; want_parent = 2; pass_op = 0; }
        else if (!strcmp(ty, "rc-rpc")) { dt = LYD_TYPE_RPC_RESTCONF; envelope = 1; want_parent = 1; pass_op = 0; }
        else if (!strcmp(ty, "rc-notif")) { dt = LYD_TYPE_NOTIF_RESTCONF; envelope = 1; }
        else if (!strcmp(ty, "rc-reply")) { dt = LYD_TYPE_REPLY_RESTCONF; envelope = 1; want_parent = 1; pass_op = 0; }

        if (want_parent == 1) {
            lyd_new_path(NULL, ctx, "/rb:op", NULL, 0, &ptop);
            parent = ptop;
        } else if (want_parent == 2) {
            lyd_new_path(NULL, ctx, "/rb:top/item[id='1']/reset", NULL, 0, &ptop);
            if (ptop) {
                lyd_find_path(ptop, "/rb:top/item[id='1']/reset", 0, &parent);
            }
        }
        ly_err_clean(ctx, NULL);
        if (want_parent && !parent) {
            printf("!no-parent ");
        } else {
            before = ptop ? count_nodes(ptop) : 0;
            in = get_input(c->f[4], &len);
            ly_in_new_memory(in, &lin);
            rc = lyd_parse_op(ctx, parent, lin, fmt_of(c->f[2]), dt, &tree, pass_op ? &op : NULL);
            printf("rc=%d ", (int)rc);
            if (rc) {
                if (op) {
                    printf("!op-returned-on-error ");
                }
                if (tree && !envelope) {
                    printf("!tree-returned-on-error ");
                }
                if (tree && envelope) {
                    printf("env=1 ");
                }
                if (ptop && (count_nodes(ptop) != before)) {
                    printf("!parent-changed-on-error(%u->%u) ", before, count_nodes(ptop));
                }
            } else {
                char *s = NULL;

                if (tree && !lyd_print_mem(&s, tree, LYD_XML, LYD_PRINT_WITHSIBLINGS)) {
                    free(s);
                }
                s = NULL;
                if (ptop && !lyd_print_mem(&s, ptop, LYD_JSON, LYD_PRINT_WITHSIBLINGS)) {
                    free(s);
                }
            }
            ly_in_free(lin, 0);
        }
        /* with a parent everything parsed hangs below ptop; without one the operation is inside tree, except for the
         * protocol messages, whose envelopes (tree) and operation (op) are two separate trees */
        if (op && !parent) {
            struct lyd_node *top = op;

            while (top->parent) {
                top = lyd_parent(top);
            }
            top = lyd_first_sibling(top);
            if (!tree) {
                tree = top;
            } else if (top != lyd_first_sibling(tree)) {
                lyd_free_all(top);
            }
        }
        lyd_free_all(tree);
        lyd_free_all(ptop);
    } else if (!strcmp(entry, "xfind") && (nf >= 3)) {
        struct ly_set *set = NULL;

        in = get_input(c->f[2], &len);
        rc = lyd_find_xpath(S->tree, in, &set);
        printf("rc=%d ", (int)rc);
        if (rc && set) {
            printf("!set-returned-on-error ");
        }
        if (!rc && set) {
            printf("n=%u ", set->count);
        }
        ly_set_free(set, NULL);
    } else if (!strcmp(entry, "xeval") && (nf >= 3)) {
        LY_XPATH_TYPE ty = 0;
        struct ly_set *set = NULL;
        char *str = NULL;
        long double num = 0;
        ly_bool b = 0;

        in = get_input(c->f[2], &len);
        rc = lyd_eval_xpath4(S->tree, S->tree, NULL, in, LY_VALUE_JSON, NULL, NULL, &ty, &set, &str, &num, &b);
        printf("rc=%d ", (int)rc);
        if (rc && (set || str)) {
            printf("!result-returned-on-error ");
        }
        if (!rc) {
            printf("t=%d ", (int)ty);
        }
        ly_set_free(set, NULL);
        free(str);
    } else if (!strcmp(entry, "sxfind") && (nf >= 3)) {
        struct ly_set *set = NULL;

        in = get_input(c->f[2], &len);
        rc = lys_find_xpath(ctx, NULL, in, 0, &set);
        printf("rc=%d ", (int)rc);
        if (rc && set) {
            printf("!set-returned-on-error ");
        }
        if (!rc && set) {
            printf("n=%u ", set->count);
        }
        ly_set_free(set, NULL);
    } else if (!strcmp(entry, "fpath") && (nf >= 3)) {
        struct lyd_node *match = NULL;

        in = get_input(c->f[2], &len);
        rc = lyd_find_path(S->tree, in, 0, &match);
        printf("rc=%d ", (int)rc);
        if (rc && (rc != LY_EINCOMPLETE) && match) {
            printf("!match-returned-on-error ");
        }
    } else if ((!strcmp(entry, "npath") || !strcmp(entry, "npathp")) && (nf >= 4)) {
        struct lyd_node *node = NULL, *par = NULL;
        char *val = strcmp(c->f[2], "~") ? vunhex(c->f[2], NULL) : NULL, *before = NULL, *after = NULL;

        in = get_input(c->f[3], &len);
        if (entry[5] == 'p') {
            lyd_dup_siblings(S->tree, NULL, LYD_DUP_RECURSIVE, &par);
            lyd_print_mem(&before, par, LYD_XML, LYD_PRINT_WITHSIBLINGS);
            ly_err_clean(ctx, NULL);
        }
        rc = lyd_new_path(par, ctx, in, val, par ? LYD_NEW_PATH_UPDATE : 0, &node);
        printf("rc=%d ", (int)rc);
        if (rc && node) {
            printf("!node-returned-on-error ");
        }
        if (par) {
            /* par may no longer be the first sibling */
            while (par->prev->next) {
                par = par->prev;
            }
            if (rc) {
                lyd_print_mem(&after, par, LYD_XML, LYD_PRINT_WITHSIBLINGS);
                if (!before || !after || strcmp(before, after)) {
                    printf("!parent-changed-on-error ");
                }
            }
            lyd_free_all(par);
        } else if (node) {
            while (node->parent) {
                node = lyd_parent(node);
            }
            lyd_free_all(node);
        }
        free(before);
        free(after);
        free(val);
    } else if (!strcmp(entry, "value") && (nf >= 4)) {
        char path[128];
        const struct lysc_node *sn;
        const struct lysc_type *rt = NULL;
        const char *canon = NULL;
        struct lyd_node *tn = NULL;

        snprintf(path, sizeof path, "/rb:types/rb:%s", c->f[2]);
        sn = lys_find_path(ctx, NULL, path, 0);
        ly_err_clean(ctx, NULL);
        if (!sn) {
            printf("!no-such-leaf ");
        } else {
            in = get_input(c->f[3], &len);
            rc = lyd_value_validate(ctx, sn, in, len, NULL, &rt, &canon);
            printf("rc=%d ", (int)rc);
            if (rc && (rc != LY_EINCOMPLETE) && canon) {
                printf("!canonical-returned-on-error ");
            }
            if (canon) {
                lydict_remove(ctx, canon);
                canon = NULL;
            }
            check_record(ctx, rc);
            /* and with a context node, which resolves leafref / instance-identifier */
            if (S->tree && !lyd_find_path(S->tree, "/rb:types", 0, &tn) && tn) {
                LY_ERR rc2;

                ly_err_clean(ctx, NULL);
                rc2 = lyd_value_validate(ctx, sn, in, len, tn, &rt, &canon);
                printf("rc2=%d ", (int)rc2);
                if (canon) {
                    lydict_remove(ctx, canon);
                }
                rc = rc2;
            }
        }
    } else if (!strcmp(entry, "api") && (nf >= 3)) {
        /* trees with degenerate but legal content built through the API, then all three printers (+ parsing the output
         * back), lyd_dup_siblings, lyd_compare_siblings, free: no crash and a defined return code */
        const struct lys_module *rbm = ly_ctx_get_module_implemented(ctx, "rb");
        const char *kind = c->f[2];
        struct lyd_node *top = NULL, *tree = NULL, *n = NULL, *dup = NULL, *vtree = NULL, *back = NULL;
        char *a[6] = {0}, *s = NULL;
        int used_value = 0, i;
        LY_ERR r;
        static const LYD_FORMAT fmts[3] = {LYD_XML, LYD_JSON, LYD_LYB};

        for (i = 0; (i < 6) && (3 + i < nf); i++) {
            a[i] = strcmp(c->f[3 + i], "~") ? vunhex(c->f[3 + i], NULL) : NULL;
        }
        lyd_new_inner(NULL, rbm, "top", 0, &top);
        tree = top;
        ly_err_clean(ctx, NULL);
        if (!strcmp(kind, "any") && (nf >= 7)) {
            /* any <name> <value type> <value|~> <options> */
            LYD_ANYDATA_VALUETYPE vt = (LYD_ANYDATA_VALUETYPE)atoi(c->f[4]);
            uint32_t opts = (uint32_t)strtoul(c->f[6], NULL, 0);
            const void *val = a[2];

            if ((vt == LYD_ANYDATA_DATATREE) && a[2]) {
                lyd_new_opaq(NULL, ctx, "x", a[2], NULL, "m", &vtree);
                val = vtree;
            }
            rc = lyd_new_any(top, NULL, a[0], val, vt, opts, &n);
            if (!rc && (opts & LYD_NEW_ANY_USE_VALUE)) {
                used_value = 1;
            }
            if (used_value && (vt == LYD_ANYDATA_DATATREE)) {
                vtree = NULL;
            } else if (used_value) {
                a[2] = NULL;
            }
        } else if (!strcmp(kind, "anycopy") && (nf >= 8)) {
            /* anycopy <name> <first value type> <first value> <mode> <second value type> : node with a value, then
             * lyd_any_copy_value(node, NULL, t2) (mode 0: only frees the value) or with a union holding NULL (mode 1) */
            LYD_ANYDATA_VALUETYPE vt = (LYD_ANYDATA_VALUETYPE)atoi(c->f[4]), vt2 = (LYD_ANYDATA_VALUETYPE)atoi(c->f[7]);
            union lyd_any_value uv;

            memset(&uv, 0, sizeof uv);
            rc = lyd_new_any(top, NULL, a[0], a[2], vt, 0, &n);
            if (!rc && n) {
                rc = lyd_any_copy_value(n, atoi(c->f[6]) ? &uv : NULL, vt2);
            }
        } else if (!strcmp(kind, "opaq") && (nf >= 8)) {
            /* opaq <j|x> <name> <value> <prefix> <module name / namespace> */
            if (c->f[3][0] == 'j') {
                rc = lyd_new_opaq(top, ctx, a[1], a[2], a[3], a[4], &n);
                if (!rc) {
                    printf("attr=%d ", (int)lyd_new_attr(n, a[4], "at", a[2], NULL));
                }
            } else {
                rc = lyd_new_opaq2(top, ctx, a[1], a[2], a[3], a[4], &n);
                if (!rc) {
                    printf("attr=%d ", (int)lyd_new_attr2(n, a[4], "at", a[2], NULL));
                }
            }
        } else if (!strcmp(kind, "term") && (nf >= 6)) {
            /* term <leaf of /rb:types> <value> <options> */
            lyd_free_all(top);
            top = NULL;
            lyd_new_inner(NULL, rbm, "types", 0, &top);
            tree = top;
            rc = lyd_new_term(top, NULL, a[0], a[1], (uint32_t)strtoul(c->f[5], NULL, 0), &n);
        } else if (!strcmp(kind, "meta") && (nf >= 5)) {
            /* meta <annotation> <value> */
            rc = lyd_new_meta(ctx, top, NULL, a[0], a[1], 0, NULL);
        } else if (!strcmp(kind, "path") && (nf >= 5)) {
            /* path <path> <value> : empty containers, lists, leaf-lists by lyd_new_path */
            rc = lyd_new_path(top, ctx, a[0], a[1], 0, &n);
        } else if (!strcmp(kind, "list") && (nf >= 5)) {
            /* list <k1> <k2> : rb:top/pair */
            rc = lyd_new_list(top, NULL, "pair", 0, &n, a[0], a[1]);
        } else {
            printf("?api-kind ");
        }
        printf("rc=%d ", (int)rc);
        check_record(ctx, rc);
        for (i = 0; tree && (i < 3); i++) {
            s = NULL;
            r = lyd_print_mem(&s, tree, fmts[i], LYD_PRINT_WITHSIBLINGS | LYD_PRINT_WD_ALL | LYD_PRINT_KEEPEMPTYCONT);
            printf("p%d=%d%s ", i, (int)r, (r == LY_EINT) ? " !internal-error-print" : "");
            if (!r && s) {
                back = NULL;
                r = lyd_parse_data_mem(ctx, s, fmts[i], LYD_PARSE_ONLY | LYD_PARSE_OPAQ, 0, &back);
                printf("b%d=%d ", i, (int)r);
                lyd_free_all(back);
            }
            free(s);
        }
        if (tree) {
            r = lyd_dup_siblings(tree, NULL, LYD_DUP_RECURSIVE | LYD_DUP_WITH_FLAGS, &dup);
            printf("dup=%d ", (int)r);
            if (!r) {
                printf("cmp=%d ", (int)lyd_compare_siblings(tree, dup, LYD_COMPARE_FULL_RECURSION | LYD_COMPARE_DEFAULTS));
            }
            lyd_free_all(dup);
        }
        lyd_free_all(top);
        lyd_free_all(vtree);
        for (i = 0; i < 6; i++) {
            free(a[i]);
        }
        ly_err_clean(ctx, NULL);
        rc = LY_SUCCESS;
    } else if (!strcmp(entry, "pattern") && (nf >= 4)) {
        size_t pl;
        char *pat = get_input(c->f[2], &pl);

        in = get_input(c->f[3], &len);
        rc = ly_pattern_match(ctx, pat, in, 0, NULL);
        printf("rc=%d ", (int)rc);
        free(pat);
    } else {
        printf("?unknown-entry ");
    }
    check_record(ctx, rc);
    if (rc) {
        print_errclass(ctx);
    }
    free(in);

    /* the call must have popped every log location it pushed */
    if (log_location.scnodes.count || log_location.dnodes.count || log_location.paths.count || log_location.inputs.count) {
        printf("!log-location-left(schema=%u,data=%u,path=%u,input=%u) ", log_location.scnodes.count, log_location.dnodes.count,
                log_location.paths.count, log_location.inputs.count);
        ly_log_location_revert(log_location.scnodes.count, log_location.dnodes.count, log_location.paths.count,
                log_location.inputs.count);
    }

    /* no call may leave strings in the dictionary of the context (except a module that was loaded) */
    ly_err_clean(ctx, NULL);
    dict_stat(ctx, &dict1, &ref1);
    if (!(module_entry && !rc) && ((dict1 != dict0) || (ref1 != ref0))) {
        /* references can also be held by the context itself (they are released by ly_ctx_destroy()): the context is
         * destroyed within this case and only strings that are still referenced THEN are left behind by the call */
        printf("dictdelta=%d/refs=%lld ", (int)(dict1 - dict0), (long long)(ref1 - ref0));
        S->suspect = 1;
    }
    heap1 = __sanitizer_get_current_allocated_bytes ? __sanitizer_get_current_allocated_bytes() : 1;
    heap_grew = (heap1 > heap0) && !(module_entry && !rc);

    /* the module list must be unchanged unless a module was loaded successfully */
    sig1 = ctx_sig(ctx, &nmod1);
    if (!(module_entry && !rc)) {
        if (nmod1 != nmod0) {
            printf("!module-count-changed(%u->%u) ", nmod0, nmod1);
        } else if (sig1 != sig0) {
            printf("!module-list-changed ");
        }
    }

    /* health: the fixed valid workload gives what it gave in the fresh context */
    if (!S->dirty) {
        int full = module_entry && rc;

        health_run(S, &H, full);
        if (health_cmp(&H, &S->base, full, why, sizeof why)) {
            printf("!health-differs(%s) ", why);
        } else {
            printf("H=ok");
        }
    } else {
        printf("H=reset");
    }
}

int
main(void)
{
    struct vcase c;
    struct shard S;
    struct sigaction sa;
    /* CPU seconds per case: legitimate work takes < 1 s (release) / < 3 s (ASan); the sanitizer build gets more head room
     * because page-fault and reclaim time of a loaded machine is charged to the process as well */
    int limit = getenv("RB_CPU_LIMIT") ? atoi(getenv("RB_CPU_LIMIT")) : (__lsan_do_recoverable_leak_check ? 30 : 10);
    unsigned ncase = 0;
    int private_ctx = 0;

    memset(&S, 0, sizeof S);
    memset(&sa, 0, sizeof sa);
    sa.sa_handler = on_cpu;
    sigaction(SIGPROF, &sa, NULL);
    ly_set_log_clb(log_cb);
    ly_log_options(LY_LOLOG | LY_LOSTORE_LAST);
    have_lsan = (__lsan_do_recoverable_leak_check != NULL) && !getenv("RB_NO_LSAN");

    while (vnext(&c)) {
        int nf = c.nf;
        const char *extra_hex = NULL;

        if ((nf < 2) || strcmp(c.f[0], "rb")) {
            printf("?");
            VEND();
            continue;
        }
        if ((nf > 2) && !strncmp(c.f[nf - 1], "M:", 2)) {
            extra_hex = c.f[nf - 1] + 2;
            --nf;
        }
        cur_entry = c.f[1];
        cpu_limit(limit);
        heap_grew = 1;
        private_ctx = extra_hex ? 1 : 0;
        if (extra_hex) {
            /* private context: fixed set + the given module */
            struct shard P;
            char *extra = vunhex(extra_hex, NULL);

            if (shard_open(&P, extra)) {
                printf("%s !setup-module-does-not-load", c.f[1]);
            } else {
                run_case(&P, &c, nf);
                printf(" ");
                shard_close(&P, 0);
            }
            free(extra);
        } else {
            if (S.ctx && (S.dirty || (S.cases >= 400) || (S.hx >= 60))) {
                shard_close(&S, !S.dirty);
            }
            if (!S.ctx && shard_open(&S, NULL)) {
                printf("%s !fixed-context-cannot-be-created", c.f[1]);
                cpu_limit(0);
                VEND();
                continue;
            }
            ++S.cases;
            run_case(&S, &c, nf);
            if (S.dirty || S.blamed || S.suspect) {
                /* a module was loaded, or the case left strings / memory behind: the context is destroyed within this
                 * case, so that what the destruction finds (strings still referenced) belongs to this case and the next
                 * cases start from a clean context */
                printf(" ");
                shard_close(&S, 0);
            }
        }
        cpu_limit(0);
        /* the leak checker stops the world and costs ~0.1 s: it runs only when the heap in use has grown over the call
         * (allocator statistics of the sanitizer run time; growth that is no leak, e.g. a resized hash table, only costs
         * the check) and after every 64th case */
        if (have_lsan && (heap_grew || !(++ncase % 64))) {
            if (leak_check()) {
                S.blamed = 1;
            }
        }
        VEND();
    }
    /* end of the shard: compare the used context with a fresh one, destroy it, report on an extra line-less channel */
    if (S.ctx) {
        /* the findings of the final comparison belong to no single case: they are printed on stderr and make the exit
         * status non-zero, which the harness reports for the shard */
        fflush(stdout);
        {
            int saved = dup(1);
            FILE *tmp = tmpfile();

            dup2(fileno(tmp), 1);
            shard_close(&S, !S.dirty);
            fflush(stdout);
            dup2(saved, 1);
            close(saved);
            if (ftell(tmp) > 0) {
                char buf[512];
                size_t n;

                rewind(tmp);
                n = fread(buf, 1, sizeof buf - 1, tmp);
                buf[n] = 0;
                fprintf(stderr, "t_robust: end of shard: %s\n", buf);
                fclose(tmp);
                return 4;
            }
            fclose(tmp);
        }
    }
    return 0;
}
