/* t_types2.c — driver of slice `types2` (property C03): source independence of typed values and the
 * further built-in types (enumeration, bits, binary, string length, union), through the public API of the
 * library built from the working tree.
 *
 * One module `types2` (prefix t2) is generated from the table TYPES below: for every entry <T>
 *     typedef T_<T> {type <body>}   leaf l_<T>   list k_<T> {key k; leaf k}   leaf-list ll_<T>
 * (same table, by name, in tools/props/comps_types2.py and ocaml/run_types2.ml).
 *
 * Cases (hex byte strings, "-" = empty):
 *   si <T> <hex vj> <hex vx|=> <lit> <hex valid>
 *        the lexical value offered through every source. vj = spelling for the sources that take the
 *        JSON prefix format (module names), vx = spelling for XML / schema default (prefixes; "=" same as vj),
 *        lit = "-" | "L" (also offer vj as a bare JSON literal) | "N" (also offer JSON [null]),
 *        valid = some valid value of the type (initial value for change_term, filler instance for find).
 *        Output: space separated <src>=<res>, res = E (rejected) | hex of lyd_get_value() ("-" empty) |
 *        NA (source cannot carry this value / usage does not exist) | NF (accepted but not found) | A (accepted, no value)
 *          xl xk xll     XML element content: leaf, list key, leaf-list          (lyd_parse_data_mem)
 *          jl jk jll     JSON string: leaf, list key, leaf-list
 *          Jl Jk Jll     JSON literal (only with lit L / N)
 *          nt ntl        lyd_new_term leaf / leaf-list
 *          nl            lyd_new_list key
 *          np npl        lyd_new_path value of leaf / leaf-list
 *          pk pl         lyd_new_path list-key predicate [k='v'] / leaf-list predicate [.='v']
 *          fk fl         lyd_find_path with the same predicates on a tree holding the instance
 *          vv vk         lyd_value_validate on the leaf / the key
 *          vs vn         (unions un, un2 only) lyd_value_validate on l_<T>_s / l_<T>_n: the union restricted to its members
 *                        with a JSON string / JSON number encoding
 *          ct            lyd_change_term on a leaf holding <valid>
 *          df dfl        schema default of a leaf / leaf-list in a module variant compiled in a fresh context
 *          dup lyb       lyd_dup_single / LYB print+parse of the lyd_new_term leaf ("NE:" prefix: compares not equal)
 *   tv <T> <hex>         lyd_new_term on l_<T> -> E | <hex canonical> <detail>; detail = enum value | bits bitmap hex |
 *                        binary data hex | union member index | nothing
 *   cmp <T> <hex a> <hex b>   lyd_value_compare / lyd_compare_single as in t_types.c -> 0 | 1 | E
 *   ci <T> <hex>         canonical string c1 of the value (lyd_new_term on l_<T>) and canonical string c2 of c1 stored again:
 *                        E | <hex c1> <hex c2|E>
 *   iidp <T> <hex> <structure...>   as ci on the text <hex> (an instance-identifier); the remaining fields describe the same path
 *                        as a structure for the model (S <hex module> <hex name> | K <hex key> <hex value> | L <hex value> | P <n>)
 *   cx <T> <hex>         the canonical string c1 of the value and what becomes of it: E | <hex c1> rs=<hex|E> cc=<OK|E> dp=<hex|E> dx=<hex|E>
 *                        rs: c1 stored again (lyd_new_term); cc: lyd_change_term_canon(node, c1); dp: lyd_dup_single (NE: prefix
 *                        when it compares unequal); dx: lyd_dup_single_to_ctx into a second context with the same modules
 *   dupl <T> <hex a> <hex b>   a and b as two ll_<T> instances / two k_<T> list keys, inserted and validated
 *                        (lyd_validate_all): "ll=<OK|DUP> k=<OK|DUP>" (DUP: insertion or validation refused) | E
 *   perm <T> <hex a> <hex b> <hex c>   the three values inserted as ll_<T> siblings in all six orders: the common
 *                        resulting sequence of canonical values | DIFF <seq> / <seq> | E
 *   ip4z <addr> <len>    ipv4-prefix (addr as a 32-bit number, host byte order) stored as text a.b.c.d/len: the address
 *                        of the canonical string as a number | E
 *   srt <T> <hex a> <hex b> ...   all inserted in this order as ll_<T> siblings (lyd_insert_sibling, sorted insertion):
 *                        canonical values in the resulting order | E
 */
#include "common.h"
#include <time.h>
#include "libyang.h"
#include "plugins_types.h"

#define F_NODFLT 1      /* the type cannot have a default (empty) */
#define F_NOKEY 2
#define F_NOLL 4

struct tdef {
    const char *name;
    const char *body;
    int flags;
};

static const struct tdef TYPES[] = {
    {"i8r", "int8 {range \"-100..-10 | 0 | 5..20 | 100..max\";}", 0},
    {"u64r", "uint64 {range \"0..9 | 9223372036854775807..9223372036854775808 | 18446744073709551614..max\";}", 0},
    {"u32", "uint32", 0},
    {"i64", "int64", 0},
    {"d1r", "decimal64 {fraction-digits 1; range \"min..-100.5 | -1.0..1.0 | 922337203685477580.0..max\";}", 0},
    {"d2r", "decimal64 {fraction-digits 2; range \"-10.5..-1.25 | 0 | 3.14..100\";}", 0},
    {"d18r", "decimal64 {fraction-digits 18; range \"-1.5..-0.000000000000000001 | 0.5..9\";}", 0},
    {"s", "string", 0},
    {"sl", "string {length \"0 | 2..5 | 8\";}", 0},
    {"sp", "string {length \"1..10\"; pattern '[a-z]+[0-9]*'; pattern 'abc.*' {modifier invert-match;}}", 0},
    {"b", "boolean", 0},
    {"en", "enumeration {enum red {value 10;} enum green {value -3;} enum blue; enum \"dark blue\" {value 5;} enum \"7\" {value 0;}}", 0},
    {"bt", "bits {bit a {position 2;} bit b {position 0;} bit cc {position 9;} bit d {position 33;} bit e {position 70;}}", 0},
    {"bs", "bits {bit x; bit y; bit z;}", 0},
    {"bin", "binary {length \"0 | 2..4 | 48..49\";}", 0},
    {"binu", "binary", 0},
    {"un", "union {type int8 {range \"1..10\";} type enumeration {enum auto; enum \"11\"; enum \"5\";} type string {length \"2..3\";}}", 0},
    {"un2", "union {type string {length \"1\";} type int8;}", 0},
    /* the members of un / un2 that RFC 7951 represents as JSON strings (_s) and as JSON numbers (_n): reference for section 6.10 */
    {"un_s", "union {type enumeration {enum auto; enum \"11\"; enum \"5\";} type string {length \"2..3\";}}", 0},
    {"un_n", "union {type int8 {range \"1..10\";}}", 0},
    {"un2_s", "union {type string {length \"1\";}}", 0},
    {"un2_n", "union {type int8;}", 0},
    /* all members are JSON strings (RFC 7951 6.1, 6.2, 6.4): the member order decides the canonical string in every format */
    {"un3", "union {type uint64 {range \"0..100\";} type decimal64 {fraction-digits 2;} type string {length \"1..4\";}}", 0},
    {"idr", "identityref {base ba; base bb;}", 0},
    {"lref", "leafref {path \"/t2:tgt\"; require-instance false;}", 0},
    {"iid", "instance-identifier {require-instance false;}", 0},
    {"em", "empty", F_NODFLT},
    {"tc", "c2 {range \"20..30 | 40\";}", 0},
    {"ip4", "inet:ipv4-address", 0},
    {"ip6", "inet:ipv6-address", 0},
    {"ip4p", "inet:ipv4-prefix", 0},
    {"ip6p", "inet:ipv6-prefix", 0},
    {"ipa", "inet:ip-address", 0},
    {"ip4nz", "inet:ipv4-address-no-zone", 0},
    {"ip6nz", "inet:ipv6-address-no-zone", 0},
    {"dt", "yang:date-and-time", 0},
    {"hx", "yang:hex-string", 0},
    {"mac", "yang:mac-address", 0},
    {"uu", "yang:uuid", 0},
    {"nii", "nacm:node-instance-identifier", 0},
    {"ipp", "inet:ip-prefix", 0},
    {"phys", "yang:phys-address", 0},
    {NULL, NULL, 0}
};

static const char *HEAD =
    "module types2 {yang-version 1.1; namespace urn:types2; prefix t2;\n"
    "  import ietf-inet-types {prefix inet;} import ietf-yang-types {prefix yang;} import ietf-netconf-acm {prefix nacm;}\n"
    "  identity ba; identity bb; identity iab {base ba; base bb;} identity ia {base ba;} identity ib {base bb;}\n"
    "  identity iab2 {base iab;}\n"
    "  typedef c1 {type int8 {range \"1..100\";}} typedef c2 {type c1 {range \"10..50\";}}\n"
    "  leaf tgt {type int8 {range \"1..10\";}}\n"
    /* targets of instance-identifier values with several predicates */
    "  list k2 {key \"a b\"; leaf a {type string;} leaf b {type string;} leaf v {type string;}}\n"
    "  list o {key n; leaf n {type string;} list i {key m; leaf m {type string;} leaf v {type string;}}}\n";

/* the typedef that has a dedicated type plugin (src/plugins_types/node_instanceid.c), as in ietf-netconf-acm@2018-02-14 */
static const char *ACM =
    "module ietf-netconf-acm {yang-version 1.1; namespace \"urn:ietf:params:xml:ns:yang:ietf-netconf-acm\"; prefix nacm;\n"
    "  import ietf-yang-types {prefix yang;} revision 2018-02-14;\n"
    "  typedef node-instance-identifier {type yang:xpath1.0;}}\n";

static char *MODTEXT;
static struct ly_ctx *CTX2;     /* a second context with the same modules (duplication into another context) */

static void
log_cb(LY_LOG_LEVEL level, const char *msg, const char *data_path, const char *schema_path, uint64_t line)
{
    (void)level; (void)msg; (void)data_path; (void)schema_path; (void)line;
}

static void
build_module(void)
{
    size_t cap = 65536, len;
    const struct tdef *t;

    MODTEXT = malloc(cap);
    len = sprintf(MODTEXT, "%s", HEAD);
    for (t = TYPES; t->name; ++t) {
        len += sprintf(MODTEXT + len, "  typedef T_%s {type %s%s}\n  leaf l_%s {type T_%s;}\n", t->name, t->body,
                strchr(t->body, '{') ? "" : ";", t->name, t->name);
        if (!(t->flags & F_NOKEY)) {
            len += sprintf(MODTEXT + len, "  list k_%s {key k; leaf k {type T_%s;}}\n", t->name, t->name);
        }
        if (!(t->flags & F_NOLL)) {
            len += sprintf(MODTEXT + len, "  leaf-list ll_%s {type T_%s;}\n", t->name, t->name);
        }
    }
    sprintf(MODTEXT + len, "}\n");
}

static const struct tdef *
find_type(const char *name)
{
    const struct tdef *t;

    for (t = TYPES; t->name; ++t) {
        if (!strcmp(t->name, name)) {
            return t;
        }
    }
    return NULL;
}

/* ------------------------------------------------------------------------------------------------ */
static void
put_res(const char *src, const char *canon)
{
    printf("%s%s=", src[0] == 'x' && src[1] == 'l' && !src[2] ? "" : " ", src);
    if (!canon) {
        printf("E");
    } else {
        vputhex(canon, strlen(canon));
    }
}

static void
put_tok(const char *src, const char *tok)
{
    printf(" %s=%s", src, tok);
}

/* growing string buffer */
struct sb {
    char *s;
    size_t len, cap;
};

static void
sb_add(struct sb *b, const char *p, size_t n)
{
    if (b->len + n + 1 > b->cap) {
        b->cap = (b->len + n + 1) * 2 + 64;
        b->s = realloc(b->s, b->cap);
    }
    memcpy(b->s + b->len, p, n);
    b->len += n;
    b->s[b->len] = 0;
}

static void
sb_str(struct sb *b, const char *p)
{
    sb_add(b, p, strlen(p));
}

static void
sb_xml(struct sb *b, const char *v, size_t n)
{
    for (size_t i = 0; i < n; i++) {
        switch (v[i]) {
        case '&': sb_str(b, "&amp;"); break;
        case '<': sb_str(b, "&lt;"); break;
        case '>': sb_str(b, "&gt;"); break;
        case '\r': sb_str(b, "&#xD;"); break;
        default: sb_add(b, v + i, 1); break;
        }
    }
}

static void
sb_json(struct sb *b, const char *v, size_t n)
{
    char u[8];

    sb_str(b, "\"");
    for (size_t i = 0; i < n; i++) {
        unsigned char c = v[i];

        if (c == '"') {
            sb_str(b, "\\\"");
        } else if (c == '\\') {
            sb_str(b, "\\\\");
        } else if (c < 0x20) {
            sprintf(u, "\\u%04x", c);
            sb_str(b, u);
        } else {
            sb_add(b, v + i, 1);
        }
    }
    sb_str(b, "\"");
}

/* YANG double-quoted string (RFC 7950 6.1.3); returns 0 when the value cannot be written (CR) */
static int
sb_yang(struct sb *b, const char *v, size_t n)
{
    sb_str(b, "\"");
    for (size_t i = 0; i < n; i++) {
        switch (v[i]) {
        case '"': sb_str(b, "\\\""); break;
        case '\\': sb_str(b, "\\\\"); break;
        case '\n': sb_str(b, "\\n"); break;
        case '\t': sb_str(b, "\\t"); break;
        case '\r': return 0;
        default: sb_add(b, v + i, 1); break;
        }
    }
    sb_str(b, "\"");
    return 1;
}

/* 'v' or "v" for a path predicate; 0 when both quote characters occur */
static int
sb_quoted(struct sb *b, const char *v)
{
    char q;

    if (!strchr(v, '\'')) {
        q = '\'';
    } else if (!strchr(v, '"')) {
        q = '"';
    } else {
        return 0;
    }
    sb_add(b, &q, 1);
    sb_str(b, v);
    sb_add(b, &q, 1);
    return 1;
}

/* the term node carrying the value in a parsed/created tree: the top-level leaf / leaf-list itself or the key of a list */
static const struct lyd_node *
value_node(const struct lyd_node *n)
{
    if (!n) {
        return NULL;
    }
    if (n->schema && (n->schema->nodetype == LYS_LIST)) {
        return lyd_child(n);
    }
    return n;
}

static void
parse_src(struct ly_ctx *ctx, const char *src, const char *doc, LYD_FORMAT fmt)
{
    struct lyd_node *tree = NULL;
    const struct lyd_node *vn;

    if (lyd_parse_data_mem(ctx, doc, fmt, LYD_PARSE_ONLY | LYD_PARSE_STRICT, 0, &tree) || !(vn = value_node(tree)) ||
            !(vn->schema->nodetype & LYD_NODE_TERM)) {
        put_res(src, NULL);
    } else {
        put_res(src, lyd_get_value(vn));
    }
    lyd_free_all(tree);
}

static void
tree_src(const char *src, LY_ERR r, struct lyd_node *n)
{
    const struct lyd_node *vn;

    if (r || !(vn = value_node(n)) || !(vn->schema->nodetype & LYD_NODE_TERM)) {
        put_res(src, NULL);
    } else {
        put_res(src, lyd_get_value(vn));
    }
    lyd_free_all(n);
}

static void
do_si(struct ly_ctx *ctx, struct lys_module *mod, struct vcase *c)
{
    const struct tdef *t = find_type(c->f[1]);
    size_t lj, lx, lv;
    char *vj, *vx, *valid;
    const char *T, *lit;
    char name[64], path[96];
    struct sb b = {0};
    int nul, has_key, has_ll;
    struct lyd_node *n, *m;
    LY_ERR r;

    if (!t || (c->nf < 6)) {
        printf("?");
        return;
    }
    T = t->name;
    vj = vunhex(c->f[2], &lj);
    vx = strcmp(c->f[3], "=") ? vunhex(c->f[3], &lx) : (lx = lj, vunhex(c->f[2], &lj));
    lit = c->f[4];
    valid = vunhex(c->f[5], &lv);
    nul = memchr(vj, 0, lj) || memchr(vx, 0, lx);
    has_key = !(t->flags & F_NOKEY);
    has_ll = !(t->flags & F_NOLL);
    if (nul) {
        /* no source but lyd_value_validate can carry a NUL; outside the property (RFC 7950 6.1.3 excludes it) */
        printf("xl=NA");
        goto cleanup;
    }

#define DOC(...) do { b.len = 0; if (b.s) b.s[0] = 0; __VA_ARGS__; } while (0)
    /* ---- XML ---- */
    DOC(sb_str(&b, "<l_"); sb_str(&b, T); sb_str(&b, " xmlns=\"urn:types2\" xmlns:t2=\"urn:types2\">"); sb_xml(&b, vx, lx);
            sb_str(&b, "</l_"); sb_str(&b, T); sb_str(&b, ">"));
    parse_src(ctx, "xl", b.s, LYD_XML);
    if (has_key) {
        DOC(sb_str(&b, "<k_"); sb_str(&b, T); sb_str(&b, " xmlns=\"urn:types2\" xmlns:t2=\"urn:types2\"><k>"); sb_xml(&b, vx, lx);
                sb_str(&b, "</k></k_"); sb_str(&b, T); sb_str(&b, ">"));
        parse_src(ctx, "xk", b.s, LYD_XML);
    } else {
        put_tok("xk", "NA");
    }
    if (has_ll) {
        DOC(sb_str(&b, "<ll_"); sb_str(&b, T); sb_str(&b, " xmlns=\"urn:types2\" xmlns:t2=\"urn:types2\">"); sb_xml(&b, vx, lx);
                sb_str(&b, "</ll_"); sb_str(&b, T); sb_str(&b, ">"));
        parse_src(ctx, "xll", b.s, LYD_XML);
    } else {
        put_tok("xll", "NA");
    }

    /* ---- JSON string, then literal ---- */
    for (int pass = 0; pass < 2; pass++) {
        const char *sl = pass ? "Jl" : "jl", *sk = pass ? "Jk" : "jk", *sll = pass ? "Jll" : "jll";

        if (pass && (lit[0] == '-')) {
            break;
        }
#define JVAL() do { if (!pass) sb_json(&b, vj, lj); else if (lit[0] == 'N') sb_str(&b, "[null]"); else sb_add(&b, vj, lj); } while (0)
        DOC(sb_str(&b, "{\"types2:l_"); sb_str(&b, T); sb_str(&b, "\":"); JVAL(); sb_str(&b, "}"));
        parse_src(ctx, sl, b.s, LYD_JSON);
        if (has_key) {
            DOC(sb_str(&b, "{\"types2:k_"); sb_str(&b, T); sb_str(&b, "\":[{\"k\":"); JVAL(); sb_str(&b, "}]}"));
            parse_src(ctx, sk, b.s, LYD_JSON);
        } else {
            put_tok(sk, "NA");
        }
        if (has_ll) {
            DOC(sb_str(&b, "{\"types2:ll_"); sb_str(&b, T); sb_str(&b, "\":["); JVAL(); sb_str(&b, "]}"));
            parse_src(ctx, sll, b.s, LYD_JSON);
        } else {
            put_tok(sll, "NA");
        }
    }

    /* ---- value creating API ---- */
    snprintf(name, sizeof name, "l_%s", T);
    n = NULL;
    r = lyd_new_term(NULL, mod, name, vj, 0, &n);
    if (r || !n) {
        put_res("nt", NULL);
        put_tok("dup", "NA");
        put_tok("lyb", "NA");
        lyd_free_all(n);
    } else {
        struct lyd_node *d = NULL, *back = NULL;
        char *mem = NULL;

        put_res("nt", lyd_get_value(n));
        /* duplicate */
        if (lyd_dup_single(n, NULL, 0, &d) || !d) {
            put_res("dup", NULL);
        } else {
            printf(" dup=%s", lyd_compare_single(n, d, 0) ? "NE:" : "");
            vputhex(lyd_get_value(d), strlen(lyd_get_value(d)));
        }
        lyd_free_all(d);
        /* LYB and back */
        if (lyd_print_mem(&mem, n, LYD_LYB, 0) || !mem || lyd_parse_data_mem(ctx, mem, LYD_LYB, LYD_PARSE_ONLY | LYD_PARSE_STRICT, 0, &back) ||
                !back) {
            put_res("lyb", NULL);
        } else {
            printf(" lyb=%s", lyd_compare_single(n, back, 0) ? "NE:" : "");
            vputhex(lyd_get_value(back), strlen(lyd_get_value(back)));
        }
        lyd_free_all(back);
        free(mem);
        lyd_free_all(n);
    }
    if (has_ll) {
        snprintf(name, sizeof name, "ll_%s", T);
        n = NULL;
        r = lyd_new_term(NULL, mod, name, vj, 0, &n);
        tree_src("ntl", r, n);
    } else {
        put_tok("ntl", "NA");
    }
    if (has_key) {
        snprintf(name, sizeof name, "k_%s", T);
        n = NULL;
        r = lyd_new_list(NULL, mod, name, 0, &n, vj);
        tree_src("nl", r, n);
    } else {
        put_tok("nl", "NA");
    }
    snprintf(path, sizeof path, "/types2:l_%s", T);
    n = NULL;
    r = lyd_new_path(NULL, ctx, path, vj, 0, &n);
    tree_src("np", r, n);
    if (has_ll) {
        snprintf(path, sizeof path, "/types2:ll_%s", T);
        n = NULL;
        r = lyd_new_path(NULL, ctx, path, vj, 0, &n);
        tree_src("npl", r, n);
    } else {
        put_tok("npl", "NA");
    }

    /* ---- path predicates ---- */
    if (has_key) {
        DOC(sb_str(&b, "/types2:k_"); sb_str(&b, T); sb_str(&b, "[k="));
        if (sb_quoted(&b, vj)) {
            sb_str(&b, "]");
            n = NULL;
            r = lyd_new_path(NULL, ctx, b.s, NULL, 0, &n);
            tree_src("pk", r, n);

            /* find: a tree that holds the instance when it can be created, a filler instance otherwise */
            snprintf(name, sizeof name, "k_%s", T);
            n = NULL;
            int own = !lyd_new_list(NULL, mod, name, 0, &n, vj);
            if (!own) {
                lyd_free_all(n);
                n = NULL;
                lyd_new_list(NULL, mod, name, 0, &n, valid);
            }
            if (!n) {
                put_tok("fk", "?");
            } else {
                m = NULL;
                r = lyd_find_path(n, b.s, 0, &m);
                if (!r && m) {
                    put_res("fk", lyd_get_value(value_node(m)));
                } else if ((r == LY_ENOTFOUND) || (r == LY_EINCOMPLETE)) {
                    put_tok("fk", own ? "NF" : "A");
                } else {
                    put_res("fk", NULL);
                }
            }
            lyd_free_all(n);
        } else {
            put_tok("pk", "NA");
            put_tok("fk", "NA");
        }
    } else {
        put_tok("pk", "NA");
        put_tok("fk", "NA");
    }
    if (has_ll) {
        DOC(sb_str(&b, "/types2:ll_"); sb_str(&b, T); sb_str(&b, "[.="));
        if (sb_quoted(&b, vj)) {
            sb_str(&b, "]");
            n = NULL;
            r = lyd_new_path(NULL, ctx, b.s, NULL, 0, &n);
            tree_src("pl", r, n);

            snprintf(name, sizeof name, "ll_%s", T);
            n = NULL;
            int own = !lyd_new_term(NULL, mod, name, vj, 0, &n);
            if (!own) {
                lyd_free_all(n);
                n = NULL;
                lyd_new_term(NULL, mod, name, valid, 0, &n);
            }
            if (!n) {
                put_tok("fl", "?");
            } else {
                m = NULL;
                r = lyd_find_path(n, b.s, 0, &m);
                if (!r && m) {
                    put_res("fl", lyd_get_value(m));
                } else if ((r == LY_ENOTFOUND) || (r == LY_EINCOMPLETE)) {
                    put_tok("fl", own ? "NF" : "A");
                } else {
                    put_res("fl", NULL);
                }
            }
            lyd_free_all(n);
        } else {
            put_tok("pl", "NA");
            put_tok("fl", "NA");
        }
    } else {
        put_tok("pl", "NA");
        put_tok("fl", "NA");
    }

    /* ---- lyd_value_validate ---- */
    {
        const struct lysc_node *sl, *sk;
        const char *canon = NULL;

        snprintf(path, sizeof path, "/types2:l_%s", T);
        sl = lys_find_path(ctx, NULL, path, 0);
        if (!sl) {
            put_tok("vv", "?");
        } else if (lyd_value_validate(ctx, sl, vj, lj, NULL, NULL, &canon)) {
            put_res("vv", NULL);
        } else {
            put_res("vv", canon);
            lydict_remove(ctx, canon);
        }
        if (has_key) {
            snprintf(path, sizeof path, "/types2:k_%s/k", T);
            sk = lys_find_path(ctx, NULL, path, 0);
            canon = NULL;
            if (!sk) {
                put_tok("vk", "?");
            } else if (lyd_value_validate(ctx, sk, vj, lj, NULL, NULL, &canon)) {
                put_res("vk", NULL);
            } else {
                put_res("vk", canon);
                lydict_remove(ctx, canon);
            }
        } else {
            put_tok("vk", "NA");
        }
    }

    /* ---- unions: the same value on the union of the string-encoded / number-encoded members only ---- */
    for (int pass = 0; pass < 2; pass++) {
        const struct lysc_node *sl;
        const char *canon = NULL;

        snprintf(name, sizeof name, "%s_%s", T, pass ? "n" : "s");
        if (!find_type(name)) {
            continue;
        }
        snprintf(path, sizeof path, "/types2:l_%s", name);
        sl = lys_find_path(ctx, NULL, path, 0);
        if (!sl) {
            put_tok(pass ? "vn" : "vs", "?");
        } else if (lyd_value_validate(ctx, sl, vj, lj, NULL, NULL, &canon)) {
            put_res(pass ? "vn" : "vs", NULL);
        } else {
            put_res(pass ? "vn" : "vs", canon);
            lydict_remove(ctx, canon);
        }
    }

    /* ---- lyd_change_term ---- */
    snprintf(name, sizeof name, "l_%s", T);
    n = NULL;
    if (lyd_new_term(NULL, mod, name, valid, 0, &n) || !n) {
        put_tok("ct", "?");
    } else {
        r = lyd_change_term(n, vj);
        if (!r || (r == LY_EEXIST) || (r == LY_ENOT)) {
            put_res("ct", lyd_get_value(n));
        } else {
            put_res("ct", NULL);
        }
    }
    lyd_free_all(n);

    /* ---- schema default: module variant in a fresh context ---- */
    if (t->flags & F_NODFLT) {
        put_tok("df", "NA");
        put_tok("dfl", "NA");
    } else {
        DOC(sb_str(&b, "module dv {yang-version 1.1; namespace urn:dv; prefix dv; import types2 {prefix t2;}\n  leaf x {type t2:T_");
                sb_str(&b, T); sb_str(&b, "; default "));
        if (!sb_yang(&b, vx, lx)) {
            put_tok("df", "NA");
            put_tok("dfl", "NA");
        } else {
            struct ly_ctx *c2 = NULL;
            struct lys_module *m2 = NULL;

            sb_str(&b, ";}\n}\n");
            for (int pass = 0; pass < 2; pass++) {
                const char *src = pass ? "dfl" : "df";

                if (pass) {
                    /* the same as a leaf-list default */
                    char *p = strstr(b.s, "  leaf x {");
                    struct sb b2 = {0};

                    sb_add(&b2, b.s, p - b.s);
                    sb_str(&b2, "  leaf-list x {");
                    sb_str(&b2, p + strlen("  leaf x {"));
                    free(b.s);
                    b = b2;
                }
                c2 = NULL;
                m2 = NULL;
                if (ly_ctx_new(NULL, LY_CTX_NO_YANGLIBRARY, &c2) || lys_parse_mem(c2, ACM, LYS_IN_YANG, NULL) ||
                        lys_parse_mem(c2, MODTEXT, LYS_IN_YANG, NULL)) {
                    put_tok(src, "?");
                } else if (lys_parse_mem(c2, b.s, LYS_IN_YANG, &m2) || !m2 || !m2->compiled || !m2->compiled->data) {
                    put_res(src, NULL);
                } else if (!pass) {
                    const struct lysc_node_leaf *lf = (const struct lysc_node_leaf *)m2->compiled->data;

                    put_res(src, lf->dflt ? lyd_value_get_canonical(c2, lf->dflt) : NULL);
                } else {
                    const struct lysc_node_leaflist *lf = (const struct lysc_node_leaflist *)m2->compiled->data;

                    put_res(src, (lf->dflts && LY_ARRAY_COUNT(lf->dflts)) ? lyd_value_get_canonical(c2, lf->dflts[0]) : NULL);
                }
                ly_ctx_destroy(c2);
            }
        }
    }

cleanup:
    free(b.s);
    free(vj);
    free(vx);
    free(valid);
}

/* ------------------------------------------------------------------------------------------------ */
static void
put_str(const char *s)
{
    vputhex(s, strlen(s));
}

static void
do_tv(struct ly_ctx *ctx, struct lys_module *mod, struct vcase *c)
{
    size_t len;
    char *s = vunhex(c->f[2], &len);
    char name[64];
    struct lyd_node *n = NULL;

    snprintf(name, sizeof name, "l_%s", c->f[1]);
    if (memchr(s, 0, len)) {
        printf("NUL");
    } else if (lyd_new_term(NULL, mod, name, s, 0, &n) || !n) {
        printf("E");
    } else {
        const struct lyd_value *v = &((struct lyd_node_term *)n)->value;

        put_str(lyd_get_value(n));
        switch (v->realtype->basetype) {
        case LY_TYPE_ENUM:
            printf(" %" PRId32, v->enum_item->value);
            break;
        case LY_TYPE_BITS: {
            struct lyd_value_bits *vb;

            LYD_VALUE_GET(v, vb);
            fputc(' ', stdout);
            vputhex(vb->bitmap, lyplg_type_bits_bitmap_size((const struct lysc_type_bits *)v->realtype));
            break;
        }
        case LY_TYPE_BINARY: {
            struct lyd_value_binary *vb;

            LYD_VALUE_GET(v, vb);
            fputc(' ', stdout);
            vputhex(vb->data, vb->size);
            break;
        }
        case LY_TYPE_UNION: {
            const struct lysc_type_union *tu = (const struct lysc_type_union *)v->realtype;
            LY_ARRAY_COUNT_TYPE u;

            LY_ARRAY_FOR(tu->types, u) {
                if (tu->types[u] == v->subvalue->value.realtype) {
                    break;
                }
            }
            printf(" %u", (unsigned)u);
            break;
        }
        default:
            break;
        }
    }
    lyd_free_all(n);
    free(s);
    (void)ctx;
}

static void
do_cmp(struct lys_module *mod, struct vcase *c)
{
    size_t la, lb;
    char *a = vunhex(c->f[2], &la), *b = vunhex(c->f[3], &lb);
    struct lyd_node *na = NULL, *nb = NULL;
    char name[64];

    snprintf(name, sizeof name, "l_%s", c->f[1]);
    if (memchr(a, 0, la) || memchr(b, 0, lb)) {
        printf("NUL");
    } else if (lyd_new_term(NULL, mod, name, a, 0, &na)) {
        printf("E");
    } else {
        LY_ERR r = lyd_value_compare((struct lyd_node_term *)na, b, lb);

        if (r == LY_SUCCESS) {
            printf("0");
        } else if (r == LY_ENOT) {
            printf("1");
        } else {
            printf("E");
        }
        if ((r == LY_SUCCESS) || (r == LY_ENOT)) {
            if (lyd_new_term(NULL, mod, name, b, 0, &nb)) {
                printf(" SINGLE=E");
            } else {
                LY_ERR r2 = lyd_compare_single(na, nb, 0);

                if (r2 != r) {
                    printf(" SINGLE=%d", (int)r2);
                }
            }
        }
    }
    lyd_free_all(na);
    lyd_free_all(nb);
    free(a);
    free(b);
}

static void
do_srt(struct lys_module *mod, struct vcase *c)
{
    struct lyd_node *first = NULL, *n, *ch;
    char name[64];
    int i, bad = 0, k = 0;

    snprintf(name, sizeof name, "ll_%s", c->f[1]);
    for (i = 2; (i < c->nf) && !bad; i++) {
        size_t len;
        char *v = vunhex(c->f[i], &len);

        n = NULL;
        if (memchr(v, 0, len) || lyd_new_term(NULL, mod, name, v, 0, &n) || !n) {
            bad = 1;
        } else if (!first) {
            first = n;
        } else if (lyd_insert_sibling(first, n, &first)) {
            lyd_free_all(n);
            bad = 1;
        }
        free(v);
    }
    if (bad) {
        printf("E");
    } else {
        for (ch = first; ch; ch = ch->next) {
            if (k++) {
                fputc(' ', stdout);
            }
            put_str(lyd_get_value(ch));
        }
    }
    lyd_free_all(first);
}


static void
do_ci(struct lys_module *mod, struct vcase *c)
{
    size_t len;
    char *s = vunhex(c->f[2], &len);
    char name[64];
    struct lyd_node *n = NULL, *m = NULL;

    snprintf(name, sizeof name, "l_%s", c->f[1]);
    if (memchr(s, 0, len)) {
        printf("NUL");
    } else if (lyd_new_term(NULL, mod, name, s, 0, &n) || !n) {
        printf("E");
    } else {
        put_str(lyd_get_value(n));
        fputc(' ', stdout);
        if (lyd_new_term(NULL, mod, name, lyd_get_value(n), 0, &m) || !m) {
            printf("E");
        } else {
            put_str(lyd_get_value(m));
        }
    }
    lyd_free_all(n);
    lyd_free_all(m);
    free(s);
}

static void
do_cx(struct lys_module *mod, struct vcase *c)
{
    size_t len;
    char *s = vunhex(c->f[2], &len), *c1 = NULL;
    char name[64];
    struct lyd_node *n = NULL, *m = NULL, *d = NULL, *x = NULL;
    LY_ERR r;

    snprintf(name, sizeof name, "l_%s", c->f[1]);
    if (memchr(s, 0, len)) {
        printf("NUL");
        goto cleanup;
    }
    if (lyd_new_term(NULL, mod, name, s, 0, &n) || !n) {
        printf("E");
        goto cleanup;
    }
    c1 = strdup(lyd_get_value(n));
    put_str(c1);
    printf(" rs=");
    if (lyd_new_term(NULL, mod, name, c1, 0, &m) || !m) {
        printf("E");
    } else {
        put_str(lyd_get_value(m));
    }
    printf(" dp=");
    if (lyd_dup_single(n, NULL, 0, &d) || !d) {
        printf("E");
    } else {
        printf("%s", lyd_compare_single(n, d, 0) ? "NE:" : "");
        put_str(lyd_get_value(d));
    }
    printf(" dx=");
    if (lyd_dup_single_to_ctx(n, CTX2, NULL, 0, &x) || !x) {
        printf("E");
    } else {
        put_str(lyd_get_value(x));
    }
    r = lyd_change_term_canon(n, c1);
    printf(" cc=%s", (!r || (r == LY_EEXIST) || (r == LY_ENOT)) ? "OK" : "E");
    if (!r || (r == LY_EEXIST) || (r == LY_ENOT)) {
        if (strcmp(lyd_get_value(n), c1)) {
            printf(":");
            put_str(lyd_get_value(n));
        }
    }

cleanup:
    lyd_free_all(n);
    lyd_free_all(m);
    lyd_free_all(d);
    lyd_free_all(x);
    free(c1);
    free(s);
}

static void
do_dupl(struct ly_ctx *ctx, struct lys_module *mod, struct vcase *c)
{
    size_t la, lb;
    char *a = vunhex(c->f[2], &la), *b = vunhex(c->f[3], &lb);
    char name[64];
    struct lyd_node *na = NULL, *nb = NULL, *first = NULL;
    int dup;

    if (memchr(a, 0, la) || memchr(b, 0, lb)) {
        printf("NUL");
        goto cleanup;
    }
    snprintf(name, sizeof name, "ll_%s", c->f[1]);
    if (lyd_new_term(NULL, mod, name, a, 0, &na) || lyd_new_term(NULL, mod, name, b, 0, &nb)) {
        printf("E");
        lyd_free_all(na);
        lyd_free_all(nb);
        goto cleanup;
    }
    dup = 0;
    if (lyd_insert_sibling(na, nb, &first)) {
        dup = 1;
        lyd_free_all(nb);
        first = na;
    } else if (lyd_validate_all(&first, ctx, LYD_VALIDATE_PRESENT, NULL)) {
        dup = 1;
    }
    printf("ll=%s", dup ? "DUP" : "OK");
    lyd_free_all(first);

    snprintf(name, sizeof name, "k_%s", c->f[1]);
    na = nb = first = NULL;
    if (lyd_new_list(NULL, mod, name, 0, &na, a) || lyd_new_list(NULL, mod, name, 0, &nb, b)) {
        printf(" k=E");
        lyd_free_all(na);
        lyd_free_all(nb);
        goto cleanup;
    }
    dup = 0;
    if (lyd_insert_sibling(na, nb, &first)) {
        dup = 1;
        lyd_free_all(nb);
        first = na;
    } else if (lyd_validate_all(&first, ctx, LYD_VALIDATE_PRESENT, NULL)) {
        dup = 1;
    }
    printf(" k=%s", dup ? "DUP" : "OK");
    lyd_free_all(first);

cleanup:
    free(a);
    free(b);
}

static void
do_perm(struct lys_module *mod, struct vcase *c)
{
    static const int P[6][3] = {{0, 1, 2}, {0, 2, 1}, {1, 0, 2}, {1, 2, 0}, {2, 0, 1}, {2, 1, 0}};
    char *v[3], name[64];
    char seq0[4096] = "", seq[4096];
    size_t len;
    int i, j, bad = 0, diff = 0;

    for (i = 0; i < 3; i++) {
        v[i] = vunhex(c->f[2 + i], &len);
        if (memchr(v[i], 0, len)) {
            bad = 1;
        }
    }
    snprintf(name, sizeof name, "ll_%s", c->f[1]);
    for (i = 0; (i < 6) && !bad && !diff; i++) {
        struct lyd_node *first = NULL, *n, *ch;
        size_t off = 0;

        for (j = 0; (j < 3) && !bad; j++) {
            n = NULL;
            if (lyd_new_term(NULL, mod, name, v[P[i][j]], 0, &n) || !n) {
                bad = 1;
            } else if (!first) {
                first = n;
            } else if (lyd_insert_sibling(first, n, &first)) {
                /* duplicates are refused: the instance is not added */
                lyd_free_all(n);
            }
        }
        seq[0] = 0;
        for (ch = first; ch && !bad; ch = ch->next) {
            const char *cv = lyd_get_value(ch);
            size_t k;

            if (off) {
                seq[off++] = ' ';
            }
            if (!cv[0]) {
                seq[off++] = '-';
            }
            for (k = 0; cv[k] && (off + 3 < sizeof seq); k++) {
                off += sprintf(seq + off, "%02x", (unsigned char)cv[k]);
            }
            seq[off] = 0;
        }
        lyd_free_all(first);
        if (!i) {
            strcpy(seq0, seq);
        } else if (strcmp(seq0, seq)) {
            diff = 1;
        }
    }
    if (bad) {
        printf("E");
    } else if (diff) {
        printf("DIFF %s / %s", seq0, seq);
    } else {
        printf("%s", seq0);
    }
    for (i = 0; i < 3; i++) {
        free(v[i]);
    }
}

static void
do_ip4z(struct lys_module *mod, struct vcase *c)
{
    unsigned long a = strtoul(c->f[1], NULL, 10);
    unsigned plen = (unsigned)strtoul(c->f[2], NULL, 10);
    char text[64];
    struct lyd_node *n = NULL;
    unsigned o[4], l2;

    snprintf(text, sizeof text, "%lu.%lu.%lu.%lu/%u", (a >> 24) & 255, (a >> 16) & 255, (a >> 8) & 255, a & 255, plen);
    if (lyd_new_term(NULL, mod, "l_ip4p", text, 0, &n) || !n) {
        printf("E");
    } else if (sscanf(lyd_get_value(n), "%u.%u.%u.%u/%u", &o[0], &o[1], &o[2], &o[3], &l2) != 5) {
        printf("?");
    } else {
        printf("%lu %u", ((unsigned long)o[0] << 24) | (o[1] << 16) | (o[2] << 8) | o[3], l2);
    }
    lyd_free_all(n);
}

int
main(void)
{
    struct vcase c;
    struct ly_ctx *ctx = NULL;
    struct lys_module *mod = NULL;

    /* date-and-time canonical strings use the local time zone (RFC 6991): make it UTC */
    setenv("TZ", "UTC", 1);
    tzset();
    ly_set_log_clb(log_cb);
    build_module();
    if (ly_ctx_new(NULL, LY_CTX_NO_YANGLIBRARY, &ctx) || lys_parse_mem(ctx, ACM, LYS_IN_YANG, NULL) ||
            lys_parse_mem(ctx, MODTEXT, LYS_IN_YANG, &mod) || ly_ctx_new(NULL, LY_CTX_NO_YANGLIBRARY, &CTX2) ||
            lys_parse_mem(CTX2, ACM, LYS_IN_YANG, NULL) || lys_parse_mem(CTX2, MODTEXT, LYS_IN_YANG, NULL)) {
        fprintf(stderr, "ctx/module\n%s\n", MODTEXT);
        const struct ly_err_item *e = ly_err_last(ctx);
        if (e) {
            fprintf(stderr, "%s\n", e->msg);
        }
        return 2;
    }

    while (vnext(&c)) {
        const char *comp = c.f[0];

        if (!strcmp(comp, "si")) {
            do_si(ctx, mod, &c);
        } else if (!strcmp(comp, "tv") && (c.nf >= 3) && find_type(c.f[1])) {
            do_tv(ctx, mod, &c);
        } else if (!strcmp(comp, "cmp") && (c.nf >= 4) && find_type(c.f[1])) {
            do_cmp(mod, &c);
        } else if (!strcmp(comp, "srt") && (c.nf >= 4) && find_type(c.f[1])) {
            do_srt(mod, &c);
        } else if (!strcmp(comp, "ci") && (c.nf >= 3) && find_type(c.f[1])) {
            do_ci(mod, &c);
        } else if (!strcmp(comp, "iidp") && (c.nf >= 3) && find_type(c.f[1])) {
            /* the text form is stored; the structure fields that follow are for the model */
            do_ci(mod, &c);
        } else if (!strcmp(comp, "cx") && (c.nf >= 3) && find_type(c.f[1])) {
            do_cx(mod, &c);
        } else if (!strcmp(comp, "dupl") && (c.nf >= 4) && find_type(c.f[1])) {
            do_dupl(ctx, mod, &c);
        } else if (!strcmp(comp, "perm") && (c.nf >= 5) && find_type(c.f[1])) {
            do_perm(mod, &c);
        } else if (!strcmp(comp, "ip4z") && (c.nf >= 3)) {
            do_ip4z(mod, &c);
        } else if (!strcmp(comp, "module")) {
            /* development aid: print the generated module */
            vputhex(MODTEXT, strlen(MODTEXT));
        } else {
            printf("?");
        }
        ly_err_clean(ctx, NULL);
        VEND();
    }
    ly_ctx_destroy(ctx);
    ly_ctx_destroy(CTX2);
    free(MODTEXT);
    return 0;
}
