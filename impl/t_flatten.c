/* t_flatten.c — driver of the API-level oracle FlattenEquiv (property C11, tools/props/comps_flatten.py).
 * A small script interpreter over the public schema / data API, like lyx.c, with one addition lyx lacks: the texts of
 * modules AND submodules are registered in the case itself and served to every context through the import callback
 * (ly_ctx_set_module_imp_clb), so that include / import are resolved whatever the load order, and a case is
 * self-contained (replayable).
 *
 * One case = one line: "flat" TAB cmd TAB cmd ...; a command is a space separated list of words, byte strings are
 * hex ("-" = empty). Every case starts from an empty state. Output: one result per command separated by " | ".
 *   def <set>/<name> <hex text>        register the YANG text of module / submodule <name> in the module set <set>
 *                                      (answer: 0); the structured set and its flattened twin use the same module names
 *   ctx c<k> <options> <set>           new context; its import callback serves the texts of <set>
 *   load c<k> <name> <feats>           ly_ctx_load_module(name, NULL, features) -> 0 | 1/<vecode>/<apptag>~<error class>
 *   modtxt c<k> <name> <feats>         lys_parse() of the registered text with the features -> rc[/...]
 *   setimpl c<k> <name> <feats>        lys_set_implemented()
 *   compile c<k>                       ly_ctx_compile()
 *   schema c<k> <name>                 lys_print_mem(LYS_OUT_YANG_COMPILED) -> <rc> <hex>
 *   snodes c<k> <name>                 every compiled schema node below the module's top-level nodes, RPCs and
 *                                      notifications in DFS order: /mod:name/mod:name...=<nodetype>[flags] separated by ;
 *                                      flags: c config true, s config false, m mandatory, p presence container
 *   featv c<k> <mod> <feature>         lys_feature_value() as a number
 *   spath c<k> <hex path>              lys_find_path(): 1 found, 0 not found
 *   mods c<k>                          name:implemented:enabled features,... of every module except the internal ones
 *   data c<k> <x|j> <hex>              lyd_parse_data(strict, validate present) -> rc[/vecode/apptag~class] <hex of the JSON
 *                                      print with all defaults (empty on error)>
 * feats: "-" none, "*" all, or a comma separated list.
 */
#include "common.h"

#include <stdarg.h>

#include "libyang.h"

#define NCTX 8
#define NDEF 32

static struct ly_ctx *C[NCTX];
static char CSET[NCTX][16];
static struct {
    char *name;
    char *text;
} DEF[NDEF];
static int ndef;

static void
log_cb(LY_LOG_LEVEL level, const char *msg, const char *data_path, const char *schema_path, uint64_t line)
{
    (void)level; (void)schema_path; (void)line;
    if (getenv("LYX_DEBUG")) {
        fprintf(stderr, "LOG: %s (%s)\n", msg, data_path ? data_path : "");
    }
}

struct sbuf {
    char *s;
    size_t n, cap;
};

static void
sb_add(struct sbuf *b, const char *p, size_t n)
{
    if (b->n + n + 1 > b->cap) {
        b->cap = (b->n + n + 1) * 2;
        b->s = realloc(b->s, b->cap);
    }
    memcpy(b->s + b->n, p, n);
    b->n += n;
    b->s[b->n] = 0;
}

static void
sb_str(struct sbuf *b, const char *p)
{
    sb_add(b, p, strlen(p));
}

static void
sb_hex(struct sbuf *b, const char *p, size_t n)
{
    char t[3];

    if (!n) {
        sb_str(b, "-");
        return;
    }
    for (size_t i = 0; i < n; i++) {
        snprintf(t, sizeof t, "%02x", (unsigned char)p[i]);
        sb_add(b, t, 2);
    }
}

static void
sb_fmt(struct sbuf *b, const char *fmt, ...)
{
    char tmp[1024];
    va_list ap;

    va_start(ap, fmt);
    vsnprintf(tmp, sizeof tmp, fmt, ap);
    va_end(ap);
    sb_str(b, tmp);
}

/* rc, and after a failure /vecode/apptag~<class of the message: its words outside quotes, lower case> */
static void
err_info(struct sbuf *o, const struct ly_ctx *ctx, LY_ERR rc)
{
    const struct ly_err_item *e;

    sb_fmt(o, "%d", (int)rc);
    if (rc && ctx && (e = ly_err_last(ctx))) {
        const char *m = e->msg;
        char buf[64];
        size_t n = 0;
        int inq = 0;

        sb_fmt(o, "/%d/", (int)e->vecode);
        sb_str(o, e->apptag ? e->apptag : "-");
        for ( ; m && *m && (n < sizeof buf - 1); ++m) {
            if (*m == '"') {
                inq = !inq;
                continue;
            }
            if (inq) {
                continue;
            }
            if (isalnum((unsigned char)*m)) {
                buf[n++] = (char)tolower((unsigned char)*m);
            } else if (n && (buf[n - 1] != '-')) {
                buf[n++] = '-';
            }
        }
        while (n && (buf[n - 1] == '-')) {
            --n;
        }
        buf[n] = 0;
        sb_str(o, "~");
        sb_str(o, buf);
    }
}

static int
slot_c(const char *w)
{
    return (w[0] == 'c') ? atoi(w + 1) % NCTX : 0;
}

static const char **
feat_list(char *w)
{
    static const char *f[32];
    int n = 0;

    if (!strcmp(w, "-")) {
        f[0] = NULL;
        return f;
    }
    for (char *p = strtok(w, ","); p && (n < 31); p = strtok(NULL, ",")) {
        f[n++] = p;
    }
    f[n] = NULL;
    return f;
}

static const char *
def_text(const char *set, const char *name)
{
    char key[128];

    snprintf(key, sizeof key, "%s/%s", set, name);
    for (int i = 0; i < ndef; i++) {
        if (!strcmp(DEF[i].name, key)) {
            return DEF[i].text;
        }
    }
    return NULL;
}

static LY_ERR
imp_clb(const char *mod_name, const char *mod_rev, const char *submod_name, const char *submod_rev, void *user_data,
        LYS_INFORMAT *format, const char **module_data, ly_module_imp_data_free_clb *free_module_data)
{
    const char *t = def_text((const char *)user_data, submod_name ? submod_name : mod_name);

    (void)mod_rev; (void)submod_rev;
    if (!t) {
        return LY_ENOTFOUND;
    }
    *format = LYS_IN_YANG;
    *module_data = t;
    *free_module_data = NULL;
    return LY_SUCCESS;
}

static const char *
nodetype_str(uint16_t t)
{
    switch (t) {
    case LYS_CONTAINER: return "container";
    case LYS_CHOICE: return "choice";
    case LYS_CASE: return "case";
    case LYS_LEAF: return "leaf";
    case LYS_LEAFLIST: return "leaf-list";
    case LYS_LIST: return "list";
    case LYS_ANYXML: return "anyxml";
    case LYS_ANYDATA: return "anydata";
    case LYS_RPC: return "rpc";
    case LYS_ACTION: return "action";
    case LYS_NOTIF: return "notification";
    case LYS_INPUT: return "input";
    case LYS_OUTPUT: return "output";
    }
    return "?";
}

static void
node_path(struct sbuf *o, const struct lysc_node *n)
{
    if (n->parent) {
        node_path(o, n->parent);
    }
    sb_fmt(o, "/%s:%s", n->module->name, n->name);
}

static LY_ERR
snode_cb(struct lysc_node *n, void *data, ly_bool *dfs_continue)
{
    struct sbuf *o = data;

    (void)dfs_continue;
    node_path(o, n);
    sb_fmt(o, "=%s", nodetype_str(n->nodetype));
    if (n->flags & LYS_CONFIG_W) {
        sb_str(o, "c");
    }
    if (n->flags & LYS_CONFIG_R) {
        sb_str(o, "s");
    }
    if ((n->flags & LYS_MAND_TRUE) && (n->nodetype != LYS_CONTAINER)) {
        /* (a non-presence container only carries the flag as a cache of "has a mandatory descendant") */
        sb_str(o, "m");
    }
    if ((n->nodetype == LYS_CONTAINER) && (n->flags & LYS_PRESENCE)) {
        sb_str(o, "p");
    }
    sb_str(o, ";");
    return LY_SUCCESS;
}

static void
run_cmd(char *cmd, struct sbuf *o)
{
    char *w[12];
    int nw = 0;

    for (char *p = strtok(cmd, " "); p && (nw < 12); p = strtok(NULL, " ")) {
        w[nw++] = p;
    }
#define NEED(n) if (nw < (n)) { sb_str(o, "?args"); return; }
    if (!nw) {
        sb_str(o, "?");
    } else if (!strcmp(w[0], "def")) {
        NEED(3);
        if (ndef < NDEF) {
            DEF[ndef].name = strdup(w[1]);
            DEF[ndef].text = vunhex(w[2], NULL);
            ++ndef;
            sb_str(o, "0");
        } else {
            sb_str(o, "?full");
        }
    } else if (!strcmp(w[0], "ctx")) {
        NEED(4);
        int c = slot_c(w[1]);
        LY_ERR rc;

        if (C[c]) {
            ly_ctx_destroy(C[c]);
            C[c] = NULL;
        }
        snprintf(CSET[c], sizeof CSET[c], "%s", w[3]);
        rc = ly_ctx_new(NULL, (uint16_t)strtoul(w[2], NULL, 0), &C[c]);
        if (!rc) {
            ly_ctx_set_module_imp_clb(C[c], imp_clb, CSET[c]);
        }
        sb_fmt(o, "%d", (int)rc);
    } else if (!strcmp(w[0], "load")) {
        NEED(4);
        int c = slot_c(w[1]);
        const struct lys_module *m;

        if (!C[c]) {
            sb_str(o, "?ctx");
            return;
        }
        ly_err_clean(C[c], NULL);
        m = ly_ctx_load_module(C[c], w[2], NULL, !strcmp(w[3], "*") ? (const char *[]){"*", NULL} : feat_list(w[3]));
        err_info(o, C[c], m ? LY_SUCCESS : LY_EINVAL);
    } else if (!strcmp(w[0], "modtxt")) {
        NEED(4);
        int c = slot_c(w[1]);
        const char *t = def_text(CSET[c], w[2]);
        struct ly_in *in = NULL;
        struct lys_module *m = NULL;
        LY_ERR rc;

        if (!C[c] || !t) {
            sb_str(o, "?ctx");
            return;
        }
        ly_err_clean(C[c], NULL);
        ly_in_new_memory(t, &in);
        rc = lys_parse(C[c], in, LYS_IN_YANG, !strcmp(w[3], "*") ? (const char *[]){"*", NULL} : feat_list(w[3]), &m);
        ly_in_free(in, 0);
        err_info(o, C[c], rc);
    } else if (!strcmp(w[0], "setimpl")) {
        NEED(4);
        int c = slot_c(w[1]);
        struct lys_module *m = C[c] ? ly_ctx_get_module_latest(C[c], w[2]) : NULL;
        LY_ERR rc;

        if (C[c]) {
            ly_err_clean(C[c], NULL);
        }
        rc = m ? lys_set_implemented(m, !strcmp(w[3], "*") ? (const char *[]){"*", NULL} : feat_list(w[3])) : LY_ENOTFOUND;
        err_info(o, C[c], rc);
    } else if (!strcmp(w[0], "compile")) {
        NEED(2);
        int c = slot_c(w[1]);

        if (!C[c]) {
            sb_str(o, "?ctx");
            return;
        }
        ly_err_clean(C[c], NULL);
        err_info(o, C[c], ly_ctx_compile(C[c]));
    } else if (!strcmp(w[0], "schema")) {
        NEED(3);
        int c = slot_c(w[1]);
        const struct lys_module *m = C[c] ? ly_ctx_get_module_implemented(C[c], w[2]) : NULL;
        char *s = NULL;

        if (!m) {
            sb_str(o, "E");
        } else {
            LY_ERR rc = lys_print_mem(&s, m, LYS_OUT_YANG_COMPILED, 0);

            sb_fmt(o, "%d ", (int)rc);
            sb_hex(o, s ? s : "", s ? strlen(s) : 0);
            free(s);
        }
    } else if (!strcmp(w[0], "snodes")) {
        NEED(3);
        int c = slot_c(w[1]);
        const struct lys_module *m = C[c] ? ly_ctx_get_module_implemented(C[c], w[2]) : NULL;

        if (!m || !m->compiled) {
            sb_str(o, "E");
        } else {
            lysc_module_dfs_full(m, snode_cb, o);
            sb_str(o, ".");
        }
    } else if (!strcmp(w[0], "featv")) {
        NEED(4);
        int c = slot_c(w[1]);
        const struct lys_module *m = C[c] ? ly_ctx_get_module_latest(C[c], w[2]) : NULL;

        sb_fmt(o, "%d", m ? (int)lys_feature_value(m, w[3]) : -1);
    } else if (!strcmp(w[0], "spath")) {
        NEED(3);
        int c = slot_c(w[1]);
        char *pth = vunhex(w[2], NULL);
        uint32_t lo = ly_log_options(0);

        sb_fmt(o, "%d", (C[c] && lys_find_path(C[c], NULL, pth, 0)) ? 1 : 0);
        ly_log_options(lo);
        if (C[c]) {
            ly_err_clean(C[c], NULL);
        }
        free(pth);
    } else if (!strcmp(w[0], "mods")) {
        NEED(2);
        int c = slot_c(w[1]);
        uint32_t idx = 0;
        const struct lys_module *m;

        while (C[c] && (m = ly_ctx_get_module_iter(C[c], &idx))) {
            const struct lysp_feature *f = NULL;
            uint32_t fi = 0;

            if (!strncmp(m->name, "ietf-", 5) || !strcmp(m->name, "yang") || !strcmp(m->name, "default")) {
                continue;
            }
            sb_fmt(o, "%s:%d:", m->name, (int)m->implemented);
            while ((f = lysp_feature_next(f, m->parsed, &fi))) {
                if (f->flags & LYS_FENABLED) {
                    sb_fmt(o, "%s,", f->name);
                }
            }
            sb_str(o, ";");
        }
    } else if (!strcmp(w[0], "data")) {
        NEED(4);
        int c = slot_c(w[1]);
        char *data = vunhex(w[3], NULL), *s = NULL;
        struct ly_in *in = NULL;
        struct lyd_node *tree = NULL;
        LY_ERR rc;

        if (!C[c]) {
            sb_str(o, "?ctx");
            free(data);
            return;
        }
        ly_err_clean(C[c], NULL);
        ly_in_new_memory(data, &in);
        rc = lyd_parse_data(C[c], NULL, in, (w[2][0] == 'j') ? LYD_JSON : LYD_XML, LYD_PARSE_STRICT, LYD_VALIDATE_PRESENT, &tree);
        ly_in_free(in, 0);
        err_info(o, C[c], rc);
        sb_str(o, " ");
        if (!rc) {
            lyd_print_mem(&s, tree, LYD_JSON, LYD_PRINT_WITHSIBLINGS | LYD_PRINT_SHRINK | LYD_PRINT_WD_ALL);
        }
        sb_hex(o, s ? s : "", s ? strlen(s) : 0);
        free(s);
        lyd_free_all(tree);
        free(data);
    } else {
        sb_str(o, "?");
    }
}

int
main(void)
{
    struct vcase c;
    struct sbuf o = {0};

    ly_set_log_clb(log_cb);
    while (vnext(&c)) {
        o.n = 0;
        sb_str(&o, "");
        if (strcmp(c.f[0], "flat")) {
            printf("?");
            VEND();
            continue;
        }
        for (int i = 1; i < c.nf; i++) {
            if (i > 1) {
                sb_str(&o, " | ");
            }
            run_cmd(c.f[i], &o);
        }
        for (int i = 0; i < NCTX; i++) {
            if (C[i]) {
                ly_ctx_destroy(C[i]);
                C[i] = NULL;
            }
        }
        for (int i = 0; i < ndef; i++) {
            free(DEF[i].name);
            free(DEF[i].text);
        }
        ndef = 0;
        fputs(o.s ? o.s : "", stdout);
        VEND();
    }
    free(o.s);
    return 0;
}
