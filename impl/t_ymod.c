/* t_ymod.c — driver of the module-level oracle ModuleRT (property C10, tools/props/comps_ymod.py).
 *
 * One case = one module M (with its submodules and the modules it depends on, all given as text in the case itself
 * and served to every context through the import callback, so that a case is self-contained and replayable) and one
 * feature set. The checks of property C10 are done here; the answer is a compact verdict.
 *
 *   mrt TAB <name of M> TAB <features: - | * | f1,f2> TAB <flags> TAB <def> TAB <def> ...
 *       def = <module or submodule name>:<y|x>:<hex text>      (y = YANG, x = YIN; the def named like M is M itself)
 *       flags: bit 0 = skip the round trip of the not-implemented (only imported) module
 *              bit 1 = skip the checks that parse YIN (c2, c5): the module holds a construct of the listed finding
 *                      yin-ext-nested-generic; the YIN PRINT is still compared (yang-yin, ni-yin)
 *              bit 2 = print Y0, X0 and C0 in front of the verdict (for looking at a case)
 *
 * Contexts (all new, import callback = the defs, in the re-parse contexts M's submodules are replaced by their prints):
 *   c0   M parsed from its text with the features                      -> Y0 (LYS_OUT_YANG), X0 (LYS_OUT_YIN),
 *        C0 (LYS_OUT_YANG_COMPILED of every implemented non-internal module), T0 (LYS_OUT_TREE), SY0[i] / SX0[i]
 *        (lys_print_submodule of every submodule, YANG / YIN)
 *        D0 = a digest of the compiled structures written by this driver (dg_*: flags incl. presence, units, defaults,
 *        descriptions, must / when, types with their restrictions, extension instances; NULL and "" told apart),
 *        compared wherever C0 is (checks *-dig): the compiled printer shares helpers with the parsed one
 *   c0'  the same again                                                 det2-*: all of the above identical
 *   c1   Y0 (+ SY0[i]) parsed as YANG                                   yang-parse, yang-comp (C1 = C0), yang-fix (Y1 = Y0),
 *                                                                       yang-sub (SY1[i] = SY0[i]), yang-tree, yang-yin (X1 = X0)
 *   c2   X0 (+ SX0[i]) parsed as YIN                                    yin-parse, yin-comp, yin-fix (X2 = X0), yin-sub,
 *                                                                       yin-tree, yin-yang (Y2 vs Y0: both texts are handed to
 *                                                                       the Python judge when they differ, which allows
 *                                                                       nothing but single -> double quote style)
 *   c3   a wrapper module that only imports M: M is parsed but neither implemented nor compiled
 *                                                                       ni-load, ni-yang (Y3 = Y0), ni-yin (X3 = X0)
 *   c4/5 the same with M := Y3 / X3                                     ni-yang-parse, ni-yang-fix, ni-yin-parse, ni-yin-fix
 *
 * Answer: "E!<hex message>" (the context does not accept M), "ok", or the failed checks separated by blanks:
 *   <check>!<hex of the first error message, \x01, the line of the parsed text the error is on and the next one>
 *   <check>@<line number>:<hex line of A>:<hex line of B>   first differing line of two outputs
 *   yin-yang=<hex Y0>=<hex Y2>                          see above
 *   tree-crash:<0|1>                                    the tree printer died (it runs in a child process); 1 = M or a
 *                                                       submodule has a top-level instance of an extension without plugin
 */
#include "common.h"

#include <stdarg.h>
#include <sys/wait.h>
#include <unistd.h>

#include "libyang.h"
#include "plugins_exts.h"

#define NSRC 64
#define NSUB 16

struct src {
    char *name;
    char *text;
    LYS_INFORMAT fmt;
};

struct env {
    struct src ov[NSUB + 2];    /* replacements, looked up first */
    int nov;
};

static struct src BASE[NSRC];
static int nbase;

static void
log_cb(LY_LOG_LEVEL level, const char *msg, const char *data_path, const char *schema_path, uint64_t line)
{
    (void)level; (void)schema_path; (void)line;
    if (getenv("LYX_DEBUG")) {
        fprintf(stderr, "LOG: %s (%s)\n", msg, data_path ? data_path : "");
    }
}

static const struct src *
find_src(const struct env *e, const char *name)
{
    for (int i = 0; e && (i < e->nov); i++) {
        if (!strcmp(e->ov[i].name, name)) {
            return &e->ov[i];
        }
    }
    for (int i = 0; i < nbase; i++) {
        if (!strcmp(BASE[i].name, name)) {
            return &BASE[i];
        }
    }
    return NULL;
}

static LY_ERR
imp_clb(const char *mod_name, const char *mod_rev, const char *submod_name, const char *submod_rev, void *user_data,
        LYS_INFORMAT *format, const char **module_data, ly_module_imp_data_free_clb *free_module_data)
{
    const struct src *s = find_src(user_data, submod_name ? submod_name : mod_name);

    (void)mod_rev; (void)submod_rev;
    if (!s) {
        return LY_ENOTFOUND;
    }
    *format = s->fmt;
    *module_data = s->text;
    *free_module_data = NULL;
    return LY_SUCCESS;
}

static const char **
feat_list(const char *spec)
{
    static const char *f[64];
    static char buf[2048];
    int n = 0;

    if (!strcmp(spec, "-")) {
        f[0] = NULL;
        return f;
    }
    snprintf(buf, sizeof buf, "%s", spec);
    for (char *p = strtok(buf, ","); p && (n < 63); p = strtok(NULL, ",")) {
        f[n++] = p;
    }
    f[n] = NULL;
    return f;
}

/* everything printed from one context */
struct prints {
    struct ly_ctx *ctx;
    struct lys_module *mod;
    char *yang, *yin, *comp, *tree, *dig;
    int nsub;
    char *subname[NSUB];
    char *suby[NSUB], *subx[NSUB];
    int tree_crash;             /* the tree printer died: 1, 2 = and the module has a top-level instance of an extension
                                 * without a plugin */
    char *err;                  /* malloc'ed message of the step that failed */
    const char *errstep;
};

static void
prints_free(struct prints *p)
{
    free(p->yang);
    free(p->yin);
    free(p->comp);
    free(p->tree);
    free(p->dig);
    for (int i = 0; i < p->nsub; i++) {
        free(p->subname[i]);
        free(p->suby[i]);
        free(p->subx[i]);
    }
    free(p->err);
    ly_ctx_destroy(p->ctx);
    memset(p, 0, sizeof *p);
}

/* lines [line, line + 1] of text, malloc'ed */
static char *
two_lines(const char *text, uint64_t line)
{
    const char *s = text, *e;
    uint64_t n = 1;

    if (!text || (line < 1)) {
        return strdup("");
    }
    while (*s && (n < line)) {
        if (*s == '\n') {
            ++n;
        }
        ++s;
    }
    e = s;
    for (n = 0; *e && (n < 2); ++e) {
        if (*e == '\n') {
            ++n;
        }
    }
    return strndup(s, (size_t)(e - s) > 600 ? 600 : (size_t)(e - s));
}

static const char *err_text;    /* the text being parsed, for the context of an error message */

static void
set_err(struct prints *p, const char *step)
{
    const struct ly_err_item *e = p->ctx ? ly_err_first(p->ctx) : NULL;

    /* the first error (warnings are stored too) */
    while (e && (e->level != LY_LLERR)) {
        e = e->next;
    }
    char *m = NULL;

    if (e) {
        char *ctx2 = two_lines(!strcmp(step, "parse") ? err_text : NULL, e->line);

        if (asprintf(&m, "%s [%s] line %" PRIu64 "\x01%s", e->msg ? e->msg : "", e->schema_path ? e->schema_path : "", e->line,
                ctx2) < 0) {
            m = NULL;
        }
        free(ctx2);
    }
    free(p->err);
    p->err = m ? m : strdup("?");
    p->errstep = step;
}

static void
cat(char **acc, const char *s)
{
    size_t a = *acc ? strlen(*acc) : 0, b = strlen(s);

    *acc = realloc(*acc, a + b + 1);
    memcpy(*acc + a, s, b + 1);
}

/* compiled prints of all implemented modules that are not internal ones, in context order */
static LY_ERR
print_compiled(struct prints *p)
{
    uint32_t idx = ly_ctx_internal_modules_count(p->ctx);
    struct lys_module *m;
    char *s;

    p->comp = strdup("");
    while ((m = ly_ctx_get_module_iter(p->ctx, &idx))) {
        if (!m->implemented || !m->compiled) {
            continue;
        }
        s = NULL;
        if (lys_print_mem(&s, m, LYS_OUT_YANG_COMPILED, 0)) {
            free(s);
            return LY_EINVAL;
        }
        cat(&p->comp, s ? s : "");
        free(s);
    }
    return LY_SUCCESS;
}

/* LYS_OUT_TREE in a child process: the printer crashes on some modules (see known finding tree-ext-noplugin-crash) and
 * the other checks of the case are to be made all the same. 0 = printed, 1 = error, 2 = the child died */
static int
print_tree_isolated(const struct lys_module *mod, char **res)
{
    int fd[2], st = 0;
    pid_t pid;
    size_t n = 0, cap = 4096;
    ssize_t k;
    char *buf;

    *res = NULL;
    fflush(stdout);
    if (pipe(fd)) {
        return 1;
    }
    pid = fork();
    if (pid < 0) {
        return 1;
    }
    if (!pid) {
        char *s = NULL;
        LY_ERR rc;

        close(fd[0]);
        rc = lys_print_mem(&s, mod, LYS_OUT_TREE, 0);
        if (!rc && s) {
            size_t len = strlen(s), off = 0;

            while (off < len) {
                k = write(fd[1], s + off, len - off);
                if (k <= 0) {
                    break;
                }
                off += (size_t)k;
            }
        }
        close(fd[1]);
        _exit(rc ? 3 : 0);
    }
    close(fd[1]);
    buf = malloc(cap);
    while ((k = read(fd[0], buf + n, cap - n - 1)) > 0) {
        n += (size_t)k;
        if (n + 1 >= cap) {
            cap *= 2;
            buf = realloc(buf, cap);
        }
    }
    buf[n] = 0;
    close(fd[0]);
    waitpid(pid, &st, 0);
    if (!WIFEXITED(st)) {
        free(buf);
        return 2;
    }
    if (WEXITSTATUS(st)) {
        free(buf);
        return 1;
    }
    *res = buf;
    return 0;
}

/* has the module (or a submodule) a top-level instance of an extension without a plugin */
static int
has_toplevel_plain_ext(const struct lys_module *mod)
{
    LY_ARRAY_COUNT_TYPE u, v;

    LY_ARRAY_FOR(mod->parsed->exts, u) {
        if (!mod->parsed->exts[u].record) {
            return 1;
        }
    }
    LY_ARRAY_FOR(mod->parsed->includes, u) {
        const struct lysp_submodule *sub = mod->parsed->includes[u].submodule;

        LY_ARRAY_FOR(sub ? sub->exts : NULL, v) {
            if (!sub->exts[v].record) {
                return 1;
            }
        }
    }
    return 0;
}


/* ---- digest of the COMPILED structures, written here from the lysc_* structures themselves: the compiled YANG printer
 * shares its helpers with the parsed one, so a statement both drop (default "", presence "") is invisible in a comparison
 * of two compiled prints. NULL and the empty string are told apart (~ / -). ---- */
static char *DG;

static void
dg(const char *fmt, ...)
{
    char tmp[512];
    va_list ap;

    va_start(ap, fmt);
    vsnprintf(tmp, sizeof tmp, fmt, ap);
    va_end(ap);
    cat(&DG, tmp);
}

static void
dg_str(const char *label, const char *s)
{
    static const char hx[] = "0123456789abcdef";
    char *b;
    size_t i, n;

    if (!s) {
        return;         /* (absent statements are left out, an empty argument gives label=-) */
    }
    n = strlen(s);
    b = malloc(strlen(label) + 2 * n + 8);
    sprintf(b, " %s=", label);
    i = strlen(b);
    if (!n) {
        b[i++] = '-';
    }
    for (size_t k = 0; k < n; k++) {
        b[i++] = hx[(unsigned char)s[k] >> 4];
        b[i++] = hx[(unsigned char)s[k] & 15];
    }
    b[i] = 0;
    cat(&DG, b);
    free(b);
}

static void
dg_exts(const struct lysc_ext_instance *exts)
{
    LY_ARRAY_COUNT_TYPE u;
    uint64_t key, cur = 0, next;
    int first = 1;

    /* the array holds the instances of the statement and of its substatements in source order; only the order among
     * the instances of one (sub)statement means something: grouped by (sub)statement, array order inside a group */
    while (1) {
        next = UINT64_MAX;
        LY_ARRAY_FOR(exts, u) {
            key = ((uint64_t)exts[u].parent_stmt << 16) | (uint64_t)exts[u].parent_stmt_index;
            if ((first || (key > cur)) && (key < next)) {
                next = key;
            }
        }
        if (next == UINT64_MAX) {
            break;
        }
        first = 0;
        cur = next;
        LY_ARRAY_FOR(exts, u) {
            key = ((uint64_t)exts[u].parent_stmt << 16) | (uint64_t)exts[u].parent_stmt_index;
            if (key != cur) {
                continue;
            }
            dg(" ext(%s:%s/%d.%d", exts[u].def->module->name, exts[u].def->name, (int)exts[u].parent_stmt,
                    (int)exts[u].parent_stmt_index);
            dg_str("arg", exts[u].argument);
            dg_exts(exts[u].exts);
            dg(")");
        }
    }
}

static void
dg_range(const char *label, const struct lysc_range *r, int is_signed)
{
    LY_ARRAY_COUNT_TYPE u;

    if (!r) {
        return;
    }
    dg(" %s(", label);
    LY_ARRAY_FOR(r->parts, u) {
        if (is_signed) {
            dg("%" PRId64 "..%" PRId64 "|", r->parts[u].min_64, r->parts[u].max_64);
        } else {
            dg("%" PRIu64 "..%" PRIu64 "|", r->parts[u].min_u64, r->parts[u].max_u64);
        }
    }
    dg_str("emsg", r->emsg);
    dg_str("eapptag", r->eapptag);
    dg_str("dsc", r->dsc);
    dg_str("ref", r->ref);
    dg_exts(r->exts);
    dg(")");
}

static void
dg_type(const struct lysc_type *t, int depth)
{
    LY_ARRAY_COUNT_TYPE u;

    dg(" type(%d", (int)t->basetype);
    dg_exts(t->exts);
    switch (t->basetype) {
    case LY_TYPE_INT8: case LY_TYPE_INT16: case LY_TYPE_INT32: case LY_TYPE_INT64:
        dg_range("range", ((struct lysc_type_num *)t)->range, 1);
        break;
    case LY_TYPE_UINT8: case LY_TYPE_UINT16: case LY_TYPE_UINT32: case LY_TYPE_UINT64:
        dg_range("range", ((struct lysc_type_num *)t)->range, 0);
        break;
    case LY_TYPE_DEC64:
        dg(" fd=%d", (int)((struct lysc_type_dec *)t)->fraction_digits);
        dg_range("range", ((struct lysc_type_dec *)t)->range, 1);
        break;
    case LY_TYPE_BINARY:
        dg_range("length", ((struct lysc_type_bin *)t)->length, 0);
        break;
    case LY_TYPE_STRING:
        dg_range("length", ((struct lysc_type_str *)t)->length, 0);
        LY_ARRAY_FOR(((struct lysc_type_str *)t)->patterns, u) {
            const struct lysc_pattern *p = ((struct lysc_type_str *)t)->patterns[u];

            dg(" pattern(%d", (int)p->inverted);
            dg_str("expr", p->expr);
            dg_str("emsg", p->emsg);
            dg_str("eapptag", p->eapptag);
            dg_str("dsc", p->dsc);
            dg_str("ref", p->ref);
            dg_exts(p->exts);
            dg(")");
        }
        break;
    case LY_TYPE_ENUM:
    case LY_TYPE_BITS: {
        const struct lysc_type_bitenum_item *it = (t->basetype == LY_TYPE_ENUM) ? ((struct lysc_type_enum *)t)->enums :
                ((struct lysc_type_bits *)t)->bits;

        LY_ARRAY_FOR(it, u) {
            dg(" item(%" PRId64 "/%x", (t->basetype == LY_TYPE_ENUM) ? (int64_t)it[u].value : (int64_t)it[u].position,
                    (unsigned)(it[u].flags & LYS_STATUS_MASK));
            dg_str("name", it[u].name);
            dg_str("dsc", it[u].dsc);
            dg_str("ref", it[u].ref);
            dg_exts(it[u].exts);
            dg(")");
        }
        break;
    }
    case LY_TYPE_LEAFREF:
        dg(" ri=%d", (int)((struct lysc_type_leafref *)t)->require_instance);
        dg_str("path", lyxp_get_expr(((struct lysc_type_leafref *)t)->path));
        break;
    case LY_TYPE_INST:
        dg(" ri=%d", (int)((struct lysc_type_instanceid *)t)->require_instance);
        break;
    case LY_TYPE_IDENT:
        LY_ARRAY_FOR(((struct lysc_type_identityref *)t)->bases, u) {
            dg(" base=%s:%s", ((struct lysc_type_identityref *)t)->bases[u]->module->name,
                    ((struct lysc_type_identityref *)t)->bases[u]->name);
        }
        break;
    case LY_TYPE_UNION:
        LY_ARRAY_FOR(((struct lysc_type_union *)t)->types, u) {
            if (depth < 8) {
                dg_type(((struct lysc_type_union *)t)->types[u], depth + 1);
            }
        }
        break;
    default:
        break;
    }
    dg(")");
}

static LY_ERR
dg_node(struct lysc_node *n, void *data, ly_bool *dfs_continue)
{
    LY_ARRAY_COUNT_TYPE u, v;
    const struct lysc_must *musts = lysc_node_musts(n);
    struct lysc_when **whens = lysc_node_when(n);
    const struct ly_ctx *ctx = n->module->ctx;
    const struct lysc_node *p;

    (void)data; (void)dfs_continue;
    for (p = n; p; p = p->parent) {
        dg("/");
    }
    dg("%s:%s t=%x f=%x", n->module->name, n->name ? n->name : "", (unsigned)n->nodetype,
            (unsigned)(n->flags & (LYS_CONFIG_MASK | LYS_STATUS_MASK | LYS_MAND_MASK | LYS_PRESENCE | LYS_KEY | LYS_ORDBY_USER |
            LYS_KEYLESS | LYS_SET_DFLT)));
    dg_str("dsc", n->dsc);
    dg_str("ref", n->ref);
    dg_exts(n->exts);
    LY_ARRAY_FOR(musts, u) {
        dg(" must(");
        dg_str("cond", lyxp_get_expr(musts[u].cond));
        dg_str("emsg", musts[u].emsg);
        dg_str("eapptag", musts[u].eapptag);
        dg_str("dsc", musts[u].dsc);
        dg_str("ref", musts[u].ref);
        dg_exts(musts[u].exts);
        dg(")");
    }
    LY_ARRAY_FOR(whens, u) {
        dg(" when(");
        dg_str("cond", lyxp_get_expr(whens[u]->cond));
        dg_str("dsc", whens[u]->dsc);
        dg_str("ref", whens[u]->ref);
        dg_exts(whens[u]->exts);
        dg(")");
    }
    switch (n->nodetype) {
    case LYS_LEAF: {
        const struct lysc_node_leaf *l = (const struct lysc_node_leaf *)n;

        dg_str("units", l->units);
        if (l->dflt) {
            dg_str("dflt", lyd_value_get_canonical(ctx, l->dflt));
        }
        dg_type(l->type, 0);
        break;
    }
    case LYS_LEAFLIST: {
        const struct lysc_node_leaflist *l = (const struct lysc_node_leaflist *)n;

        dg(" min=%u max=%u", l->min, l->max);
        dg_str("units", l->units);
        LY_ARRAY_FOR(l->dflts, u) {
            dg_str("dflt", lyd_value_get_canonical(ctx, l->dflts[u]));
        }
        dg_type(l->type, 0);
        break;
    }
    case LYS_LIST: {
        const struct lysc_node_list *l = (const struct lysc_node_list *)n;

        dg(" min=%u max=%u", l->min, l->max);
        LY_ARRAY_FOR(l->uniques, u) {
            dg(" unique(");
            LY_ARRAY_FOR(l->uniques[u], v) {
                dg("%s,", l->uniques[u][v]->name);
            }
            dg(")");
        }
        break;
    }
    case LYS_CHOICE:
        if (((const struct lysc_node_choice *)n)->dflt) {
            dg(" dflt=%s", ((const struct lysc_node_choice *)n)->dflt->name);
        }
        break;
    default:
        break;
    }
    dg("\n");
    return LY_SUCCESS;
}

/* digest of all implemented modules that are not internal ones */
static char *
digest_compiled(struct ly_ctx *ctx)
{
    uint32_t idx = ly_ctx_internal_modules_count(ctx);
    struct lys_module *m;
    LY_ARRAY_COUNT_TYPE u;

    DG = strdup("");
    while ((m = ly_ctx_get_module_iter(ctx, &idx))) {
        if (!m->implemented || !m->compiled) {
            continue;
        }
        dg("module %s", m->name);
        dg_str("org", m->org);
        dg_str("contact", m->contact);
        dg_str("dsc", m->dsc);
        dg_str("ref", m->ref);
        dg_exts(m->compiled->exts);
        dg("\n");
        LY_ARRAY_FOR(m->identities, u) {
            dg("identity %s f=%x", m->identities[u].name, (unsigned)(m->identities[u].flags & LYS_STATUS_MASK));
            dg_str("dsc", m->identities[u].dsc);
            dg_str("ref", m->identities[u].ref);
            dg_exts(m->identities[u].exts);
            dg("\n");
        }
        lysc_module_dfs_full(m, dg_node, NULL);
    }
    return DG;
}

static LY_ERR
print_sub(const struct lysp_submodule *sub, LYS_OUTFORMAT fmt, char **res)
{
    struct ly_out *out = NULL;
    LY_ERR rc;

    *res = NULL;
    if (ly_out_new_memory(res, 0, &out)) {
        return LY_EMEM;
    }
    rc = lys_print_submodule(out, sub, fmt, 0, 0);
    ly_out_free(out, NULL, 0);
    if (!*res) {
        *res = strdup("");
    }
    return rc;
}

/* all prints of p->mod; compiled stuff only with [compiled] */
static int
print_all(struct prints *p, int compiled)
{
    LY_ARRAY_COUNT_TYPE u;

    if (lys_print_mem(&p->yang, p->mod, LYS_OUT_YANG, 0) || !p->yang) {
        set_err(p, "print-yang");
        return 1;
    }
    if (lys_print_mem(&p->yin, p->mod, LYS_OUT_YIN, 0) || !p->yin) {
        set_err(p, "print-yin");
        return 1;
    }
    if (compiled) {
        if (print_compiled(p)) {
            set_err(p, "print-comp");
            return 1;
        }
        p->dig = digest_compiled(p->ctx);
        switch (print_tree_isolated(p->mod, &p->tree)) {
        case 0:
            break;
        case 2:
            p->tree_crash = 1 + has_toplevel_plain_ext(p->mod);
            break;
        default:
            set_err(p, "print-tree");
            return 1;
        }
    }
    LY_ARRAY_FOR(p->mod->parsed->includes, u) {
        const struct lysp_include *inc = &p->mod->parsed->includes[u];

        if (!inc->submodule || (p->nsub >= NSUB)) {
            continue;
        }
        p->subname[p->nsub] = strdup(inc->name);
        p->suby[p->nsub] = p->subx[p->nsub] = NULL;
        ++p->nsub;
        if (print_sub(inc->submodule, LYS_OUT_YANG, &p->suby[p->nsub - 1])) {
            set_err(p, "print-sub-yang");
            return 1;
        }
        if (print_sub(inc->submodule, LYS_OUT_YIN, &p->subx[p->nsub - 1])) {
            set_err(p, "print-sub-yin");
            return 1;
        }
    }
    return 0;
}

/* new context, parse text as M with the features, print everything. 0 = fine */
static int
load_impl(struct prints *p, struct env *e, const char *text, LYS_INFORMAT fmt, const char *feats)
{
    struct ly_in *in = NULL;
    LY_ERR rc;

    memset(p, 0, sizeof *p);
    if (ly_ctx_new(NULL, 0, &p->ctx)) {
        p->err = strdup("ly_ctx_new");
        p->errstep = "ctx";
        return 1;
    }
    ly_ctx_set_module_imp_clb(p->ctx, imp_clb, e);
    ly_in_new_memory(text, &in);
    rc = lys_parse(p->ctx, in, fmt, !strcmp(feats, "*") ? (const char *[]){"*", NULL} : feat_list(feats), &p->mod);
    ly_in_free(in, 0);
    if (rc || !p->mod) {
        err_text = text;
        set_err(p, "parse");
        err_text = NULL;
        return 1;
    }
    return print_all(p, 1);
}

/* new context, M only imported by a wrapper module: parsed, not implemented */
static int
load_ni(struct prints *p, struct env *e, const char *name)
{
    char *w = NULL;
    struct lys_module *wm = NULL;

    memset(p, 0, sizeof *p);
    if (ly_ctx_new(NULL, 0, &p->ctx)) {
        p->err = strdup("ly_ctx_new");
        p->errstep = "ctx";
        return 1;
    }
    ly_ctx_set_module_imp_clb(p->ctx, imp_clb, e);
    if (asprintf(&w, "module ymod-wrapper {namespace \"urn:ymod-wrapper\"; prefix ymw; import %s {prefix ymi;}}", name) < 0) {
        return 1;
    }
    if (lys_parse_mem(p->ctx, w, LYS_IN_YANG, &wm)) {
        free(w);
        err_text = find_src(e, name) ? find_src(e, name)->text : NULL;
        set_err(p, "parse");
        err_text = NULL;
        return 1;
    }
    free(w);
    p->mod = ly_ctx_get_module_latest(p->ctx, name);
    if (!p->mod || !p->mod->parsed) {
        set_err(p, "parse");
        return 1;
    }
    if (p->mod->implemented) {
        /* (cannot happen: nothing refers to its nodes) */
        p->err = strdup("implemented");
        p->errstep = "parse";
        return 1;
    }
    return print_all(p, 0);
}

static int nfail;

static void
fail_msg(const char *check, const char *step, const char *msg)
{
    printf("%s%s", nfail++ ? " " : "", check);
    if (step && strcmp(step, "parse")) {
        printf("/%s", step);
    }
    printf("!");
    vputhex(msg ? msg : "?", msg ? strlen(msg) : 1);
}

/* compare two texts; report the first differing line */
static int
cmp_text(const char *check, const char *a, const char *b)
{
    const char *la = a, *lb = b;
    unsigned line = 1;

    if (!a || !b) {
        if (a != b) {
            printf("%s%s@0:-:-", nfail++ ? " " : "", check);
            return 1;
        }
        return 0;
    }
    if (!strcmp(a, b)) {
        return 0;
    }
    while (*la && *lb) {
        size_t na = strcspn(la, "\n"), nb = strcspn(lb, "\n");

        if ((na != nb) || memcmp(la, lb, na)) {
            break;
        }
        la += na;
        lb += nb;
        if (*la == '\n') {
            ++la;
        }
        if (*lb == '\n') {
            ++lb;
        }
        ++line;
    }
    printf("%s%s@%u:", nfail++ ? " " : "", check, line);
    vputhex(la, strcspn(la, "\n") > 400 ? 400 : strcspn(la, "\n"));
    printf(":");
    vputhex(lb, strcspn(lb, "\n") > 400 ? 400 : strcspn(lb, "\n"));
    return 1;
}

static void
cmp_subs(const char *check, const struct prints *a, const struct prints *b, int yin)
{
    char name[64];

    if (a->nsub != b->nsub) {
        printf("%s%s@0:-:-", nfail++ ? " " : "", check);
        return;
    }
    for (int i = 0; i < a->nsub; i++) {
        snprintf(name, sizeof name, "%s", check);
        if (strcmp(a->subname[i], b->subname[i])) {
            printf("%s%s@0:-:-", nfail++ ? " " : "", check);
            return;
        }
        if (cmp_text(name, yin ? a->subx[i] : a->suby[i], yin ? b->subx[i] : b->suby[i])) {
            return;
        }
    }
}

/* env in which M's submodules are the printed ones */
static void
env_subs(struct env *e, const struct prints *p, int yin)
{
    e->nov = 0;
    for (int i = 0; i < p->nsub; i++) {
        e->ov[e->nov].name = p->subname[i];
        e->ov[e->nov].text = yin ? p->subx[i] : p->suby[i];
        e->ov[e->nov].fmt = yin ? LYS_IN_YIN : LYS_IN_YANG;
        ++e->nov;
    }
}

/* (a crash of the tree printer is reported once, for the original module) */
#define TREE_CMP(CHECK, A, B) \
    if (!(A).tree_crash && (B).tree_crash) { \
        printf("%s%s-crash:%d", nfail++ ? " " : "", CHECK, (B).tree_crash - 1); \
    } else if (!(A).tree_crash) { \
        cmp_text(CHECK, (A).tree, (B).tree); \
    }

static void
do_case(const char *name, const char *feats, int flags)
{
    struct prints p0, q, r;
    struct env e0 = {0}, e;
    const struct src *m = find_src(NULL, name);
    char *s;

    nfail = 0;
    if (!m) {
        printf("?nodef");
        return;
    }
    if (load_impl(&p0, &e0, m->text, m->fmt, feats)) {
        if (!strcmp(p0.errstep, "parse")) {
            printf("E!");
            vputhex(p0.err, strlen(p0.err));
        } else {
            fail_msg("orig", p0.errstep, p0.err);
        }
        prints_free(&p0);
        return;
    }

    if (flags & 4) {
        /* (for looking at a case) */
        printf("Y0=");
        vputhex(p0.yang, strlen(p0.yang));
        printf(" X0=");
        vputhex(p0.yin, strlen(p0.yin));
        printf(" C0=");
        vputhex(p0.comp, strlen(p0.comp));
        printf(" ");
        for (int i = 0; i < p0.nsub; i++) {
            printf("S%d=", i);
            vputhex(p0.suby[i], strlen(p0.suby[i]));
            printf(" T%d=", i);
            vputhex(p0.subx[i], strlen(p0.subx[i]));
            printf(" ");
        }
    }

    /* determinism in one context */
    s = NULL;
    free(p0.comp);
    p0.comp = NULL;
    {
        char *first;

        print_compiled(&p0);
        first = p0.comp;
        p0.comp = NULL;
        print_compiled(&p0);
        cmp_text("det-comp", first, p0.comp);
        free(first);
    }
    if (p0.tree_crash) {
        printf("%stree-crash:%d", nfail++ ? " " : "", p0.tree_crash - 1);
    } else {
        print_tree_isolated(p0.mod, &s);
        cmp_text("det-tree", p0.tree, s);
        free(s);
        s = NULL;
    }
    lys_print_mem(&s, p0.mod, LYS_OUT_YANG, 0);
    cmp_text("det-yang", p0.yang, s ? s : "");
    free(s);

    /* determinism across contexts */
    if (load_impl(&q, &e0, m->text, m->fmt, feats)) {
        fail_msg("det2", q.errstep, q.err);
    } else {
        cmp_text("det2-comp", p0.comp, q.comp);
        cmp_text("det2-dig", p0.dig, q.dig);
        TREE_CMP("det2-tree", p0, q);
        cmp_text("det2-yang", p0.yang, q.yang);
        cmp_text("det2-yin", p0.yin, q.yin);
    }
    prints_free(&q);

    /* YANG round trip */
    env_subs(&e, &p0, 0);
    if (load_impl(&q, &e, p0.yang, LYS_IN_YANG, feats)) {
        fail_msg("yang-parse", q.errstep, q.err);
    } else {
        cmp_text("yang-comp", p0.comp, q.comp);
        cmp_text("yang-dig", p0.dig, q.dig);
        cmp_text("yang-fix", p0.yang, q.yang);
        cmp_subs("yang-sub", &p0, &q, 0);
        TREE_CMP("yang-tree", p0, q);
        cmp_text("yang-yin", p0.yin, q.yin);
    }
    prints_free(&q);

    /* YIN round trip */
    env_subs(&e, &p0, 1);
    if (flags & 2) {
        memset(&q, 0, sizeof q);
    } else if (load_impl(&q, &e, p0.yin, LYS_IN_YIN, feats)) {
        fail_msg("yin-parse", q.errstep, q.err);
    } else {
        cmp_text("yin-comp", p0.comp, q.comp);
        cmp_text("yin-dig", p0.dig, q.dig);
        cmp_text("yin-fix", p0.yin, q.yin);
        cmp_subs("yin-sub", &p0, &q, 1);
        TREE_CMP("yin-tree", p0, q);
        if (strcmp(p0.yang, q.yang)) {
            printf("%syin-yang=", nfail++ ? " " : "");
            vputhex(p0.yang, strlen(p0.yang));
            printf("=");
            vputhex(q.yang, strlen(q.yang));
        }
    }
    prints_free(&q);

    /* parsed module that is not implemented */
    if (!(flags & 1)) {
        if (load_ni(&q, &e0, name)) {
            fail_msg("ni-load", q.errstep, q.err);
        } else {
            cmp_text("ni-yang", p0.yang, q.yang);
            cmp_text("ni-yin", p0.yin, q.yin);
            cmp_subs("ni-sub", &p0, &q, 0);

            env_subs(&e, &q, 0);
            e.ov[e.nov].name = (char *)name;
            e.ov[e.nov].text = q.yang;
            e.ov[e.nov].fmt = LYS_IN_YANG;
            ++e.nov;
            if (load_ni(&r, &e, name)) {
                fail_msg("ni-yang-parse", r.errstep, r.err);
            } else {
                cmp_text("ni-yang-fix", q.yang, r.yang);
                cmp_subs("ni-yang-sub", &q, &r, 0);
            }
            prints_free(&r);

            env_subs(&e, &q, 1);
            e.ov[e.nov].name = (char *)name;
            e.ov[e.nov].text = q.yin;
            e.ov[e.nov].fmt = LYS_IN_YIN;
            ++e.nov;
            if (flags & 2) {
                memset(&r, 0, sizeof r);
            } else if (load_ni(&r, &e, name)) {
                fail_msg("ni-yin-parse", r.errstep, r.err);
            } else {
                cmp_text("ni-yin-fix", q.yin, r.yin);
                cmp_subs("ni-yin-sub", &q, &r, 1);
            }
            prints_free(&r);
        }
        prints_free(&q);
    }

    prints_free(&p0);
    if (!nfail) {
        printf("ok");
    }
}

int
main(void)
{
    struct vcase c;

    ly_set_log_clb(log_cb);
    ly_log_options(LY_LOLOG | LY_LOSTORE);
    while (vnext(&c)) {
        if (strcmp(c.f[0], "mrt") || (c.nf < 5)) {
            printf("?");
            VEND();
            continue;
        }
        nbase = 0;
        for (int i = 4; (i < c.nf) && (nbase < NSRC); i++) {
            char *p1 = strchr(c.f[i], ':'), *p2 = p1 ? strchr(p1 + 1, ':') : NULL;

            if (!p2) {
                continue;
            }
            *p1 = 0;
            BASE[nbase].name = c.f[i];
            BASE[nbase].fmt = (p1[1] == 'x') ? LYS_IN_YIN : LYS_IN_YANG;
            BASE[nbase].text = vunhex(p2 + 1, NULL);
            ++nbase;
        }
        do_case(c.f[1], c.f[2], atoi(c.f[3]));
        for (int i = 0; i < nbase; i++) {
            free(BASE[i].text);
        }
        nbase = 0;
        VEND();
    }
    return 0;
}
