/* t_yangstr.c - white-box driver of slice yangstr: sizes and counters of the quoted-string lexer of
 * src/parser_yang.c: get_argument() -> static read_qstring() -> buf_store_char() -> buf_add_char() (reached by
 * including parser_yang.c from the working tree).
 *
 * Nothing in parser_yang.c is edited. As in t_xmlbuf.c the allocator calls are observed through function-like
 * macros malloc / ly_realloc / free defined after all headers of parser_yang.c have been included and before the
 * file itself; while a case runs the hooks record the requested sizes. That sequence (malloc of word_len at the
 * moment the buffer is first needed, the +16 steps of buf_add_char, the final word_len + 1) together with the
 * returned length is what the function decides about its counters, so it is compared with the model; the stores
 * themselves are observed by the sanitizer build of this driver.
 *
 * Case:  qstr <dq> <indent> <events> <hex text>     the text starts at the opening quote; ctx->indent = indent
 *        ->  ok <dynamic> <length> <calls>   |   err <calls>      calls: mN malloc, rN realloc, f free, `-` none
 *        post-conditions (suffix " !<what>"): dynamic word whose strlen differs from the length; no word; error
 *        without error record; error that leaves a buffer behind.
 */
#include "common.h"
#include "parser_internal.h"
#include <assert.h>
#include <errno.h>
#include "context.h"
#include "dict.h"
#include "in_internal.h"
#include "log.h"
#include "ly_common.h"
#include "parser_schema.h"
#include "path.h"
#include "set.h"
#include "tree.h"
#include "tree_edit.h"
#include "tree_schema.h"
#include "tree_schema_free.h"
#include "tree_schema_internal.h"

static int ys_on;
static char ys_tr[1 << 20];
static size_t ys_n;

static void
ys_note(char k, size_t n)
{
    if (ys_on && (ys_n + 32 < sizeof ys_tr)) {
        if (k == 'f') {
            ys_n += (size_t)sprintf(ys_tr + ys_n, "%sf", ys_n ? "," : "");
        } else {
            ys_n += (size_t)sprintf(ys_tr + ys_n, "%s%c%zu", ys_n ? "," : "", k, n);
        }
    }
}

static void *
ys_malloc(size_t n)
{
    ys_note('m', n);
    return malloc(n);
}

static void *
ys_realloc(void *p, size_t n)
{
    ys_note('r', n);
    return ly_realloc(p, n);
}

static void
ys_free(void *p)
{
    if (p) {
        ys_note('f', 0);
    }
    free(p);
}

#define malloc(n) ys_malloc(n)
#define ly_realloc(p, n) ys_realloc(p, n)
#define free(p) ys_free(p)
#include "parser_yang.c"
#undef malloc
#undef ly_realloc
#undef free

static void
log_cb(LY_LOG_LEVEL level, const char *msg, const char *data_path, const char *schema_path, uint64_t line)
{
    (void)level; (void)msg; (void)data_path; (void)schema_path; (void)line;
}

int
main(void)
{
    struct vcase c;
    struct ly_ctx *ctx = NULL;
    struct lysp_yang_ctx *yctx;
    struct lysp_module *pmod;

    ly_set_log_clb(log_cb);
    if (ly_ctx_new(NULL, 0, &ctx)) {
        fprintf(stderr, "ctx\n");
        return 2;
    }
    /* parser context as built by tests/utests/schema/test_yang.c */
    yctx = calloc(1, sizeof *yctx);
    yctx->main_ctx = (struct lysp_ctx *)yctx;
    yctx->format = LYS_IN_YANG;
    ly_set_new(&yctx->parsed_mods);
    pmod = calloc(1, sizeof *pmod);
    ly_set_add(yctx->parsed_mods, pmod, 1, NULL);
    pmod->mod = calloc(1, sizeof *pmod->mod);
    pmod->mod->ctx = ctx;
    pmod->mod->parsed = pmod;

    while (vnext(&c)) {
        if (!strcmp(c.f[0], "qstr") && (c.nf > 4)) {
            size_t len, wlen = 0;
            char *raw = vunhex(c.f[4], &len), *s, *word = NULL, *buf = NULL;
            struct ly_in *in = NULL;
            LY_ERR r;

            /* exact copy: the NUL is the last byte of the block */
            s = malloc(len + 1);
            memcpy(s, raw, len);
            s[len] = '\0';
            free(raw);

            ly_in_new_memory(s, &in);
            yctx->in = in;
            yctx->indent = strtoull(c.f[2], NULL, 10);
            ys_n = 0;
            ys_tr[0] = '\0';
            ys_on = 1;
            r = get_argument(yctx, Y_STR_ARG, NULL, &word, &buf, &wlen);
            ys_on = 0;
            if (r) {
                printf("err %s", ys_n ? ys_tr : "-");
                if (!ly_err_first(ctx)) {
                    printf(" !no-error-record");
                }
                if (buf) {
                    printf(" !buffer-left");
                }
            } else {
                printf("ok %d %zu %s", buf ? 1 : 0, wlen, ys_n ? ys_tr : "-");
                if (!word) {
                    printf(" !null-word");
                } else if (buf && (strlen(buf) != wlen)) {
                    printf(" !strlen=%zu", strlen(buf));
                } else if (buf && (word != buf)) {
                    printf(" !word-not-buffer");
                }
                free(buf);
            }
            ly_in_free(in, 0);
            ly_err_clean(ctx, NULL);
            free(s);
        } else {
            printf("?");
        }
        VEND();
    }
    free(pmod->mod);
    free(pmod);
    ly_set_free(yctx->parsed_mods, NULL);
    free(yctx);
    ly_ctx_destroy(ctx);
    return 0;
}
