/* t_xml.c — white-box driver for src/xml.c and the UTF-8 helpers of src/ly_common.c.
 * The static functions of xml.c are reached by including the file from the working tree. */
#include "common.h"
#include "xml.c"

static void
log_cb(LY_LOG_LEVEL level, const char *msg, const char *data_path, const char *schema_path, uint64_t line)
{
    (void)level; (void)msg; (void)data_path; (void)schema_path; (void)line;
}

int
main(void)
{
    struct vcase c;
    struct ly_ctx *ctx = NULL;

    ly_set_log_clb(log_cb);
    if (ly_ctx_new(NULL, 0, &ctx)) {
        fprintf(stderr, "ctx\n");
        return 2;
    }

    while (vnext(&c)) {
        const char *comp = c.f[0];

        if (!strcmp(comp, "getutf8")) {
            size_t len, u = 0;
            char *s = vunhex(c.f[1], &len);
            const char *p = s;
            uint32_t cp = 0;

            if (ly_getutf8(&p, &cp, &u)) {
                printf("E");
            } else {
                printf("%" PRIu32 " %zu", cp, u);
            }
            free(s);
        } else if (!strcmp(comp, "pututf8")) {
            char dst[8] = {0};
            size_t u = 0;
            uint32_t v = (uint32_t)strtoul(c.f[1], NULL, 10);

            if (ly_pututf8(dst, v, &u)) {
                printf("E");
            } else {
                vputhex(dst, u);
            }
        } else if (!strcmp(comp, "checkutf8")) {
            size_t len, u = 0;
            char *s = vunhex(c.f[1], &len);

            if (!len || ly_checkutf8(s, len, &u)) {
                printf("E");
            } else {
                printf("%zu", u);
            }
            free(s);
        } else if (!strcmp(comp, "xmlesc")) {
            size_t len;
            char *s = vunhex(c.f[2], &len), *mem = NULL;
            struct ly_out *out = NULL;

            ly_out_new_memory(&mem, 0, &out);
            if (lyxml_dump_text(out, s, atoi(c.f[1]))) {
                printf("E");
            } else {
                vputhex(mem ? mem : "", mem ? strlen(mem) : 0);
            }
            ly_out_free(out, NULL, 1);
            free(s);
        } else if (!strcmp(comp, "xmlval")) {
            size_t len, vlen = 0;
            char *s = vunhex(c.f[2], &len), *val = NULL;
            struct ly_in *in = NULL;
            struct lyxml_ctx x;
            ly_bool ws = 0, dyn = 0;

            memset(&x, 0, sizeof x);
            ly_in_new_memory(s, &in);
            x.ctx = ctx;
            x.in = in;
            if (lyxml_parse_value(&x, (char)atoi(c.f[1]), &val, &vlen, &ws, &dyn)) {
                printf("E");
            } else {
                vputhex(val, vlen);
                printf(" %zu %d", (size_t)(in->current - s), (int)ws);
                if (dyn) {
                    free(val);
                }
            }
            ly_in_free(in, 0);
            ly_err_clean(ctx, NULL);
            free(s);
        } else if (!strcmp(comp, "xmlrt")) {
            /* round trip at function level: lyxml_dump_text(text, attribute), then the terminator ('<' for content,
             * '"' for an attribute value) and "/", read back by lyxml_parse_value. Prints the value read, whether
             * the lexer stopped exactly at the terminator, and the white-space-only flag. */
            size_t len, vlen = 0, plen;
            int attr = atoi(c.f[1]);
            char *s = vunhex(c.f[2], &len), *mem = NULL, *doc, *val = NULL;
            struct ly_out *out = NULL;
            struct ly_in *in = NULL;
            struct lyxml_ctx x;
            ly_bool ws = 0, dyn = 0;

            ly_out_new_memory(&mem, 0, &out);
            if (lyxml_dump_text(out, s, attr)) {
                printf("E print");
            } else {
                plen = mem ? strlen(mem) : 0;
                doc = malloc(plen + 3);
                if (plen) {
                    memcpy(doc, mem, plen);
                }
                doc[plen] = attr ? '"' : '<';
                doc[plen + 1] = '/';
                doc[plen + 2] = '\0';
                memset(&x, 0, sizeof x);
                ly_in_new_memory(doc, &in);
                x.ctx = ctx;
                x.in = in;
                if (lyxml_parse_value(&x, attr ? '"' : '<', &val, &vlen, &ws, &dyn)) {
                    printf("E parse");
                } else {
                    vputhex(val, vlen);
                    printf(" %d %d", (size_t)(in->current - doc) == plen, (int)ws);
                    if (dyn) {
                        free(val);
                    }
                }
                ly_in_free(in, 0);
                ly_err_clean(ctx, NULL);
                free(doc);
            }
            ly_out_free(out, NULL, 1);
            free(s);
        } else {
            printf("?");
        }
        VEND();
    }
    ly_ctx_destroy(ctx);
    return 0;
}
