/* t_iff.c — white-box driver for the if-feature compiler/evaluator of src/schema_features.c.
 * The static lys_compile_iffeature() is reached by including the file from the working tree.
 *
 *   iffc <hex expr>            compile in a YANG 1.1 module with features a b c (prefix p)
 *   iffc10 <hex expr>          the same in a YANG 1.0 module
 *   iffv <hex expr> <abc bits> compile, enable the features whose bit is 1, lysc_iffeature_value()
 * Output: E (LY_EVALID), EINT (LY_EINT), or `<expr bytes hex> <number of records> <feature names hex,...>`
 * resp. 0/1. */
#include "common.h"
#include "schema_features.c"

static void
log_cb(LY_LOG_LEVEL level, const char *msg, const char *data_path, const char *schema_path, uint64_t line)
{
    (void)level; (void)msg; (void)data_path; (void)schema_path; (void)line;
}

static void
put_err(LY_ERR rc)
{
    if (rc == LY_EVALID) {
        printf("E");
    } else if (rc == LY_EINT) {
        printf("EINT");
    } else {
        printf("E?%d", (int)rc);
    }
}

/* the number of records is not stored; the expression ends with its last F record and there are
 * exactly LY_ARRAY_COUNT(features) of them */
static size_t
count_codes(const struct lysc_iffeature *iff)
{
    size_t pos = 0, seen = 0, k = LY_ARRAY_COUNT(iff->features);

    while (seen < k) {
        if (lysc_iff_getop(iff->expr, pos) == LYS_IFF_F) {
            ++seen;
        }
        ++pos;
    }
    return pos;
}

int
main(void)
{
    struct vcase c;
    struct ly_ctx *ctx = NULL;
    struct lys_module *m11 = NULL, *m10 = NULL;
    struct lysf_ctx fctx;

    ly_set_log_clb(log_cb);
    if (ly_ctx_new(NULL, 0, &ctx)) {
        fprintf(stderr, "ctx\n");
        return 2;
    }
    if (lys_parse_mem(ctx, "module m {yang-version 1.1; namespace \"urn:m\"; prefix p;"
            " feature a; feature b; feature c;}", LYS_IN_YANG, &m11) ||
            lys_parse_mem(ctx, "module m10 {namespace \"urn:m10\"; prefix p;"
            " feature a; feature b; feature c;}", LYS_IN_YANG, &m10)) {
        fprintf(stderr, "module\n");
        return 2;
    }
    memset(&fctx, 0, sizeof fctx);
    fctx.ctx = ctx;

    while (vnext(&c)) {
        const char *comp = c.f[0];

        if ((!strcmp(comp, "iffc") || !strcmp(comp, "iffc10")) && (c.nf >= 2)) {
            size_t len;
            char *s = vunhex(c.f[1], &len);
            struct lysp_qname q;
            struct lysc_iffeature iff;
            LY_ERR rc;
            LY_ARRAY_COUNT_TYPE u;

            memset(&q, 0, sizeof q);
            memset(&iff, 0, sizeof iff);
            q.str = s;
            q.mod = !strcmp(comp, "iffc") ? m11->parsed : m10->parsed;
            rc = lys_compile_iffeature(ctx, &q, &iff);
            if (rc) {
                put_err(rc);
            } else {
                size_t n = count_codes(&iff);

                vputhex(iff.expr, (n + 3) / 4);
                printf(" %zu ", n);
                LY_ARRAY_FOR(iff.features, u) {
                    if (u) {
                        printf(",");
                    }
                    if (iff.features[u]) {
                        vputhex(iff.features[u]->name, strlen(iff.features[u]->name));
                    } else {
                        printf("NULL");
                    }
                }
                lysc_iffeature_free(&fctx, &iff);
            }
            ly_err_clean(ctx, NULL);
            free(s);
        } else if (!strcmp(comp, "iffv") && (c.nf >= 3) && (strlen(c.f[2]) == 3)) {
            size_t len;
            char *s = vunhex(c.f[1], &len);
            struct lysp_qname q;
            struct lysc_iffeature iff;
            LY_ERR rc;
            LY_ARRAY_COUNT_TYPE u;

            LY_ARRAY_FOR(m11->parsed->features, u) {
                /* features are a, b, c in this order */
                if (c.f[2][u] == '1') {
                    m11->parsed->features[u].flags |= LYS_FENABLED;
                } else {
                    m11->parsed->features[u].flags &= ~LYS_FENABLED;
                }
            }
            memset(&q, 0, sizeof q);
            memset(&iff, 0, sizeof iff);
            q.str = s;
            q.mod = m11->parsed;
            rc = lys_compile_iffeature(ctx, &q, &iff);
            if (rc) {
                put_err(rc);
            } else {
                rc = lysc_iffeature_value(&iff);
                if (rc == LY_SUCCESS) {
                    printf("1");
                } else if (rc == LY_ENOT) {
                    printf("0");
                } else {
                    printf("E?%d", (int)rc);
                }
                lysc_iffeature_free(&fctx, &iff);
            }
            ly_err_clean(ctx, NULL);
            free(s);
        } else {
            printf("?");
        }
        VEND();
    }
    ly_ctx_destroy(ctx);
    return 0;
}
