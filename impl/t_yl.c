/* t_yl.c — driver of slice `yl` (property C19): module-set hash, change counter, yang-library round trip.
 *
 * A case describes a set of YANG modules abstractly; the driver generates the module texts itself, serves them
 * through the import callback (ly_ctx_set_module_imp_clb) and builds contexts through the public API.
 *
 * Module record (one TAB field each, in the order the context is expected to hold them):
 *      M    := ["+"] NAME "," REV "," IMPL "," GROUPS "," IMPORTS ["," SUBG]
 *      NAME := hex     REV := hex | "-"     IMPL := 0 | 1
 *      GROUPS  := G (";" G)*      G := "" | F ("+" F)*      F := hex ":" (0 | 1) [":" hex]
 *                 first group = features of the module itself, following groups = features of its submodules
 *                 (submodule k of module n is named n-s<k>), 1 = enabled; the optional third part is the name of a
 *                 feature of the same (sub)module that this feature depends on (if-feature)
 *      IMPORTS := "" | I ("+" I)*         I := hex ["@" hex] ["^a" | "^d"]   (with / without revision-date;
 *                 ^a: the module also augments the container of the imported module, ^d: it deviates its leaf x)
 *      SUBG := V (";" INCS)*    V = 0 (YANG 1.0) | 1 (YANG 1.1);  the k-th INCS (k = 0: the module, k >= 1: submodule
 *                 n-s<k>) lists the submodules that (sub)module k includes: "" | number ("+" number)*.  Without SUBG the
 *                 module is YANG 1.1 and includes all its submodules, which include nothing.  In YANG 1.0 a submodule
 *                 may include one the module does not include (libyang injects it into the includes of the module);
 *                 the feature arrays of the context follow the includes array of the module after that.
 *                 Every (sub)module defines an identity derived from the identity of its first include, an
 *                 identityref leaf, and (submodules) an augment of the module's container; the ^a / ^d statement of
 *                 import number k is placed in (sub)module k mod (number of (sub)modules).
 *      a leading "+" marks a source that is only available to the import callback and is never loaded explicitly
 *      (it may still enter the context through an import).
 *   Building a context from records: every record with IMPL = 1 is loaded in order with ly_ctx_load_module(name, rev,
 *   enabled features) or, when an earlier import has already brought it in, made implemented with lys_set_implemented();
 *   records with IMPL = 0 only arrive through imports.
 *
 * Commands (first field):
 *   modhash <ctx options> M...       -> `<records of the context> <ly_ctx_get_modules_hash>`
 *        record = NAME,REV,IMPL,GROUPS as read back from the context (all modules after the internal ones), joined by |
 *   hashpair <opts> M... "/" M...    -> `<hash of first set> <hash of second set>`
 *   ccwrap <start> <n>...            -> counter values after n_i increments of the real uint16_t field, joined by ,
 *   chg <opts> M... "/" OP...        -> per op `rc:count before:count after:added modules:observable changed(0/1)` joined by space
 *        OP := "L" idx features | "I" idx features | "C"      features := "*" | "~" (NULL) | "-" (none) | hex("+" hex)*
 *        (separated by ":"; idx = index of the record)
 *   ylrt <opts> M...                 -> `<yang-library entries> <validation rc> <rebuild rc> <records of the rebuilt context>
 *                                        # <compiled prints equal> <hash equal> <content-id == hash> <legacy ok>
 *                                        <records of the original context>`
 *        entry = m:NAME,REV,NS,FEATURES,DEVIATIONS,SUBMODULES  or  i:NAME,REV,NS,SUBMODULES  (read from the re-parsed JSON
 *        data; SUBMODULES = name@revision joined by +), joined by |
 *        fields "P:" idx ":" features before the records: ly_ctx_load_module(record idx, features) on the rebuilding
 *        context BEFORE ly_ctx_new_ylmem is applied to it (an existing, populated context)
 *        fields "Q:" idx ":" features: lys_set_implemented(record idx, features) on the ORIGINAL context after all loads
 *        (a feature change after the modules were compiled), also for ylx
 *   ylx <opts> X:<ropts>:<entry>:<osrc>:<rsrc>:<target> [P:idx:features]... [Q:idx:features]... M...
 *        the round trip in every variant: ropts = options of the rebuilding context; entry = d (ly_ctx_new_yldata on
 *        the tree) | mj | mx (ly_ctx_new_ylmem JSON / XML) | pj | px (ly_ctx_new_ylpath); osrc / rsrc = where the original /
 *        the rebuilding context get module texts: c (import callback) | s (search directory) | b (both); target =
 *        n (*ctx == NULL, needs rsrc = s) | e (an existing context, P operations applied first)
 *        -> `<validation rc> <rebuild rc> # <hex names of implemented modules whose compiled print differs, + joined | ->
 *            <P results> <all records of the original context> <all records of the rebuilt context>
 *            <description: name,rev,features,submodules of every entry of the data> <the same read from the original
 *            context with lys_feature_value / includes> <hash of the original> <hash of the rebuilt context>`
 */
#include "common.h"

#include <assert.h>
#include <dirent.h>
#include <stdarg.h>
#include <sys/stat.h>
#include <unistd.h>

#include "libyang.h"
#include "ly_common.h"
#include "context.h"
#include "tree_schema_internal.h"

/* texts of the two internal modules that a LY_CTX_NO_YANGLIBRARY context lacks */
extern unsigned char ietf_datastores_2018_02_14_yang[];        /* models/ietf-datastores@2018-02-14.h via context.c */
extern unsigned char ietf_yang_library_2019_01_04_yang[];

#define MAXM 32
#define MAXG 8
#define MAXF 16
#define MAXI 8

struct feat {
    char *name;
    int en;
    char *dep;      /* if-feature, NULL = none */
};

struct grp {
    int nf;
    struct feat f[MAXF];
};

struct imp {
    char *name;
    char *rev;      /* NULL = no revision-date */
    int kind;       /* 0 import only, 'a' augment, 'd' deviation */
};

struct msrc {
    int extra;      /* "+" record */
    char *name;
    char *rev;      /* NULL = none */
    int impl;
    int ng;
    struct grp g[MAXG];
    int ni;
    struct imp imp[MAXI];
    int v11;                /* yang-version 1.1 */
    int ninc[MAXG];         /* includes of (sub)module g */
    int inc[MAXG][MAXG];
    char *text;
    char *subtext[MAXG];
};

static struct msrc SRC[MAXM];
static int NSRC;

static void
log_cb(LY_LOG_LEVEL level, const char *msg, const char *data_path, const char *schema_path, uint64_t line)
{
    (void)level; (void)schema_path; (void)line;
    if (getenv("LYX_DEBUG")) {
        fprintf(stderr, "LOG: %s (%s)\n", msg, data_path ? data_path : "");
    }
}

/* ---------- small dynamic string ---------- */
struct sbuf {
    char *s;
    size_t n, cap;
};

static void
sb_add(struct sbuf *b, const char *p, size_t n)
{
    if (b->n + n + 1 > b->cap) {
        b->cap = (b->n + n + 1) * 2;
        b->s = realloc(b->s, b->cap);
    }
    memcpy(b->s + b->n, p, n);
    b->n += n;
    b->s[b->n] = 0;
}

static void
sb_fmt(struct sbuf *b, const char *fmt, ...)
{
    char tmp[1024];
    va_list ap;

    va_start(ap, fmt);
    vsnprintf(tmp, sizeof tmp, fmt, ap);
    va_end(ap);
    sb_add(b, tmp, strlen(tmp));
}

static void
sb_hex(struct sbuf *b, const char *p)
{
    char t[3];
    size_t n = p ? strlen(p) : 0;

    if (!n) {
        sb_add(b, "-", 1);
        return;
    }
    for (size_t i = 0; i < n; i++) {
        snprintf(t, sizeof t, "%02x", (unsigned char)p[i]);
        sb_add(b, t, 2);
    }
}

/* ---------- record parsing ---------- */
/* split s at every ch (in place); returns the number of pieces (an empty string gives one empty piece) */
static int
split(char *s, char ch, char **out, int max)
{
    int n = 0;

    out[n++] = s;
    for (char *p = s; *p; ++p) {
        if ((*p == ch) && (n < max)) {
            *p = 0;
            out[n++] = p + 1;
        }
    }
    return n;
}

static char *
unhex_str(const char *h)
{
    size_t len;

    return vunhex(h, &len);
}

static void
src_free(void)
{
    for (int i = 0; i < NSRC; i++) {
        struct msrc *m = &SRC[i];

        free(m->name);
        free(m->rev);
        for (int g = 0; g < m->ng; g++) {
            for (int f = 0; f < m->g[g].nf; f++) {
                free(m->g[g].f[f].name);
                free(m->g[g].f[f].dep);
            }
            free(m->subtext[g]);
        }
        for (int k = 0; k < m->ni; k++) {
            free(m->imp[k].name);
            free(m->imp[k].rev);
        }
        free(m->text);
    }
    memset(SRC, 0, sizeof SRC);
    NSRC = 0;
}

/* the number in the length restriction of typedef t of a module: makes the compiled schema of an importer depend on
 * the revision of the import */
static unsigned
tnum(const struct msrc *m)
{
    unsigned h = 7;

    for (const char *p = m->name; *p; ++p) {
        h = h * 31 + (unsigned char)*p;
    }
    for (const char *p = m->rev ? m->rev : ""; *p; ++p) {
        h = h * 31 + (unsigned char)*p;
    }
    return 1 + h % 9000;
}

/* the statements of (sub)module g: features, identity, data nodes, augments and deviations */
static void
gen_body(struct sbuf *b, const struct msrc *m, int g)
{
    char self[300];

    if (g) {
        snprintf(self, sizeof self, "%s-s%d", m->name, g);
    } else {
        snprintf(self, sizeof self, "%s", m->name);
    }
    for (int f = 0; f < m->g[g].nf; f++) {
        if (m->g[g].f[f].dep) {
            sb_fmt(b, " feature %s {if-feature %s;}", m->g[g].f[f].name, m->g[g].f[f].dep);
        } else {
            sb_fmt(b, " feature %s;", m->g[g].f[f].name);
        }
    }
    /* identity derived from the identity of the first include (needs the include to resolve) */
    if (m->ninc[g]) {
        sb_fmt(b, " identity id-g%d {base id-g%d;}", g, m->inc[g][0]);
    } else {
        sb_fmt(b, " identity id-g%d;", g);
    }
    if (!g) {
        sb_fmt(b, " typedef t {type string {length \"0..%u\";}}", tnum(m));
        /* what an importer can take over: a grouping whose leaves depend on the features of this module and that
         * wraps the groupings of its own imports (so a module depends on the features of modules it reaches only
         * through import-only modules), a typedef and an identity derived from those of the first import */
        sb_fmt(b, " grouping g-%s {leaf gp {type t;}", m->name);
        for (int f = 0; f < m->g[0].nf; f++) {
            sb_fmt(b, " leaf gl-%s {if-feature %s; type string;}", m->g[0].f[f].name, m->g[0].f[f].name);
        }
        for (int k = 0; k < m->ni; k++) {
            sb_fmt(b, " container w%d {uses i%d:g-%s;}", k, k, m->imp[k].name);
        }
        sb_fmt(b, "}");
        if (m->ni) {
            sb_fmt(b, " typedef t2 {type i0:t2;} identity mid {base i0:mid;}");
        } else {
            sb_fmt(b, " typedef t2 {type t;} identity mid;");
        }
    }
    sb_fmt(b, " container c-%s {", self);
    sb_fmt(b, g ? " leaf y {type string;}" : " leaf x {type t;}");
    sb_fmt(b, " leaf ir {type identityref {base id-g%d;}}", g);
    for (int f = 0; f < m->g[g].nf; f++) {
        sb_fmt(b, " leaf l-%s {if-feature %s; type string;}", m->g[g].f[f].name, m->g[g].f[f].name);
    }
    if (!g) {
        for (int k = 0; k < m->ni; k++) {
            sb_fmt(b, " leaf u%d {type i%d:t;}", k, k);
        }
        sb_fmt(b, " leaf v {type t2;} leaf w {type identityref {base mid;}} container own {uses g-%s;}", m->name);
    }
    sb_fmt(b, "}");
    if (g) {
        /* a submodule augments the container of its module, depending on its first feature */
        sb_fmt(b, " augment \"/p:c-%s\" {leaf sa-g%d {", m->name, g);
        if (m->g[g].nf) {
            sb_fmt(b, "if-feature %s; ", m->g[g].f[0].name);
        }
        sb_fmt(b, "type string;}}");
    }
    for (int k = 0; k < m->ni; k++) {
        if ((k % m->ng) != g) {
            continue;
        }
        if (m->imp[k].kind == 'a') {
            sb_fmt(b, " augment \"/i%d:c-%s\" {leaf aug-%s {type string;}}", k, m->imp[k].name, m->name);
        } else if (m->imp[k].kind == 'd') {
            sb_fmt(b, " deviation \"/i%d:c-%s/i%d:x\" {deviate add {units \"u-%s\";}}", k, m->imp[k].name, k, m->name);
        }
    }
}

static void
gen_imports(struct sbuf *b, const struct msrc *m, int g)
{
    for (int k = 0; k < m->ni; k++) {
        /* the module imports everything, a submodule what its augment / deviation statements need */
        if (g && (((k % m->ng) != g) || !m->imp[k].kind)) {
            continue;
        }
        sb_fmt(b, " import %s {prefix i%d;", m->imp[k].name, k);
        if (m->imp[k].rev) {
            sb_fmt(b, " revision-date %s;", m->imp[k].rev);
        }
        sb_fmt(b, "}");
    }
}

static void
gen_text(struct msrc *m)
{
    for (int g = 0; g < m->ng; g++) {
        struct sbuf b = {0};

        if (g) {
            sb_fmt(&b, "submodule %s-s%d {%s belongs-to %s {prefix p;}", m->name, g, m->v11 ? "yang-version 1.1;" : "", m->name);
        } else {
            sb_fmt(&b, "module %s {%s namespace \"urn:yl:%s\"; prefix p;", m->name, m->v11 ? "yang-version 1.1;" : "", m->name);
        }
        gen_imports(&b, m, g);
        for (int k = 0; k < m->ninc[g]; k++) {
            sb_fmt(&b, " include %s-s%d;", m->name, m->inc[g][k]);
        }
        if (m->rev) {
            sb_fmt(&b, " revision %s;", m->rev);
        }
        gen_body(&b, m, g);
        sb_fmt(&b, "}");
        if (g) {
            m->subtext[g] = b.s;
        } else {
            m->text = b.s;
        }
    }
}

/* parse one M field into SRC[NSRC]; returns 0 on a malformed record */
static int
src_parse(const char *field)
{
    struct msrc *m;
    char *copy, *part[6], *gs[MAXG], *fs[MAXF], *is[MAXI], *kv[3], *hat, *sg[MAXG + 1], *ns[MAXG];
    int n, np;

    if (NSRC >= MAXM) {
        return 0;
    }
    m = &SRC[NSRC];
    memset(m, 0, sizeof *m);
    if (field[0] == '+') {
        m->extra = 1;
        ++field;
    }
    copy = strdup(field);
    np = split(copy, ',', part, 6);
    if ((np != 5) && (np != 6)) {
        free(copy);
        return 0;
    }
    m->name = unhex_str(part[0]);
    m->rev = strcmp(part[1], "-") ? unhex_str(part[1]) : NULL;
    m->impl = atoi(part[2]);
    m->ng = split(part[3], ';', gs, MAXG);
    for (int g = 0; g < m->ng; g++) {
        if (!gs[g][0]) {
            m->g[g].nf = 0;
            continue;
        }
        n = split(gs[g], '+', fs, MAXF);
        m->g[g].nf = n;
        for (int f = 0; f < n; f++) {
            int nk = split(fs[f], ':', kv, 3);

            if (nk < 2) {
                free(copy);
                return 0;
            }
            m->g[g].f[f].name = unhex_str(kv[0]);
            m->g[g].f[f].en = atoi(kv[1]);
            m->g[g].f[f].dep = (nk == 3) ? unhex_str(kv[2]) : NULL;
        }
    }
    if (part[4][0]) {
        m->ni = split(part[4], '+', is, MAXI);
        for (int k = 0; k < m->ni; k++) {
            hat = strchr(is[k], '^');
            m->imp[k].kind = 0;
            if (hat) {
                m->imp[k].kind = hat[1];
                *hat = 0;
            }
            n = split(is[k], '@', kv, 2);
            m->imp[k].name = unhex_str(kv[0]);
            m->imp[k].rev = (n == 2) ? unhex_str(kv[1]) : NULL;
        }
    }
    if (np == 6) {
        int nsg = split(part[5], ';', sg, MAXG + 1);

        m->v11 = atoi(sg[0]);
        for (int g = 0; (g + 1 < nsg) && (g < m->ng); g++) {
            if (!sg[g + 1][0]) {
                continue;
            }
            m->ninc[g] = split(sg[g + 1], '+', ns, MAXG);
            for (int k = 0; k < m->ninc[g]; k++) {
                m->inc[g][k] = atoi(ns[k]);
                if ((m->inc[g][k] < 1) || (m->inc[g][k] >= m->ng)) {
                    free(copy);
                    return 0;
                }
            }
        }
    } else {
        m->v11 = 1;
        m->ninc[0] = m->ng - 1;
        for (int g = 1; g < m->ng; g++) {
            m->inc[0][g - 1] = g;
        }
    }
    free(copy);
    gen_text(m);
    ++NSRC;
    return 1;
}

/* ---------- import callback ---------- */
static LY_ERR
imp_clb(const char *mod_name, const char *mod_rev, const char *submod_name, const char *sub_rev, void *user_data,
        LYS_INFORMAT *format, const char **module_data, void (**free_module_data)(void *model_data, void *user_data))
{
    struct msrc *best = NULL;

    (void)sub_rev; (void)user_data;
    *format = LYS_IN_YANG;
    *free_module_data = NULL;
    if (submod_name) {
        for (int i = 0; i < NSRC; i++) {
            size_t l = strlen(SRC[i].name);

            if (!strncmp(submod_name, SRC[i].name, l) && !strncmp(submod_name + l, "-s", 2)) {
                int g = atoi(submod_name + l + 2);
                char chk[300];

                snprintf(chk, sizeof chk, "%s-s%d", SRC[i].name, g);
                if ((g >= 1) && (g < SRC[i].ng) && !strcmp(chk, submod_name) &&
                        (!mod_name || !strcmp(mod_name, SRC[i].name))) {
                    /* all revisions of a module share the texts of their submodules only when they are equal;
                     * the generator gives submodules to single-revision modules only; prefer the requested one */
                    if (!best || (mod_rev && SRC[i].rev && !strcmp(mod_rev, SRC[i].rev))) {
                        best = &SRC[i];
                        *module_data = SRC[i].subtext[g];
                    }
                }
            }
        }
        return best ? LY_SUCCESS : LY_ENOTFOUND;
    }
    for (int i = 0; i < NSRC; i++) {
        if (strcmp(SRC[i].name, mod_name)) {
            continue;
        }
        if (mod_rev) {
            if (SRC[i].rev && !strcmp(SRC[i].rev, mod_rev)) {
                best = &SRC[i];
                break;
            }
        } else if (!best || (SRC[i].rev && (!best->rev || (strcmp(SRC[i].rev, best->rev) > 0)))) {
            /* the latest revision, as a search directory would serve it */
            best = &SRC[i];
        }
    }
    if (!best) {
        if (!strcmp(mod_name, "ietf-yang-library") && (!mod_rev || !strcmp(mod_rev, "2019-01-04"))) {
            *module_data = (const char *)ietf_yang_library_2019_01_04_yang;
            return LY_SUCCESS;
        }
        if (!strcmp(mod_name, "ietf-datastores") && (!mod_rev || !strcmp(mod_rev, "2018-02-14"))) {
            *module_data = (const char *)ietf_datastores_2018_02_14_yang;
            return LY_SUCCESS;
        }
        return LY_ENOTFOUND;
    }
    *module_data = best->text;
    return LY_SUCCESS;
}

/* ---------- building and reading back a context ---------- */
static const char **
feat_array(const struct msrc *m)
{
    const char **a = calloc(MAXG * MAXF + 1, sizeof *a);
    int n = 0;

    for (int g = 0; g < m->ng; g++) {
        for (int f = 0; f < m->g[g].nf; f++) {
            if (m->g[g].f[f].en) {
                a[n++] = m->g[g].f[f].name;
            }
        }
    }
    return a;
}

/* ---------- search directory holding the generated texts ---------- */
static char SDIR[64];

static void
sdir_write(const char *fname, const char *text)
{
    char path[600];
    FILE *f;

    snprintf(path, sizeof path, "%s/%s", SDIR, fname);
    f = fopen(path, "w");
    if (f) {
        fputs(text, f);
        fclose(f);
    }
}

static const char *
sdir_make(void)
{
    char fn[400];

    if (SDIR[0]) {
        return SDIR;
    }
    strcpy(SDIR, "/tmp/t_yl_XXXXXX");
    if (!mkdtemp(SDIR)) {
        SDIR[0] = 0;
        return NULL;
    }
    for (int i = 0; i < NSRC; i++) {
        if (SRC[i].rev) {
            snprintf(fn, sizeof fn, "%s@%s.yang", SRC[i].name, SRC[i].rev);
        } else {
            snprintf(fn, sizeof fn, "%s.yang", SRC[i].name);
        }
        sdir_write(fn, SRC[i].text);
        for (int g = 1; g < SRC[i].ng; g++) {
            snprintf(fn, sizeof fn, "%s-s%d.yang", SRC[i].name, g);
            sdir_write(fn, SRC[i].subtext[g]);
        }
    }
    sdir_write("ietf-yang-library@2019-01-04.yang", (const char *)ietf_yang_library_2019_01_04_yang);
    sdir_write("ietf-datastores@2018-02-14.yang", (const char *)ietf_datastores_2018_02_14_yang);
    return SDIR;
}

static void
sdir_remove(void)
{
    DIR *d;
    struct dirent *e;
    char path[600];

    if (!SDIR[0]) {
        return;
    }
    d = opendir(SDIR);
    if (d) {
        while ((e = readdir(d))) {
            if (e->d_name[0] != '.') {
                snprintf(path, sizeof path, "%s/%s", SDIR, e->d_name);
                unlink(path);
            }
        }
        closedir(d);
    }
    rmdir(SDIR);
    SDIR[0] = 0;
}

/* src: 'c' import callback, 's' search directory, 'b' both */
static LY_ERR
new_ctx_src(unsigned opts, int src, struct ly_ctx **ctx)
{
    const char *dir = (src != 'c') ? sdir_make() : NULL;
    LY_ERR rc = ly_ctx_new(dir, (uint16_t)(opts | LY_CTX_DISABLE_SEARCHDIR_CWD), ctx);

    if (!rc && (src != 's')) {
        ly_ctx_set_module_imp_clb(*ctx, imp_clb, NULL);
    }
    return rc;
}

static LY_ERR
new_ctx(unsigned opts, struct ly_ctx **ctx)
{
    return new_ctx_src(opts, 'c', ctx);
}

/* load / implement one record; returns LY_ERR */
static LY_ERR
load_rec(struct ly_ctx *ctx, const struct msrc *m, const char **feats)
{
    struct lys_module *mod = ly_ctx_get_module(ctx, m->name, m->rev);

    if (mod) {
        return lys_set_implemented(mod, feats);
    }
    return ly_ctx_load_module(ctx, m->name, m->rev, feats) ? LY_SUCCESS : LY_EOTHER;
}

static LY_ERR
build_ctx_src(unsigned opts, int src, int first, int last, struct ly_ctx **ctx)
{
    LY_ERR rc = new_ctx_src(opts, src, ctx);

    for (int i = first; !rc && (i < last); i++) {
        if (SRC[i].extra || !SRC[i].impl) {
            continue;
        }
        const char **fa = feat_array(&SRC[i]);

        rc = load_rec(*ctx, &SRC[i], fa);
        free(fa);
    }
    if (!rc && (opts & LY_CTX_EXPLICIT_COMPILE)) {
        rc = ly_ctx_compile(*ctx);
    }
    return rc;
}

static void
put_features(struct sbuf *o, const struct lysp_feature *fs)
{
    LY_ARRAY_COUNT_TYPE u;

    LY_ARRAY_FOR(fs, u) {
        if (u) {
            sb_add(o, "+", 1);
        }
        sb_hex(o, fs[u].name);
        sb_fmt(o, ":%d", (fs[u].flags & LYS_FENABLED) ? 1 : 0);
    }
}

/* records of all modules after the internal ones, as the hash function iterates them */
static void
put_records_from(struct sbuf *o, const struct ly_ctx *ctx, uint32_t i)
{
    const struct lys_module *mod;
    int first = 1;
    LY_ARRAY_COUNT_TYPE u;

    while ((mod = ly_ctx_get_module_iter(ctx, &i))) {
        if (!first) {
            sb_add(o, "|", 1);
        }
        first = 0;
        sb_hex(o, mod->name);
        sb_add(o, ",", 1);
        sb_hex(o, mod->revision);
        sb_fmt(o, ",%d,", (int)mod->implemented);
        put_features(o, mod->parsed->features);
        LY_ARRAY_FOR(mod->parsed->includes, u) {
            sb_add(o, ";", 1);
            put_features(o, mod->parsed->includes[u].submodule->features);
        }
    }
    if (first) {
        sb_add(o, "-", 1);
    }
}

static void
put_records(struct sbuf *o, const struct ly_ctx *ctx)
{
    put_records_from(o, ctx, ly_ctx_internal_modules_count(ctx));
}

/* parse the M fields c->f[from..] up to a "/" field or the end; returns the index after the last one consumed
 * (the "/" is consumed), -1 on a malformed record */
static int
parse_records(struct vcase *c, int from)
{
    int i;

    for (i = from; i < c->nf; i++) {
        if (!strcmp(c->f[i], "/")) {
            return i + 1;
        }
        if (!src_parse(c->f[i])) {
            return -1;
        }
    }
    return i;
}

static LY_ERR
build_ctx(unsigned opts, int first, int last, struct ly_ctx **ctx)
{
    return build_ctx_src(opts, 'c', first, last, ctx);
}

/* ---------- yang-library helpers ---------- */
static const char *
child_val(const struct lyd_node *n, const char *name)
{
    const struct lyd_node *ch;

    LY_LIST_FOR(lyd_child(n), ch) {
        if (!strcmp(ch->schema->name, name)) {
            return lyd_get_value(ch);
        }
    }
    return NULL;
}

static void
put_leaflist(struct sbuf *o, const struct lyd_node *n, const char *name)
{
    const struct lyd_node *ch;
    int first = 1;

    LY_LIST_FOR(lyd_child(n), ch) {
        if (!strcmp(ch->schema->name, name)) {
            if (!first) {
                sb_add(o, "+", 1);
            }
            first = 0;
            sb_hex(o, lyd_get_value(ch));
        }
    }
}

/* entries of /yang-library/module-set[name='complete'] in document order */
static void
put_yl_entries(struct sbuf *o, const struct lyd_node *tree)
{
    struct ly_set *set = NULL;
    int first = 1;

    if (lyd_find_xpath(tree, "/ietf-yang-library:yang-library/module-set[1]/*", &set) || !set) {
        sb_add(o, "E", 1);
        return;
    }
    for (uint32_t i = 0; i < set->count; i++) {
        const struct lyd_node *n = set->dnodes[i];
        int is_mod = !strcmp(n->schema->name, "module");

        if (!is_mod && strcmp(n->schema->name, "import-only-module")) {
            continue;
        }
        if (!first) {
            sb_add(o, "|", 1);
        }
        first = 0;
        sb_fmt(o, "%s:", is_mod ? "m" : "i");
        sb_hex(o, child_val(n, "name"));
        sb_add(o, ",", 1);
        sb_hex(o, child_val(n, "revision"));
        sb_add(o, ",", 1);
        sb_hex(o, child_val(n, "namespace"));
        if (is_mod) {
            sb_add(o, ",", 1);
            put_leaflist(o, n, "feature");
            sb_add(o, ",", 1);
            put_leaflist(o, n, "deviation");
        }
        sb_add(o, ",", 1);
        {
            const struct lyd_node *ch;
            int nsub = 0;

            LY_LIST_FOR(lyd_child(n), ch) {
                if (!strcmp(ch->schema->name, "submodule")) {
                    if (nsub++) {
                        sb_add(o, "+", 1);
                    }
                    sb_hex(o, child_val(ch, "name"));
                    sb_add(o, "@", 1);
                    sb_hex(o, child_val(ch, "revision"));
                }
            }
        }
    }
    ly_set_free(set, NULL);
    if (first) {
        sb_add(o, "-", 1);
    }
}

/* the legacy modules-state list agrees with the context: one entry per module with conformance-type */
static int
legacy_ok(const struct lyd_node *tree, const struct ly_ctx *ctx)
{
    struct ly_set *set = NULL;
    int ok = 1;

    if (lyd_find_xpath(tree, "/ietf-yang-library:modules-state/module", &set) || !set) {
        return 0;
    }
    if (set->count != ctx->list.count) {
        ok = 0;
    }
    for (uint32_t i = 0; ok && (i < set->count); i++) {
        const struct lys_module *mod = ctx->list.objs[i];
        const char *nm = child_val(set->dnodes[i], "name"), *rv = child_val(set->dnodes[i], "revision");
        const char *ct = child_val(set->dnodes[i], "conformance-type");

        if (!nm || strcmp(nm, mod->name) || !rv || strcmp(rv, mod->revision ? mod->revision : "") || !ct ||
                strcmp(ct, mod->implemented ? "implement" : "import")) {
            ok = 0;
        }
    }
    ly_set_free(set, NULL);
    return ok;
}

/* 1 when every implemented non-internal module of a has an implemented counterpart in b with the same compiled print,
 * and the other way round */
static int
compiled_equal(const struct ly_ctx *a, const struct ly_ctx *b)
{
    for (int dir = 0; dir < 2; dir++) {
        const struct ly_ctx *x = dir ? b : a, *y = dir ? a : b;
        uint32_t i = 0;
        const struct lys_module *m, *m2;

        while ((m = ly_ctx_get_module_iter(x, &i))) {
            char *p1 = NULL, *p2 = NULL;
            int same;

            if (!m->implemented) {
                continue;
            }
            m2 = ly_ctx_get_module_implemented(y, m->name);
            if (!m2) {
                return 0;
            }
            if (lys_print_mem(&p1, m, LYS_OUT_YANG_COMPILED, 0) || lys_print_mem(&p2, m2, LYS_OUT_YANG_COMPILED, 0)) {
                free(p1);
                free(p2);
                return 0;
            }
            same = !strcmp(p1, p2);
            free(p1);
            free(p2);
            if (!same) {
                return 0;
            }
        }
    }
    return 1;
}

/* ---------- commands ---------- */
static void
cmd_modhash(struct vcase *c, struct sbuf *o)
{
    struct ly_ctx *ctx = NULL;
    unsigned opts = (unsigned)strtoul(c->f[1], NULL, 0);

    if (parse_records(c, 2) < 0) {
        sb_add(o, "?rec", 4);
        return;
    }
    if (build_ctx(opts, 0, NSRC, &ctx)) {
        sb_add(o, "E", 1);
    } else {
        put_records(o, ctx);
        sb_fmt(o, " %u", ly_ctx_get_modules_hash(ctx));
    }
    ly_ctx_destroy(ctx);
}

static void
cmd_hashpair(struct vcase *c, struct sbuf *o)
{
    unsigned opts = (unsigned)strtoul(c->f[1], NULL, 0);
    int next = 2;

    for (int k = 0; k < 2; k++) {
        struct ly_ctx *ctx = NULL;

        src_free();
        next = parse_records(c, next);
        if (next < 0) {
            sb_add(o, "?rec", 4);
            return;
        }
        if (k) {
            sb_add(o, " ", 1);
        }
        if (build_ctx(opts, 0, NSRC, &ctx)) {
            sb_add(o, "E", 1);
        } else {
            sb_fmt(o, "%u", ly_ctx_get_modules_hash(ctx));
        }
        ly_ctx_destroy(ctx);
    }
}

static void
cmd_ccwrap(struct vcase *c, struct sbuf *o)
{
    struct ly_ctx fake;

    memset(&fake, 0, sizeof fake);
    fake.change_count = (uint16_t)strtoul(c->f[1], NULL, 0);
    for (int i = 2; i < c->nf; i++) {
        unsigned long n = strtoul(c->f[i], NULL, 0);

        for (unsigned long k = 0; k < n; k++) {
            fake.change_count++;            /* as tree_schema.c:1937 / schema_compile.c:1720 do */
        }
        sb_fmt(o, "%s%u", (i > 2) ? "," : "", (unsigned)ly_ctx_get_change_count(&fake));
    }
}

static const char **
feat_spec(char *spec, char **store)
{
    const char **a;
    char *fs[MAXG * MAXF];
    int n;

    if (!strcmp(spec, "~")) {
        return NULL;
    }
    a = calloc(MAXG * MAXF + 1, sizeof *a);
    if (!strcmp(spec, "-")) {
        return a;
    }
    if (!strcmp(spec, "*")) {
        a[0] = "*";
        return a;
    }
    n = split(spec, '+', fs, MAXG * MAXF);
    for (int i = 0; i < n; i++) {
        store[i] = unhex_str(fs[i]);
        a[i] = store[i];
    }
    return a;
}

static void
cmd_chg(struct vcase *c, struct sbuf *o)
{
    struct ly_ctx *ctx = NULL;
    unsigned opts = (unsigned)strtoul(c->f[1], NULL, 0);
    int next = parse_records(c, 2);
    struct sbuf before = {0}, after = {0};

    if (next < 0) {
        sb_add(o, "?rec", 4);
        return;
    }
    if (new_ctx(opts, &ctx)) {
        sb_add(o, "E", 1);
        return;
    }
    sb_fmt(o, "%u", (unsigned)ly_ctx_get_change_count(ctx));
    for (int i = next; i < c->nf; i++) {
        char *w[3], *store[MAXG * MAXF] = {0};
        int nw = split(c->f[i], ':', w, 3);
        uint32_t nmod = ctx->list.count;
        unsigned c0 = ly_ctx_get_change_count(ctx), c1;
        LY_ERR rc = LY_EINVAL;

        before.n = 0;
        put_records(&before, ctx);
        if (!strcmp(w[0], "C")) {
            rc = ly_ctx_compile(ctx);
        } else if ((nw == 3) && (atoi(w[1]) >= 0) && (atoi(w[1]) < NSRC)) {
            const struct msrc *m = &SRC[atoi(w[1])];
            const char **fa = feat_spec(w[2], store);

            if (!strcmp(w[0], "L")) {
                rc = ly_ctx_load_module(ctx, m->name, m->rev, fa) ? LY_SUCCESS : LY_EOTHER;
            } else if (!strcmp(w[0], "I")) {
                struct lys_module *mod = ly_ctx_get_module(ctx, m->name, m->rev);

                rc = mod ? lys_set_implemented(mod, fa) : LY_ENOTFOUND;
            }
            free(fa);
            for (int k = 0; k < MAXG * MAXF; k++) {
                free(store[k]);
            }
        }
        c1 = ly_ctx_get_change_count(ctx);
        after.n = 0;
        put_records(&after, ctx);
        sb_fmt(o, " %d:%u:%u:%u:%d", (int)rc, c0, c1, (unsigned)(ctx->list.count - nmod), strcmp(before.s, after.s) ? 1 : 0);
        ly_err_clean(ctx, NULL);
    }
    free(before.s);
    free(after.s);
    ly_ctx_destroy(ctx);
}

/* "Q:idx:features" fields: feature changes of the ORIGINAL context after all loads */
static char *QF[16];
static int NQ;

/* fields "X:..." / "P:..." / "Q:..." between the options and the records; returns the index of the first record */
static int
skip_specs(struct vcase *c, int from, char **xspec, char **pf, int *np)
{
    int i = from;

    NQ = 0;
    *np = 0;
    if (xspec) {
        *xspec = NULL;
    }
    for ( ; i < c->nf; i++) {
        if (!strncmp(c->f[i], "X:", 2) && xspec) {
            *xspec = c->f[i];
        } else if (!strncmp(c->f[i], "P:", 2) && (*np < 16)) {
            pf[(*np)++] = c->f[i];
        } else if (!strncmp(c->f[i], "Q:", 2) && (NQ < 16)) {
            QF[NQ++] = c->f[i];
        } else {
            break;
        }
    }
    return i;
}

/* P:idx:features -> ly_ctx_load_module() on ctx; the results are printed joined by , (- when there are none) */
static void
apply_preops(struct ly_ctx *ctx, char **pf, int np, struct sbuf *o)
{
    for (int i = 0; i < np; i++) {
        char *w[3], *store[MAXG * MAXF] = {0}, *copy = strdup(pf[i]);
        LY_ERR rc = LY_EINVAL;

        if ((split(copy, ':', w, 3) == 3) && (atoi(w[1]) >= 0) && (atoi(w[1]) < NSRC)) {
            const struct msrc *m = &SRC[atoi(w[1])];
            const char **fa = feat_spec(w[2], store);

            rc = ly_ctx_load_module(ctx, m->name, m->rev, fa) ? LY_SUCCESS : LY_EOTHER;
            free(fa);
            for (int k = 0; k < MAXG * MAXF; k++) {
                free(store[k]);
            }
        }
        free(copy);
        if (o) {
            sb_fmt(o, "%s%d", i ? "," : "", rc ? 1 : 0);
        }
        ly_err_clean(ctx, NULL);
    }
    if (!np && o) {
        sb_add(o, "-", 1);
    }
}

/* Q:idx:features -> lys_set_implemented() (ly_ctx_load_module() when the module is not there) on the original context */
static void
apply_postops(struct ly_ctx *ctx, unsigned opts)
{
    for (int i = 0; i < NQ; i++) {
        char *w[3], *store[MAXG * MAXF] = {0}, *copy = strdup(QF[i]);

        if ((split(copy, ':', w, 3) == 3) && (atoi(w[1]) >= 0) && (atoi(w[1]) < NSRC)) {
            const struct msrc *m = &SRC[atoi(w[1])];
            const char **fa = feat_spec(w[2], store);

            load_rec(ctx, m, fa);
            free(fa);
            for (int k = 0; k < MAXG * MAXF; k++) {
                free(store[k]);
            }
        }
        free(copy);
        ly_err_clean(ctx, NULL);
    }
    if (NQ && (opts & LY_CTX_EXPLICIT_COMPILE)) {
        ly_ctx_compile(ctx);
    }
}

static int
cmp_line(const void *a, const void *b)
{
    return strcmp(*(char * const *)a, *(char * const *)b);
}

/* 1 when the two texts have the same multiset of lines */
static int
same_lines(char *t1, char *t2)
{
    char *t[2] = {t1, t2}, **ln[2];
    size_t n[2] = {0, 0};
    int same;

    for (int k = 0; k < 2; k++) {
        size_t cap = 64;

        ln[k] = malloc(cap * sizeof *ln[k]);
        for (char *p = strtok(t[k], "\n"); p; p = strtok(NULL, "\n")) {
            if (n[k] == cap) {
                cap *= 2;
                ln[k] = realloc(ln[k], cap * sizeof *ln[k]);
            }
            ln[k][n[k]++] = p;
        }
        qsort(ln[k], n[k], sizeof *ln[k], cmp_line);
    }
    same = (n[0] == n[1]);
    for (size_t i = 0; same && (i < n[0]); i++) {
        same = !strcmp(ln[0][i], ln[1][i]);
    }
    free(ln[0]);
    free(ln[1]);
    return same;
}

/* hex names (joined by +) of the modules implemented in a whose implemented namesake in b is missing or has another
 * compiled print; a name is followed by ~ when the two prints consist of the same lines in another order */
static void
put_compiled_diff(struct sbuf *o, const struct ly_ctx *a, const struct ly_ctx *b)
{
    uint32_t i = 0;
    const struct lys_module *m, *m2;
    int first = 1;

    while ((m = ly_ctx_get_module_iter(a, &i))) {
        char *p1 = NULL, *p2 = NULL;
        int same = 0;

        if (!m->implemented) {
            continue;
        }
        m2 = ly_ctx_get_module_implemented(b, m->name);
        if (m2 && !lys_print_mem(&p1, m, LYS_OUT_YANG_COMPILED, 0) && !lys_print_mem(&p2, m2, LYS_OUT_YANG_COMPILED, 0)) {
            same = !strcmp(p1, p2);
        }
        if (!same && getenv("LYX_DEBUG")) {
            fprintf(stderr, "COMPILED %s original:\n%s\nrebuilt:\n%s\n", m->name, p1 ? p1 : "(none)", p2 ? p2 : "(none)");
        }
        if (!same) {
            if (!first) {
                sb_add(o, "+", 1);
            }
            first = 0;
            sb_hex(o, m->name);
            if (p1 && p2 && same_lines(p1, p2)) {
                sb_add(o, "~", 1);
            }
        }
        free(p1);
        free(p2);
    }
    if (first) {
        sb_add(o, "-", 1);
    }
}

/* name,rev,features,submodules of every module / import-only-module entry of the first module-set, joined by |;
 * features joined by +, submodules as name@rev joined by + */
static void
put_yl_desc(struct sbuf *o, const struct lyd_node *tree)
{
    struct ly_set *set = NULL;
    int first = 1;

    if (lyd_find_xpath(tree, "/ietf-yang-library:yang-library/module-set[1]/*", &set) || !set) {
        sb_add(o, "E", 1);
        return;
    }
    for (uint32_t i = 0; i < set->count; i++) {
        const struct lyd_node *n = set->dnodes[i], *ch;
        int nsub = 0;

        if (strcmp(n->schema->name, "module") && strcmp(n->schema->name, "import-only-module")) {
            continue;
        }
        if (!first) {
            sb_add(o, "|", 1);
        }
        first = 0;
        sb_hex(o, child_val(n, "name"));
        sb_add(o, ",", 1);
        sb_hex(o, child_val(n, "revision"));
        sb_add(o, ",", 1);
        put_leaflist(o, n, "feature");
        sb_add(o, ",", 1);
        LY_LIST_FOR(lyd_child(n), ch) {
            if (!strcmp(ch->schema->name, "submodule")) {
                if (nsub++) {
                    sb_add(o, "+", 1);
                }
                sb_hex(o, child_val(ch, "name"));
                sb_add(o, "@", 1);
                sb_hex(o, child_val(ch, "revision"));
            }
        }
    }
    ly_set_free(set, NULL);
    if (first) {
        sb_add(o, "-", 1);
    }
}

/* the same read from the context: enabled features by lys_feature_value() over all features of module and
 * submodules (implemented modules), all includes with their revisions */
static void
put_ctx_truth(struct sbuf *o, const struct ly_ctx *ctx)
{
    uint32_t i = 0, fi;
    const struct lys_module *mod;
    struct lysp_feature *f;
    LY_ARRAY_COUNT_TYPE u;
    int first = 1, n;

    while ((mod = ly_ctx_get_module_iter(ctx, &i))) {
        if (!first) {
            sb_add(o, "|", 1);
        }
        first = 0;
        sb_hex(o, mod->name);
        sb_add(o, ",", 1);
        sb_hex(o, mod->revision);
        sb_add(o, ",", 1);
        n = 0;
        f = NULL;
        fi = 0;
        while (mod->implemented && (f = lysp_feature_next(f, mod->parsed, &fi))) {
            if (lys_feature_value(mod, f->name) == LY_SUCCESS) {
                if (n++) {
                    sb_add(o, "+", 1);
                }
                sb_hex(o, f->name);
            }
        }
        sb_add(o, ",", 1);
        LY_ARRAY_FOR(mod->parsed->includes, u) {
            const struct lysp_submodule *sm = mod->parsed->includes[u].submodule;

            if (u) {
                sb_add(o, "+", 1);
            }
            sb_hex(o, sm->name);
            sb_add(o, "@", 1);
            sb_hex(o, sm->revs ? sm->revs[0].date : NULL);
        }
    }
}

static void
cmd_ylx(struct vcase *c, struct sbuf *o)
{
    struct ly_ctx *a = NULL, *b = NULL, *v = NULL;
    unsigned oopts = (unsigned)strtoul(c->f[1], NULL, 0), ropts = 0;
    struct lyd_node *yl = NULL, *yl2 = NULL;
    char *xspec = NULL, *pf[16], *xw[6], *text = NULL, *json = NULL, *xcopy = NULL;
    const char *entry = "mj", *sd = NULL;
    int np = 0, first, osrc = 'c', rsrc = 'c', target = 'e';
    LY_ERR rc;
    struct sbuf pre = {0};
    LYD_FORMAT fmt;

    first = skip_specs(c, 2, &xspec, pf, &np);
    if (xspec) {
        xcopy = strdup(xspec);
        if (split(xcopy, ':', xw, 6) == 6) {
            ropts = (unsigned)strtoul(xw[1], NULL, 0);
            entry = xw[2];
            osrc = xw[3][0];
            rsrc = xw[4][0];
            target = xw[5][0];
        }
    }
    if ((target == 'n') && (rsrc != 's')) {
        sb_add(o, "?spec", 5);
        goto cleanup;
    }
    if (parse_records(c, first) < 0) {
        sb_add(o, "?rec", 4);
        goto cleanup;
    }
    if (build_ctx_src(oopts, osrc, 0, NSRC, &a)) {
        sb_add(o, "E", 1);
        goto cleanup;
    }
    apply_postops(a, oopts);
    if (ly_ctx_get_yanglib_data(a, &yl, "%u", ly_ctx_get_modules_hash(a))) {
        sb_add(o, "Eyl", 3);
        goto cleanup;
    }
    if (lyd_print_mem(&json, yl, LYD_JSON, LYD_PRINT_WITHSIBLINGS)) {
        sb_add(o, "Eprint", 6);
        goto cleanup;
    }
    if (ly_ctx_new(NULL, LY_CTX_DISABLE_SEARCHDIR_CWD, &v)) {
        sb_add(o, "Ectx", 4);
        goto cleanup;
    }
    rc = lyd_parse_data_mem(v, json, LYD_JSON, LYD_PARSE_STRICT, LYD_VALIDATE_PRESENT, &yl2);
    sb_fmt(o, "%d", (int)rc);

    /* the rebuilding context */
    if (target == 'e') {
        if (new_ctx_src(ropts, rsrc, &b)) {
            sb_add(o, " Ectx", 5);
            goto cleanup;
        }
        apply_preops(b, pf, np, &pre);
        if (np && (ropts & LY_CTX_EXPLICIT_COMPILE)) {
            ly_ctx_compile(b);
        }
    } else {
        sd = sdir_make();
        sb_add(&pre, "-", 1);
    }
    fmt = (entry[1] == 'x') ? LYD_XML : LYD_JSON;
    if (entry[0] == 'd') {
        rc = ly_ctx_new_yldata(sd, yl, (int)(ropts | LY_CTX_DISABLE_SEARCHDIR_CWD), &b);
    } else {
        if (lyd_print_mem(&text, yl, fmt, LYD_PRINT_WITHSIBLINGS)) {
            sb_add(o, " Eprint", 7);
            goto cleanup;
        }
        if (entry[0] == 'p') {
            char path[600];
            FILE *f;

            snprintf(path, sizeof path, "%s/yl-data.%s", sdir_make(), (fmt == LYD_XML) ? "xml" : "json");
            f = fopen(path, "w");
            if (f) {
                fputs(text, f);
                fclose(f);
            }
            rc = ly_ctx_new_ylpath(sd, path, fmt, (int)(ropts | LY_CTX_DISABLE_SEARCHDIR_CWD), &b);
        } else {
            rc = ly_ctx_new_ylmem(sd, text, fmt, (int)(ropts | LY_CTX_DISABLE_SEARCHDIR_CWD), &b);
        }
    }
    sb_fmt(o, " %d # ", (int)rc);
    if (rc || !b) {
        if (target == 'n') {
            b = NULL;
        }
        sb_fmt(o, "- %s ", pre.s);
        put_records_from(o, a, 0);
        sb_add(o, " - ", 3);
        put_yl_desc(o, yl2);
        sb_add(o, " ", 1);
        put_ctx_truth(o, a);
        sb_fmt(o, " %u -", ly_ctx_get_modules_hash(a));
        goto cleanup;
    }
    put_compiled_diff(o, a, b);
    sb_fmt(o, " %s ", pre.s);
    put_records_from(o, a, 0);
    sb_add(o, " ", 1);
    put_records_from(o, b, 0);
    sb_add(o, " ", 1);
    put_yl_desc(o, yl2);
    sb_add(o, " ", 1);
    put_ctx_truth(o, a);
    sb_fmt(o, " %u %u", ly_ctx_get_modules_hash(a), ly_ctx_get_modules_hash(b));

cleanup:
    free(xcopy);
    free(text);
    free(json);
    free(pre.s);
    lyd_free_all(yl);
    lyd_free_all(yl2);
    ly_ctx_destroy(a);
    ly_ctx_destroy(b);
    ly_ctx_destroy(v);
}

static void
cmd_ylrt(struct vcase *c, struct sbuf *o)
{
    struct ly_ctx *a = NULL, *b = NULL, *v = NULL;
    unsigned opts = (unsigned)strtoul(c->f[1], NULL, 0);
    struct lyd_node *yl = NULL, *yl2 = NULL;
    char *json = NULL;
    LY_ERR rc;
    uint32_t ha;
    char *pf[16];
    int np = 0, first = skip_specs(c, 2, NULL, pf, &np);

    if (parse_records(c, first) < 0) {
        sb_add(o, "?rec", 4);
        return;
    }
    if (build_ctx(opts, 0, NSRC, &a)) {
        sb_add(o, "E", 1);
        goto cleanup;
    }
    apply_postops(a, opts);
    ha = ly_ctx_get_modules_hash(a);
    if (ly_ctx_get_yanglib_data(a, &yl, "%u", ha)) {
        sb_add(o, "Eyl", 3);
        goto cleanup;
    }
    if (lyd_print_mem(&json, yl, LYD_JSON, LYD_PRINT_WITHSIBLINGS)) {
        sb_add(o, "Eprint", 6);
        goto cleanup;
    }
    if (getenv("LYX_DEBUG")) {
        fprintf(stderr, "%s\n", json);
    }
    /* the data are valid for ietf-yang-library: parse with validation in an independent context */
    if (ly_ctx_new(NULL, LY_CTX_DISABLE_SEARCHDIR_CWD, &v)) {
        sb_add(o, "Ectx", 4);
        goto cleanup;
    }
    rc = lyd_parse_data_mem(v, json, LYD_JSON, LYD_PARSE_STRICT, LYD_VALIDATE_PRESENT, &yl2);
    if (rc) {
        sb_fmt(o, "- %d", (int)rc);
        goto cleanup;
    }
    put_yl_entries(o, yl2);
    rc = lyd_validate_all(&yl2, NULL, LYD_VALIDATE_PRESENT, NULL);
    sb_fmt(o, " %d", (int)rc);

    /* rebuild from the printed data with the same sources */
    if (new_ctx(opts & ~(unsigned)LY_CTX_EXPLICIT_COMPILE, &b)) {
        sb_add(o, " Ectx", 5);
        goto cleanup;
    }
    apply_preops(b, pf, np, NULL);
    rc = ly_ctx_new_ylmem(NULL, json, LYD_JSON, (int)(opts & ~(unsigned)LY_CTX_EXPLICIT_COMPILE), &b);
    sb_fmt(o, " %d ", (int)rc);
    if (rc) {
        sb_add(o, "-", 1);
        goto cleanup;
    }
    put_records(o, b);
    {
        const char *cid = NULL;
        struct ly_set *set = NULL;
        char want[32];

        snprintf(want, sizeof want, "%u", ha);
        if (!lyd_find_xpath(yl2, "/ietf-yang-library:yang-library/content-id", &set) && set && (set->count == 1)) {
            cid = lyd_get_value(set->dnodes[0]);
        }
        sb_fmt(o, " # %d %d %d %d ", compiled_equal(a, b), (ha == ly_ctx_get_modules_hash(b)) ? 1 : 0,
                (cid && !strcmp(cid, want)) ? 1 : 0, legacy_ok(yl, a));
        put_records(o, a);
        ly_set_free(set, NULL);
    }

cleanup:
    free(json);
    lyd_free_all(yl);
    lyd_free_all(yl2);
    ly_ctx_destroy(a);
    ly_ctx_destroy(b);
    ly_ctx_destroy(v);
}

int
main(void)
{
    struct vcase c;

    ly_set_log_clb(log_cb);
    ly_log_options(LY_LOLOG | LY_LOSTORE_LAST);
    while (vnext(&c)) {
        struct sbuf o = {0};
        const char *comp = c.f[0];

        sb_add(&o, "", 0);
        if (!strcmp(comp, "modhash") && (c.nf >= 2)) {
            cmd_modhash(&c, &o);
        } else if (!strcmp(comp, "hashpair") && (c.nf >= 2)) {
            cmd_hashpair(&c, &o);
        } else if (!strcmp(comp, "ccwrap") && (c.nf >= 2)) {
            cmd_ccwrap(&c, &o);
        } else if (!strcmp(comp, "chg") && (c.nf >= 2)) {
            cmd_chg(&c, &o);
        } else if (!strcmp(comp, "ylrt") && (c.nf >= 2)) {
            cmd_ylrt(&c, &o);
        } else if (!strcmp(comp, "ylx") && (c.nf >= 2)) {
            cmd_ylx(&c, &o);
        } else {
            sb_add(&o, "?", 1);
        }
        src_free();
        sdir_remove();
        fputs(o.s, stdout);
        free(o.s);
        VEND();
    }
    return 0;
}
