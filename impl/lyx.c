/* lyx.c — script interpreter over the libyang API (public API plus read-only white-box checks).
 *
 * One case = one input line: "lyx" TAB cmd TAB cmd ... ; a command is a space separated list of
 * words; byte strings are hex ("-" empty, "~" NULL). Every case starts from an empty state
 * (no contexts, no trees) and everything is freed at the end of the case; the output line holds
 * one result per command separated by " | ", then the end-of-case summary "end:<leaked dict
 * strings>:<log warnings about not freed strings>".
 *
 * Slots: contexts c0..c7, trees t0..t31 (a slot holds the FIRST sibling of a forest or NULL).
 * A node is addressed as  t<k>#<i>  = i-th node of the forest in DFS pre-order (0-based).
 */
#include "common.h"

#include <assert.h>
#include <ctype.h>
#include <errno.h>
#include <math.h>

#include "libyang.h"
#include "ly_common.h"
#include "hash_table_internal.h"
#include "tree_data_internal.h"
#include "tree_schema_internal.h"
#include "plugins_exts/metadata.h"
#include "tree_data_sorted.h"
#include "context.h"
#include "dict.h"

#define NCTX 8
#define NTREE 32

static struct ly_ctx *C[NCTX];
static struct lyd_node *T[NTREE];
static int notfreed_warn;

static void
log_cb(LY_LOG_LEVEL level, const char *msg, const char *data_path, const char *schema_path, uint64_t line)
{
    (void)level; (void)schema_path; (void)line;
    if (getenv("LYX_DEBUG")) {
        fprintf(stderr, "LOG: %s (%s)\n", msg, data_path ? data_path : "");
    }
    if (msg && strstr(msg, "not freed")) {
        ++notfreed_warn;
    }
}

/* ---------- small dynamic string ---------- */
struct sbuf {
    char *s;
    size_t n, cap;
};

static void
sb_add(struct sbuf *b, const char *p, size_t n)
{
    if (b->n + n + 1 > b->cap) {
        b->cap = (b->n + n + 1) * 2;
        b->s = realloc(b->s, b->cap);
    }
    memcpy(b->s + b->n, p, n);
    b->n += n;
    b->s[b->n] = 0;
}

static void
sb_str(struct sbuf *b, const char *p)
{
    sb_add(b, p, strlen(p));
}

static void
sb_hex(struct sbuf *b, const char *p, size_t n)
{
    char t[3];

    if (!p) {
        sb_str(b, "~");
        return;
    }
    if (!n) {
        sb_str(b, "-");
        return;
    }
    for (size_t i = 0; i < n; i++) {
        snprintf(t, sizeof t, "%02x", (unsigned char)p[i]);
        sb_add(b, t, 2);
    }
}

static void
sb_fmt(struct sbuf *b, const char *fmt, ...)
{
    char tmp[512];
    va_list ap;

    va_start(ap, fmt);
    vsnprintf(tmp, sizeof tmp, fmt, ap);
    va_end(ap);
    sb_str(b, tmp);
}

/* "~<class of the last error message>" after a failing call: the message without its quoted parts, lower case,
 * other characters as '-' (so that findings can be told apart by the error, not only by the return code) */
static void
sb_errclass(struct sbuf *o, const struct ly_ctx *ctx)
{
    const struct ly_err_item *e = ctx ? ly_err_last(ctx) : NULL;
    const char *m = e ? e->msg : NULL;
    char buf[64];
    size_t n = 0;
    int inq = 0;

    if (!m) {
        return;
    }
    for ( ; *m && (n < sizeof buf - 1); ++m) {
        if (*m == '"') {
            inq = !inq;
            continue;
        }
        if (inq) {
            continue;
        }
        if (isalnum((unsigned char)*m)) {
            buf[n++] = (char)tolower((unsigned char)*m);
        } else if (n && (buf[n - 1] != '-')) {
            buf[n++] = '-';
        }
    }
    while (n && (buf[n - 1] == '-')) {
        --n;
    }
    buf[n] = 0;
    sb_str(o, "~");
    sb_str(o, buf);
}

/* ---------- argument helpers ---------- */
static char *
arg_str(const char *w)
{
    /* "~" -> NULL, "-" -> "", else hex */
    if (!strcmp(w, "~")) {
        return NULL;
    }
    return vunhex(w, NULL);
}

static int
slot_c(const char *w)
{
    return (w[0] == 'c') ? atoi(w + 1) % NCTX : 0;
}

static int
slot_t(const char *w)
{
    return (w[0] == 't') ? atoi(w + 1) % NTREE : 0;
}

static struct lyd_node *
dfs_next(struct lyd_node *n)
{
    struct lyd_node *c = lyd_child(n);

    if (c) {
        return c;
    }
    while (n) {
        if (n->next) {
            return n->next;
        }
        n = lyd_parent(n);
    }
    return NULL;
}

/* node by "t<k>#<i>" (or "t<k>" = first node); NULL if out of range */
static struct lyd_node *
node_at(const char *w)
{
    int k = slot_t(w);
    const char *h = strchr(w, '#');
    long i = h ? atol(h + 1) : 0;
    struct lyd_node *n = T[k];

    while (n && i--) {
        n = dfs_next(n);
    }
    return n;
}

static long
node_index(int k, const struct lyd_node *target)
{
    long i = 0;

    for (struct lyd_node *n = T[k]; n; n = dfs_next(n), ++i) {
        if (n == target) {
            return i;
        }
    }
    return -1;
}

/* keep slot pointing at the first sibling after an operation that may have changed it */
static void
fix_first(int k)
{
    if (T[k]) {
        while (T[k]->prev->next) {
            T[k] = T[k]->prev;
        }
    }
}

static void
err_info(struct sbuf *o, const struct ly_ctx *ctx, LY_ERR rc)
{
    const struct ly_err_item *e;

    sb_fmt(o, "%d", (int)rc);
    if (rc && ctx && (e = ly_err_last(ctx))) {
        sb_fmt(o, "/%d/", (int)e->vecode);
        sb_str(o, e->apptag ? e->apptag : "-");
    }
}

/* ---------- canonical dump ---------- */
#define DUMP_NEWFLAG 0x1
#define DUMP_NOFLAGS 0x2
#define DUMP_NOMETA 0x4
#define DUMP_ISDFLT 0x8

static void
dump_node(struct sbuf *o, const struct lyd_node *n, int depth, int opts)
{
    const struct lyd_node *c;

    for ( ; n; n = n->next) {
        sb_fmt(o, "%d:", depth);
        if (n->schema) {
            sb_fmt(o, "%s:%s:", n->schema->module->name, n->schema->name);
            if (n->schema->nodetype & LYD_NODE_TERM) {
                const char *v = lyd_get_value(n);

                sb_str(o, "=");
                sb_hex(o, v, v ? strlen(v) : 0);
            } else if (n->schema->nodetype & LYD_NODE_ANY) {
                char *vs = NULL;

                sb_str(o, "a");
                if (!lyd_any_value_str(n, &vs) && vs) {
                    sb_hex(o, vs, strlen(vs));
                }
                free(vs);
            } else {
                sb_str(o, "i");
            }
            if (!(opts & DUMP_NOFLAGS)) {
                sb_str(o, ":");
                if (n->flags & LYD_DEFAULT) {
                    sb_str(o, "d");
                }
                if ((opts & DUMP_NEWFLAG) && (n->flags & LYD_NEW)) {
                    sb_str(o, "n");
                }
                if (n->schema->flags & LYS_CONFIG_R) {
                    sb_str(o, "s");
                }
                if ((opts & DUMP_ISDFLT) && (n->schema->nodetype & LYD_NODE_TERM) && lyd_is_default(n)) {
                    sb_str(o, "D");
                }
            }
            if (!(opts & DUMP_NOMETA)) {
                for (const struct lyd_meta *m = n->meta; m; m = m->next) {
                    const char *mv = lyd_get_meta_value(m);

                    if (lyd_meta_is_internal(m)) {
                        continue;
                    }
                    sb_fmt(o, ":@%s:%s=", m->annotation->module->name, m->name);
                    sb_hex(o, mv, mv ? strlen(mv) : 0);
                }
            }
        } else {
            const struct lyd_node_opaq *q = (const struct lyd_node_opaq *)n;

            sb_fmt(o, "?%s:%s:o", q->name.module_ns ? q->name.module_ns : "", q->name.name);
            sb_hex(o, q->value, q->value ? strlen(q->value) : 0);
            for (const struct lyd_attr *a = q->attr; a; a = a->next) {
                sb_fmt(o, ":@%s:%s=", a->name.module_ns ? a->name.module_ns : "", a->name.name);
                sb_hex(o, a->value, a->value ? strlen(a->value) : 0);
            }
        }
        sb_str(o, ";");
        if ((c = lyd_child(n))) {
            dump_node(o, c, depth + 1, opts);
        }
    }
}

/* ---------- C04 invariants (read only) ---------- */
static int
cmp_ptr(const void *a, const void *b)
{
    const void *x = *(void * const *)a, *y = *(void * const *)b;

    return (x < y) ? -1 : (x > y);
}

/* schema-order index of a data node's schema among the possible children of its parent */
static long
schema_pos(const struct lyd_node *n)
{
    const struct lysc_node *s = NULL, *par = n->schema->parent;
    const struct lys_module *mod = n->schema->module;
    long i = 0;
    uint32_t getnext = (n->schema->flags & LYS_IS_OUTPUT) ? LYS_GETNEXT_OUTPUT : 0;

    while (par && (par->nodetype & (LYS_CHOICE | LYS_CASE))) {
        par = par->parent;
    }
    while ((s = lys_getnext(s, par, par ? NULL : mod->compiled, getnext))) {
        if (s == n->schema) {
            return i;
        }
        ++i;
    }
    return -1;
}

static const char *
inv_siblings(const struct lyd_node *first, const struct lyd_node *parent, struct sbuf *why)
{
    const struct lyd_node *n, *prev = NULL, *last = NULL;
    long cnt = 0;

    if (!first) {
        return NULL;
    }
    if (first->prev->next) {
        return "first->prev is not the last sibling";
    }
    for (n = first; n; n = n->next) {
        if (lyd_parent(n) != parent) {
            return "parent pointer mismatch";
        }
        if (prev && (n->prev != prev)) {
            return "prev pointer mismatch";
        }
        prev = n;
        last = n;
        ++cnt;
    }
    if (first->prev != last) {
        return "first->prev != last";
    }
    /* order: schema order / module order, opaque last, instances contiguous */
    for (n = first; n && n->next; n = n->next) {
        const struct lyd_node *m = n->next;

        if (!n->schema && m->schema) {
            return "opaque node before a schema node";
        }
        if (!n->schema || !m->schema) {
            continue;
        }
        if (n->schema == m->schema) {
            continue;
        }
        if (!parent && (lyd_owner_module(n) != lyd_owner_module(m))) {
            /* top level: modules are not interleaved */
            for (const struct lyd_node *k = m->next; k; k = k->next) {
                if (k->schema && (lyd_owner_module(k) == lyd_owner_module(n))) {
                    return "top-level nodes of one module are not contiguous";
                }
            }
            continue;
        }
        if ((n->flags & LYD_EXT) || (m->flags & LYD_EXT)) {
            continue;
        }
        if ((n->schema->flags & LYS_KEY) && !(m->schema->flags & LYS_KEY)) {
            continue;
        }
        if (!(n->schema->flags & LYS_KEY) && (m->schema->flags & LYS_KEY)) {
            return "key after a non-key";
        }
        if (n->schema->module == m->schema->module || parent) {
            long a = schema_pos(n), b = schema_pos(m);

            if ((a >= 0) && (b >= 0) && (a > b)) {
                sb_fmt(why, "%s before %s", n->schema->name, m->schema->name);
                return "siblings not in schema order";
            }
        }
        /* contiguity */
        for (const struct lyd_node *k = m->next; k; k = k->next) {
            if (k->schema == n->schema) {
                sb_fmt(why, "%s", n->schema->name);
                return "instances of one schema node are not contiguous";
            }
        }
    }
    /* system-ordered (leaf-)lists sorted by the type's sort callback / keys */
    for (n = first; n && n->next; n = n->next) {
        const struct lyd_node *m = n->next;

        if (n->schema && (n->schema == m->schema) && lyds_is_supported((struct lyd_node *)n)) {
            if (lyds_compare_single((struct lyd_node *)n, (struct lyd_node *)m) > 0) {
                sb_fmt(why, "%s", n->schema->name);
                return "system-ordered instances not sorted";
            }
        }
    }
    /* searches agree with a scan */
    for (n = first; n; n = n->next) {
        struct lyd_node *match = NULL;
        const struct lyd_node *scan = NULL;

        if (!n->schema) {
            continue;
        }
        /* first node that compares equal by a manual scan */
        for (const struct lyd_node *k = first; k; k = k->next) {
            if (k->schema == n->schema) {
                if ((n->schema->nodetype & (LYS_LIST | LYS_LEAFLIST)) && lyd_compare_single(k, n, 0)) {
                    continue;
                }
                scan = k;
                break;
            }
        }
        /* with duplicate instances (not yet validated data) any equal instance is a correct answer */
        if (lyd_find_sibling_first(first, n, &match) || ((match != scan) &&
                !(match && (match->schema == n->schema) && (!(n->schema->nodetype & (LYS_LIST | LYS_LEAFLIST)) || !lyd_compare_single(match, n, 0))))) {
            if ((n->schema->nodetype == LYS_LIST) && (n->schema->flags & LYS_KEYLESS)) {
                /* keyless lists are never found */
            } else {
                sb_fmt(why, "%s", n->schema->name);
                return "lyd_find_sibling_first disagrees with a scan";
            }
        }
        /* by schema: first instance */
        scan = NULL;
        for (const struct lyd_node *k = first; k; k = k->next) {
            if (k->schema == n->schema) {
                scan = k;
                break;
            }
        }
        match = NULL;
        if (lyd_find_sibling_val(first, n->schema, NULL, 0, &match) == LY_SUCCESS) {
            if ((n->schema->nodetype & (LYS_CONTAINER | LYS_LEAF | LYS_ANYDATA | LYS_ANYXML | LYS_NOTIF | LYS_RPC | LYS_ACTION)) && (match != scan)) {
                return "lyd_find_sibling_val(by schema) disagrees with a scan";
            }
        } else if (n->schema->nodetype & (LYS_CONTAINER | LYS_LEAF)) {
            return "lyd_find_sibling_val(by schema) does not find an existing node";
        }
    }
    /* children hash table content */
    if (parent && (parent->schema) && (parent->schema->nodetype & (LYS_CONTAINER | LYS_LIST | LYS_RPC | LYS_ACTION | LYS_NOTIF))) {
        const struct lyd_node_inner *in = (const struct lyd_node_inner *)parent;

        if (in->children_ht) {
            /* every schema child must be findable by its own hash, and the number of records must be
             * (#schema children) + (#distinct (leaf-)list schemas) */
            long schema_children = 0, lists = 0;
            const struct lyd_node *k;

            for (n = first; n; n = n->next) {
                if (!n->schema) {
                    continue;
                }
                ++schema_children;
                if (n->schema->nodetype & (LYS_LIST | LYS_LEAFLIST)) {
                    for (k = first; k != n; k = k->next) {
                        if (k->schema == n->schema) {
                            break;
                        }
                    }
                    if (k == n) {
                        ++lists;
                    }
                }
            }
            if ((long)in->children_ht->used != schema_children + lists) {
                sb_fmt(why, "used=%u expected=%ld", in->children_ht->used, schema_children + lists);
                return "children_ht record count differs from the children";
            }
            /* every record points to a current child */
            uint32_t hl, ri;
            struct ly_ht_rec *rec;

            LYHT_ITER_ALL_RECS(in->children_ht, hl, ri, rec) {
                struct lyd_node *p = *(struct lyd_node **)rec->val;
                int found = 0;

                for (k = first; k; k = k->next) {
                    if (k == p) {
                        found = 1;
                        break;
                    }
                }
                if (!found) {
                    return "children_ht holds a record of a node that is not a child";
                }
                if ((rec->hash != p->hash) && !(p->schema->nodetype & (LYS_LIST | LYS_LEAFLIST))) {
                    return "children_ht record hash differs from the node hash";
                }
            }
        } else if (cnt >= LYD_HT_MIN_ITEMS + 8) {
            /* table is created lazily on insert of the LYD_HT_MIN_ITEMS-th child; tolerated absent */
        }
    }
    for (n = first; n; n = n->next) {
        const char *r;

        if (n->schema && (n->schema->nodetype & LYD_NODE_INNER)) {
            if ((r = inv_siblings(lyd_child(n), n, why))) {
                return r;
            }
        }
    }
    return NULL;
}

/* ---------- features argument ---------- */
static const char **
feat_list(char *w)
{
    static const char *f[32];
    int n = 0;

    if (!strcmp(w, "-")) {
        f[0] = NULL;
        return f;
    }
    for (char *p = strtok(w, ","); p && (n < 31); p = strtok(NULL, ",")) {
        f[n++] = p;
    }
    f[n] = NULL;
    return f;
}

static LYD_FORMAT
fmt_of(const char *w)
{
    switch (w[0]) {
    case 'x':
        return LYD_XML;
    case 'j':
        return LYD_JSON;
    case 'b':
        return LYD_LYB;
    }
    return LYD_UNKNOWN;
}

static void
xval_out(struct sbuf *o, int k, LY_ERR rc, const struct ly_ctx *ctx, struct ly_set *set, char *str, long double num,
        ly_bool b, LY_XPATH_TYPE type)
{
    if (rc) {
        sb_str(o, "E");
        (void)ctx;
        return;
    }
    switch (type) {
    case LY_XPATH_NODE_SET:
        sb_str(o, "N");
        for (uint32_t i = 0; set && (i < set->count); i++) {
            sb_fmt(o, "%s%ld", i ? "," : "", node_index(k, set->dnodes[i]));
        }
        break;
    case LY_XPATH_STRING:
        sb_str(o, "S");
        sb_hex(o, str, str ? strlen(str) : 0);
        break;
    case LY_XPATH_NUMBER:
        if (num != num) {
            sb_str(o, "DNaN");
        } else if (num == (long double)(long long)num && (num < 1e15L) && (num > -1e15L)) {
            sb_fmt(o, "D%lld", (long long)num);
            if ((num == 0) && signbit((double)num)) {
                sb_str(o, "-");     /* negative zero marker */
            }
        } else {
            sb_fmt(o, "D%.12Lg", num);
        }
        break;
    case LY_XPATH_BOOLEAN:
        sb_fmt(o, "B%d", (int)b);
        break;
    }
}

/* ---------- one command ---------- */
static void run_cmd2(char **w, int nw, struct sbuf *o);

static int last_ok = 1;

static void
run_cmd(char *cmd, struct sbuf *o)
{
    char *wbuf[17], **w = wbuf;
    int nw = 0;
    size_t start = o->n;

    for (char *p = strtok(cmd, " "); p && (nw < 16); p = strtok(NULL, " ")) {
        w[nw++] = p;
    }
    if (!nw) {
        sb_str(o, "?");
        return;
    }
    if (!strcmp(w[0], "ifok")) {
        /* run the rest only if the previous command returned 0 (otherwise print "skip", state unchanged) */
        if (!last_ok) {
            sb_str(o, "skip");
            return;
        }
        ++w;
        --nw;
        if (!nw) {
            sb_str(o, "?");
            return;
        }
    }
    run_cmd2(w, nw, o);
    last_ok = (o->n > start) && (o->s[start] == '0') && ((o->n == start + 1) || (o->s[start + 1] == ' ') || (o->s[start + 1] == '!'));
}

static void
run_cmd2(char **w, int nw, struct sbuf *o)
{
#define NEED(n) if (nw < (n)) { sb_str(o, "?args"); return; }

    if (!strcmp(w[0], "ctx")) {
        NEED(3);
        int c = slot_c(w[1]);
        LY_ERR rc;

        if (C[c]) {
            ly_ctx_destroy(C[c]);
            C[c] = NULL;
        }
        rc = ly_ctx_new(nw > 3 ? (strcmp(w[3], "-") ? w[3] : NULL) : NULL, (uint16_t)strtoul(w[2], NULL, 0), &C[c]);
        sb_fmt(o, "%d", (int)rc);
    } else if (!strcmp(w[0], "mod") || !strcmp(w[0], "modyin")) {
        NEED(4);
        int c = slot_c(w[1]);
        char *txt = arg_str(w[3]);
        struct lys_module *m = NULL;
        struct ly_in *in = NULL;
        LY_ERR rc;

        ly_in_new_memory(txt, &in);
        rc = lys_parse(C[c], in, w[0][3] ? LYS_IN_YIN : LYS_IN_YANG, feat_list(w[2]), &m);
        ly_in_free(in, 0);
        err_info(o, C[c], rc);
        if (rc && m) {
            sb_str(o, "!module-returned-on-error");
        }
        free(txt);
    } else if (!strcmp(w[0], "load")) {
        NEED(5);
        int c = slot_c(w[1]);
        const struct lys_module *m = ly_ctx_load_module(C[c], w[2], strcmp(w[3], "-") ? w[3] : NULL, feat_list(w[4]));

        sb_fmt(o, "%d", m ? 0 : 1);
    } else if (!strcmp(w[0], "setimpl")) {
        NEED(4);
        int c = slot_c(w[1]);
        struct lys_module *m = ly_ctx_get_module_latest(C[c], w[2]);
        LY_ERR rc = m ? lys_set_implemented(m, feat_list(w[3])) : LY_ENOTFOUND;

        err_info(o, C[c], rc);
    } else if (!strcmp(w[0], "compile")) {
        NEED(2);
        err_info(o, C[slot_c(w[1])], ly_ctx_compile(C[slot_c(w[1])]));
    } else if (!strcmp(w[0], "mods")) {
        /* observable module set: name@rev:implemented:latest:features */
        NEED(2);
        int c = slot_c(w[1]);
        uint32_t idx = 0;
        const struct lys_module *m;

        while ((m = ly_ctx_get_module_iter(C[c], &idx))) {
            const struct lysp_feature *f = NULL;
            uint32_t fi = 0;
            const struct lys_module *lat = ly_ctx_get_module_latest(C[c], m->name);
            const struct lys_module *imp = ly_ctx_get_module_implemented(C[c], m->name);

            if (m->name[0] == 'i' && !strncmp(m->name, "ietf-", 5)) {
                continue;
            }
            if (!strcmp(m->name, "yang") || !strcmp(m->name, "default")) {
                continue;
            }
            sb_fmt(o, "%s@%s:%d:%d:%d:", m->name, m->revision ? m->revision : "", (int)m->implemented, lat == m, imp == m);
            while ((f = lysp_feature_next(f, m->parsed, &fi))) {
                sb_fmt(o, "%s=%d,", f->name, (f->flags & LYS_FENABLED) ? 1 : 0);
            }
            sb_str(o, ";");
        }
    } else if (!strcmp(w[0], "ctxinfo")) {
        NEED(2);
        int c = slot_c(w[1]);

        sb_fmt(o, "%u:%u", (unsigned)ly_ctx_get_change_count(C[c]), (unsigned)ly_ctx_get_modules_hash(C[c]));
    } else if (!strcmp(w[0], "schema")) {
        /* schema c<k> <module> <fmt: y|i|c|t> */
        NEED(4);
        int c = slot_c(w[1]);
        const struct lys_module *m = ly_ctx_get_module_implemented(C[c], w[2]);
        char *s = NULL;
        LYS_OUTFORMAT f = (w[3][0] == 'y') ? LYS_OUT_YANG : (w[3][0] == 'i') ? LYS_OUT_YIN : (w[3][0] == 'c') ? LYS_OUT_YANG_COMPILED : LYS_OUT_TREE;

        if (!m) {
            m = ly_ctx_get_module_latest(C[c], w[2]);
        }
        if (!m) {
            sb_str(o, "E");
        } else {
            LY_ERR rc = lys_print_mem(&s, m, f, 0);

            sb_fmt(o, "%d ", (int)rc);
            sb_hex(o, s ? s : "", s ? strlen(s) : 0);
            free(s);
        }
    } else if (!strcmp(w[0], "featv")) {
        NEED(4);
        const struct lys_module *m = ly_ctx_get_module_latest(C[slot_c(w[1])], w[2]);

        sb_fmt(o, "%d", m ? (int)lys_feature_value(m, w[3]) : -1);
    } else if (!strcmp(w[0], "spath")) {
        /* schema node existence: spath c<k> <hex path> */
        NEED(3);
        char *p = arg_str(w[2]);
        const struct lysc_node *s = lys_find_path(C[slot_c(w[1])], NULL, p, 0);

        sb_fmt(o, "%d", s ? 1 : 0);
        free(p);
    } else if (!strcmp(w[0], "parse")) {
        /* parse c<k> t<k> fmt parse_opts val_opts hex */
        NEED(7);
        int c = slot_c(w[1]), t = slot_t(w[2]);
        size_t len;
        char *data = vunhex(w[6], &len);
        struct ly_in *in = NULL;
        struct lyd_node *tree = NULL;
        LY_ERR rc;

        lyd_free_all(T[t]);
        T[t] = NULL;
        ly_in_new_memory(data, &in);
        rc = lyd_parse_data(C[c], NULL, in, fmt_of(w[3]), (uint32_t)strtoul(w[4], NULL, 0), (uint32_t)strtoul(w[5], NULL, 0), &tree);
        ly_in_free(in, 0);
        err_info(o, C[c], rc);
        if (rc && tree) {
            sb_str(o, "!tree-returned-on-error");
            lyd_free_all(tree);
            tree = NULL;
        }
        T[t] = tree;
        free(data);
    } else if (!strcmp(w[0], "parseop")) {
        /* parseop c<k> t<k> fmt type hex ; type: r=RPC_YANG n=NOTIF_YANG y=REPLY_YANG(parent = t<k> op node slot w[6]) */
        NEED(6);
        int c = slot_c(w[1]), t = slot_t(w[2]);
        char *data = vunhex(w[5], NULL);
        struct ly_in *in = NULL;
        struct lyd_node *tree = NULL, *op = NULL;
        enum lyd_type ty = (w[4][0] == 'r') ? LYD_TYPE_RPC_YANG : (w[4][0] == 'n') ? LYD_TYPE_NOTIF_YANG : LYD_TYPE_REPLY_YANG;
        LY_ERR rc;

        lyd_free_all(T[t]);
        T[t] = NULL;
        ly_in_new_memory(data, &in);
        if ((ty == LYD_TYPE_REPLY_YANG) && (nw > 6)) {
            /* reply is parsed into a duplicate of the request's operation node */
            struct lyd_node *req = node_at(w[6]);

            lyd_dup_single(req, NULL, LYD_DUP_WITH_PARENTS, &tree);
            rc = lyd_parse_op(C[c], tree, in, fmt_of(w[3]), ty, NULL, &op);
            while (tree && lyd_parent(tree)) {
                tree = lyd_parent(tree);
            }
        } else {
            rc = lyd_parse_op(C[c], NULL, in, fmt_of(w[3]), ty, &tree, &op);
        }
        ly_in_free(in, 0);
        err_info(o, C[c], rc);
        if (rc && tree && (ty != LYD_TYPE_REPLY_YANG)) {
            sb_str(o, "!tree-returned-on-error");
        }
        if (rc) {
            lyd_free_all(tree);
            tree = NULL;
        }
        T[t] = tree;
        free(data);
    } else if (!strcmp(w[0], "print")) {
        /* print t<k>[#i] fmt opts */
        NEED(4);
        struct lyd_node *n = node_at(w[1]);
        char *s = NULL;
        LYD_FORMAT f = fmt_of(w[2]);
        LY_ERR rc = lyd_print_mem(&s, n, f, (uint32_t)strtoul(w[3], NULL, 0));

        sb_fmt(o, "%d ", (int)rc);
        if (f == LYD_LYB) {
            int l = s ? lyd_lyb_data_length(s) : 0;

            sb_hex(o, s ? s : "", l > 0 ? (size_t)l : 0);
        } else {
            sb_hex(o, s ? s : "", s ? strlen(s) : 0);
        }
        free(s);
    } else if (!strcmp(w[0], "rt")) {
        /* rt t<src> t<dst> fmt print_opts parse_opts val_opts : print to memory, parse the output back */
        NEED(7);
        int t = slot_t(w[2]);
        struct lyd_node *n = T[slot_t(w[1])], *tree = NULL;
        const struct ly_ctx *ctx = (nw > 7) ? C[slot_c(w[7])] : (n ? LYD_CTX(n) : C[0]);
        char *s = NULL;
        LYD_FORMAT f = fmt_of(w[3]);
        LY_ERR rc = lyd_print_mem(&s, n, f, (uint32_t)strtoul(w[4], NULL, 0));

        lyd_free_all(T[t]);
        T[t] = NULL;
        if (rc) {
            sb_fmt(o, "P%d", (int)rc);
        } else if (!s) {
            sb_str(o, "0");
        } else {
            struct ly_in *in = NULL;

            ly_in_new_memory(s, &in);
            rc = lyd_parse_data(ctx, NULL, in, f, (uint32_t)strtoul(w[5], NULL, 0), (uint32_t)strtoul(w[6], NULL, 0), &tree);
            ly_in_free(in, 0);
            err_info(o, ctx, rc);
            T[t] = rc ? NULL : tree;
            if (rc) {
                lyd_free_all(tree);
            }
        }
        free(s);
    } else if (!strcmp(w[0], "dump")) {
        /* dump t<k> [opts] */
        NEED(2);
        dump_node(o, T[slot_t(w[1])], 0, nw > 2 ? atoi(w[2]) : 0);
        if (!T[slot_t(w[1])]) {
            sb_str(o, "empty");
        }
    } else if (!strcmp(w[0], "count")) {
        NEED(2);
        long i = 0;

        for (struct lyd_node *n = T[slot_t(w[1])]; n; n = dfs_next(n)) {
            ++i;
        }
        sb_fmt(o, "%ld", i);
    } else if (!strcmp(w[0], "nexpldflt")) {
        /* number of explicit nodes whose value equals the schema default */
        NEED(2);
        long i = 0;

        for (struct lyd_node *n = T[slot_t(w[1])]; n; n = dfs_next(n)) {
            if (n->schema && !(n->flags & LYD_DEFAULT) && (n->schema->nodetype & LYD_NODE_TERM) && lyd_is_default(n)) {
                ++i;
            }
        }
        sb_fmt(o, "%ld", i);
    } else if (!strcmp(w[0], "cmp")) {
        NEED(4);
        sb_fmt(o, "%d", (int)lyd_compare_siblings(T[slot_t(w[1])], T[slot_t(w[2])], (uint32_t)strtoul(w[3], NULL, 0)));
    } else if (!strcmp(w[0], "dup")) {
        /* dup t<src>[#i] t<dst> opts [single] */
        NEED(4);
        int t = slot_t(w[2]);
        struct lyd_node *n = node_at(w[1]), *d = NULL;
        LY_ERR rc;

        lyd_free_all(T[t]);
        T[t] = NULL;
        if (!n) {
            sb_str(o, "0");
            return;
        }
        if (nw > 4) {
            rc = lyd_dup_single(n, NULL, (uint32_t)strtoul(w[3], NULL, 0), &d);
            while (d && lyd_parent(d)) {
                d = lyd_parent(d);
            }
        } else {
            rc = lyd_dup_siblings(n, NULL, (uint32_t)strtoul(w[3], NULL, 0), &d);
        }
        T[t] = d;
        fix_first(t);
        err_info(o, LYD_CTX(n), rc);
    } else if (!strcmp(w[0], "dupctx")) {
        /* dupctx t<src> c<k> t<dst> opts */
        NEED(5);
        int t = slot_t(w[3]);
        struct lyd_node *d = NULL;
        LY_ERR rc;

        lyd_free_all(T[t]);
        T[t] = NULL;
        rc = T[slot_t(w[1])] ? lyd_dup_siblings_to_ctx(T[slot_t(w[1])], C[slot_c(w[2])], NULL, (uint32_t)strtoul(w[4], NULL, 0), &d) : 0;
        T[t] = d;
        err_info(o, C[slot_c(w[2])], rc);
    } else if (!strcmp(w[0], "diff")) {
        /* diff t<a> t<b> opts t<out> */
        NEED(5);
        int t = slot_t(w[4]);
        struct lyd_node *d = NULL;
        LY_ERR rc;

        lyd_free_all(T[t]);
        T[t] = NULL;
        rc = lyd_diff_siblings(T[slot_t(w[1])], T[slot_t(w[2])], (uint16_t)strtoul(w[3], NULL, 0), &d);
        T[t] = d;
        sb_fmt(o, "%d", (int)rc);
    } else if (!strcmp(w[0], "apply")) {
        /* apply t<data> t<diff> */
        NEED(3);
        int t = slot_t(w[1]);
        const struct ly_ctx *actx = T[slot_t(w[2])] ? LYD_CTX(T[slot_t(w[2])]) : NULL;
        LY_ERR rc = lyd_diff_apply_all(&T[t], T[slot_t(w[2])]);

        sb_fmt(o, "%d", (int)rc);
        if (rc) {
            sb_errclass(o, actx);
        }
        if (T[t] && T[t]->prev->next) {
            sb_str(o, "!data-not-first-sibling");
        }
        fix_first(t);
    } else if (!strcmp(w[0], "rev")) {
        NEED(3);
        int t = slot_t(w[2]);
        struct lyd_node *d = NULL;
        LY_ERR rc;

        lyd_free_all(T[t]);
        T[t] = NULL;
        rc = lyd_diff_reverse_all(T[slot_t(w[1])], &d);
        T[t] = d;
        sb_fmt(o, "%d", (int)rc);
        if (rc && T[slot_t(w[1])]) {
            sb_errclass(o, LYD_CTX(T[slot_t(w[1])]));
        }
    } else if (!strcmp(w[0], "dmerge")) {
        /* dmerge t<diff> t<src_diff> opts */
        NEED(4);
        int t = slot_t(w[1]);
        LY_ERR rc = lyd_diff_merge_all(&T[t], T[slot_t(w[2])], (uint16_t)strtoul(w[3], NULL, 0));

        sb_fmt(o, "%d", (int)rc);
        fix_first(t);
    } else if (!strcmp(w[0], "val")) {
        /* val t<k> c<k> opts [t<diff>] */
        NEED(4);
        int t = slot_t(w[1]), c = slot_c(w[2]);
        struct lyd_node *d = NULL;
        LY_ERR rc = lyd_validate_all(&T[t], C[c], (uint32_t)strtoul(w[3], NULL, 0), nw > 4 ? &d : NULL);

        err_info(o, C[c], rc);
        fix_first(t);
        if (nw > 4) {
            lyd_free_all(T[slot_t(w[4])]);
            T[slot_t(w[4])] = d;
        }
    } else if (!strcmp(w[0], "valop")) {
        /* valop t<op tree>#i t<dep>|- type(r|n|y) */
        NEED(4);
        struct lyd_node *n = node_at(w[1]);
        enum lyd_type ty = (w[3][0] == 'r') ? LYD_TYPE_RPC_YANG : (w[3][0] == 'n') ? LYD_TYPE_NOTIF_YANG : LYD_TYPE_REPLY_YANG;
        LY_ERR rc = n ? lyd_validate_op(n, strcmp(w[2], "-") ? T[slot_t(w[2])] : NULL, ty, NULL) : LY_EINVAL;

        err_info(o, n ? LYD_CTX(n) : NULL, rc);
    } else if (!strcmp(w[0], "implicit")) {
        /* implicit t<k> c<k> opts [t<diff>] */
        NEED(4);
        int t = slot_t(w[1]);
        struct lyd_node *d = NULL;
        LY_ERR rc = lyd_new_implicit_all(&T[t], C[slot_c(w[2])], (uint32_t)strtoul(w[3], NULL, 0), nw > 4 ? &d : NULL);

        sb_fmt(o, "%d", (int)rc);
        fix_first(t);
        if (nw > 4) {
            lyd_free_all(T[slot_t(w[4])]);
            T[slot_t(w[4])] = d;
        }
    } else if (!strcmp(w[0], "merge")) {
        /* merge t<target> t<source> opts */
        NEED(4);
        int t = slot_t(w[1]), s = slot_t(w[2]);
        uint16_t opts = (uint16_t)strtoul(w[3], NULL, 0);
        LY_ERR rc = lyd_merge_siblings(&T[t], T[s], opts);

        if (opts & LYD_MERGE_DESTRUCT) {
            T[s] = NULL;
        }
        sb_fmt(o, "%d", (int)rc);
        fix_first(t);
    } else if (!strcmp(w[0], "newpath")) {
        /* newpath t<k> c<k> opts hexpath hexval|~ */
        NEED(6);
        int t = slot_t(w[1]), c = slot_c(w[2]);
        char *p = arg_str(w[4]), *v = arg_str(w[5]);
        struct lyd_node *np = NULL, *nn = NULL;
        LY_ERR rc = lyd_new_path2(T[t], C[c], p, v, v ? strlen(v) : 0, LYD_ANYDATA_STRING, (uint32_t)strtoul(w[3], NULL, 0), &np, &nn);

        if (!T[t] && np) {
            T[t] = np;
        }
        fix_first(t);
        err_info(o, C[c], rc);
        if (rc && (np || nn)) {
            sb_str(o, "!node-returned-on-error");
        }
        if (!rc) {
            sb_fmt(o, " %ld %ld", node_index(t, np), node_index(t, nn));
        }
        free(p);
        free(v);
    } else if (!strcmp(w[0], "free")) {
        NEED(2);
        lyd_free_all(T[slot_t(w[1])]);
        T[slot_t(w[1])] = NULL;
        sb_str(o, "0");
    } else if (!strcmp(w[0], "freen")) {
        /* freen t<k>#i : free one subtree */
        NEED(2);
        int t = slot_t(w[1]);
        struct lyd_node *n = node_at(w[1]);

        if (!n) {
            sb_str(o, "-");
            return;
        }
        if (n == T[t]) {
            T[t] = n->next;
        }
        lyd_free_tree(n);
        fix_first(t);
        sb_str(o, "0");
    } else if (!strcmp(w[0], "unlink")) {
        /* unlink t<k>#i t<dst> */
        NEED(3);
        int t = slot_t(w[1]), d = slot_t(w[2]);
        struct lyd_node *n = node_at(w[1]);

        if (!n) {
            sb_str(o, "-");
            return;
        }
        lyd_free_all(T[d]);
        T[d] = NULL;
        {
            struct lyd_node *nx = n->next;
            LY_ERR urc = lyd_unlink_tree(n);

            sb_fmt(o, "%d", (int)urc);
            if (!urc) {
                if (n == T[t]) {
                    T[t] = nx;
                }
                T[d] = n;
            }
        }
        fix_first(t);
    } else if (!strcmp(w[0], "ins")) {
        /* ins <child|sibling|before|after> t<k>#i t<src>   (src slot gives up its first tree) */
        NEED(4);
        int t = slot_t(w[2]), s = slot_t(w[3]);
        struct lyd_node *anchor = node_at(w[2]), *n = T[s], *first = NULL;
        LY_ERR rc = LY_EINVAL;

        if (!n || !anchor) {
            sb_str(o, "-");
            return;
        }
        if (n->schema && !(n->schema->nodetype & (LYS_LIST | LYS_LEAFLIST))) {
            /* the insert functions do not look for an existing instance: a second instance of a leaf / container /
             * anydata is not a tree the properties speak about (and validation only examines nodes flagged new), so such
             * a move is refused here */
            struct lyd_node *sib = (w[1][0] == 'c') ? lyd_child(anchor) : lyd_first_sibling(anchor), *dup = NULL;

            if (sib && !lyd_find_sibling_val(sib, n->schema, NULL, 0, &dup) && dup && (dup != n)) {
                sb_str(o, "dupskip");
                return;
            }
        }
        if (n->next || (n->prev != n)) {
            /* only single trees are moved */
            T[s] = n->next;
            lyd_unlink_tree(n);
        } else {
            T[s] = NULL;
        }
        switch (w[1][0]) {
        case 'c':
            rc = lyd_insert_child(anchor, n);
            break;
        case 's':
            rc = lyd_insert_sibling(anchor, n, &first);
            if (!rc && !lyd_parent(n)) {
                T[t] = first;
            }
            break;
        case 'b':
            rc = lyd_insert_before(anchor, n);
            break;
        case 'a':
            rc = lyd_insert_after(anchor, n);
            break;
        }
        if (rc) {
            /* not inserted: give it back */
            if (T[s]) {
                lyd_insert_sibling(T[s], n, &T[s]);
            } else {
                T[s] = n;
            }
        }
        fix_first(t);
        fix_first(s);
        err_info(o, LYD_CTX(n), rc);
    } else if (!strcmp(w[0], "chg")) {
        /* chg t<k>#i hexval */
        NEED(3);
        struct lyd_node *n = node_at(w[1]);
        char *v = arg_str(w[2]);
        LY_ERR rc = (n && n->schema && (n->schema->nodetype & LYD_NODE_TERM)) ? lyd_change_term(n, v) : LY_EINVAL;

        sb_fmt(o, "%d", (int)rc);
        fix_first(slot_t(w[1]));
        free(v);
    } else if (!strcmp(w[0], "chgpath") || !strcmp(w[0], "freepath")) {
        /* chgpath t<k> hexpath hexval | freepath t<k> hexpath */
        NEED(3);
        int t = slot_t(w[1]);
        char *p = arg_str(w[2]), *v = nw > 3 ? arg_str(w[3]) : NULL;
        struct lyd_node *m = NULL;
        LY_ERR rc = lyd_find_path(T[t], p, 0, &m);

        if (rc || !m) {
            sb_str(o, "-");
        } else if (w[0][0] == 'c') {
            rc = (m->schema->nodetype & LYD_NODE_TERM) ? lyd_change_term(m, v) : LY_EINVAL;
            sb_fmt(o, "%d", (int)rc);
            fix_first(t);
        } else {
            if (m == T[t]) {
                T[t] = m->next;
            }
            lyd_free_tree(m);
            fix_first(t);
            sb_str(o, "0");
        }
        free(p);
        free(v);
    } else if (!strcmp(w[0], "newmeta")) {
        /* newmeta t<k>#i c<k> <module> <name> hexval */
        NEED(6);
        struct lyd_node *n = node_at(w[1]);
        int c = slot_c(w[2]);
        char *v = arg_str(w[5]);
        LY_ERR rc = n ? lyd_new_meta(C[c], n, ly_ctx_get_module_implemented(C[c], w[3]), w[4], v, 0, NULL) : LY_EINVAL;

        err_info(o, C[c], rc);
        free(v);
    } else if (!strcmp(w[0], "path")) {
        NEED(2);
        struct lyd_node *n = node_at(w[1]);
        char *p = n ? lyd_path(n, LYD_PATH_STD, NULL, 0) : NULL;

        sb_hex(o, p, p ? strlen(p) : 0);
        free(p);
    } else if (!strcmp(w[0], "findpath")) {
        /* findpath t<k> hexpath [output] */
        NEED(3);
        int t = slot_t(w[1]);
        char *p = arg_str(w[2]);
        struct lyd_node *m = NULL;
        LY_ERR rc = lyd_find_path(T[t], p, nw > 3, &m);

        sb_fmt(o, "%d %ld", (int)rc, m ? node_index(t, m) : -1L);
        free(p);
    } else if (!strcmp(w[0], "xfind")) {
        /* xfind t<k>[#i] hexexpr */
        NEED(3);
        int t = slot_t(w[1]);
        struct lyd_node *n = node_at(w[1]);
        char *e = arg_str(w[2]);
        struct ly_set *set = NULL;
        LY_ERR rc = n ? lyd_find_xpath(n, e, &set) : LY_EINVAL;

        xval_out(o, t, rc, NULL, set, NULL, 0, 0, LY_XPATH_NODE_SET);
        ly_set_free(set, NULL);
        free(e);
    } else if (!strcmp(w[0], "xeval")) {
        /* xeval t<k>[#i]|t<k>@root hexexpr : typed evaluation; "@root" evaluates with the root context */
        NEED(3);
        int t = slot_t(w[1]);
        struct lyd_node *n = strchr(w[1], '@') ? NULL : node_at(w[1]);
        char *e = arg_str(w[2]);
        struct ly_set *set = NULL;
        char *str = NULL;
        long double num = 0;
        ly_bool b = 0;
        LY_XPATH_TYPE type = 0;
        LY_ERR rc;

        if (!T[t]) {
            sb_str(o, "-");
            free(e);
            return;
        }
        rc = lyd_eval_xpath4(n, T[t], NULL, e, LY_VALUE_JSON, NULL, NULL, &type, &set, &str, &num, &b);
        xval_out(o, t, rc, NULL, set, str, num, b, type);
        ly_set_free(set, NULL);
        free(str);
        free(e);
    } else if (!strcmp(w[0], "inv")) {
        NEED(2);
        struct sbuf why = {0};
        const char *r = inv_siblings(T[slot_t(w[1])], NULL, &why);

        if (r) {
            sb_fmt(o, "BAD %s (%s)", r, why.s ? why.s : "");
        } else {
            sb_str(o, "ok");
        }
        free(why.s);
    } else if (!strcmp(w[0], "paths")) {
        /* paths t<k> : for every node, lyd_path -> lyd_find_path and lyd_find_xpath must return exactly that node */
        NEED(2);
        int t = slot_t(w[1]);
        long idx = 0;

        for (struct lyd_node *n = T[t]; n; n = dfs_next(n), ++idx) {
            char *p;
            struct lyd_node *m = NULL;
            struct ly_set *set = NULL;
            LY_ERR rc;
            int bothq = 0;

            if (!n->schema) {
                continue;
            }
            p = lyd_path(n, LYD_PATH_STD, NULL, 0);
            if (!p) {
                sb_fmt(o, "BAD node %ld: lyd_path failed", idx);
                return;
            }
            bothq = strchr(p, '\'') && strchr(p, '"');
            rc = lyd_find_path(T[t], p, 0, &m);
            if (rc || (m != n)) {
                /* position predicates of key-less lists address the first match only when positions differ */
                sb_fmt(o, "BAD%s node %ld: lyd_find_path rc=%d found=%ld path=", bothq ? " both-quotes" : "", idx, (int)rc, m ? node_index(t, m) : -1L);
                sb_hex(o, p, strlen(p));
                free(p);
                return;
            }
            rc = lyd_find_xpath(T[t], p, &set);
            if (rc || !set || (set->count != 1) || (set->dnodes[0] != n)) {
                sb_fmt(o, "BAD%s node %ld: lyd_find_xpath rc=%d count=%u path=", bothq ? " both-quotes" : "", idx, (int)rc, set ? set->count : 0);
                sb_hex(o, p, strlen(p));
                ly_set_free(set, NULL);
                free(p);
                return;
            }
            ly_set_free(set, NULL);
            free(p);
        }
        sb_str(o, "ok");
    } else if (!strcmp(w[0], "rebuild")) {
        /* rebuild t<k> c<k> : for every node, lyd_new_path(path, value) in an empty tree must create the node and its
         * ancestors (compared with a parents-duplicate), and creating it again must report LY_EEXIST */
        NEED(3);
        int t = slot_t(w[1]), c = slot_c(w[2]);
        long idx = 0;

        for (struct lyd_node *n = T[t]; n; n = dfs_next(n), ++idx) {
            char *p;
            const char *val = NULL;
            struct lyd_node *tree = NULL, *nn = NULL, *exp = NULL, *e2;
            LY_ERR rc;
            int bothq;

            if (!n->schema || (n->schema->flags & LYS_KEY)) {
                continue;
            }
            if ((n->schema->nodetype == LYS_LIST) && (n->schema->flags & LYS_KEYLESS)) {
                continue;
            }
            if ((n->schema->nodetype == LYS_LEAFLIST) && !(n->schema->flags & LYS_CONFIG_W)) {
                continue;
            }
            /* ancestors must be addressable without positions */
            int skip = 0;
            for (struct lyd_node *a = lyd_parent(n); a; a = lyd_parent(a)) {
                if ((a->schema->nodetype == LYS_LIST) && (a->schema->flags & LYS_KEYLESS)) {
                    skip = 1;
                }
            }
            if (skip) {
                continue;
            }
            p = lyd_path(n, LYD_PATH_STD, NULL, 0);
            bothq = strchr(p, '\'') && strchr(p, '"');
            if (n->schema->nodetype & LYD_NODE_TERM) {
                val = lyd_get_value(n);
            }
            rc = lyd_new_path2(NULL, C[c], p, val, val ? strlen(val) : 0, LYD_ANYDATA_STRING, 0, &tree, &nn);
            if (rc || !tree) {
                sb_fmt(o, "BAD%s node %ld: lyd_new_path rc=%d path=", bothq ? " both-quotes" : "", idx, (int)rc);
                sb_hex(o, p, strlen(p));
                free(p);
                lyd_free_all(tree);
                return;
            }
            /* expected spine: the node (without children except keys) with its parents */
            lyd_dup_single(n, NULL, LYD_DUP_WITH_PARENTS, &exp);
            for (e2 = exp; e2 && lyd_parent(e2); e2 = lyd_parent(e2)) {}
            if (lyd_compare_siblings(tree, e2, LYD_COMPARE_FULL_RECURSION)) {
                sb_fmt(o, "BAD node %ld: created chain differs from the node and its ancestors path=", idx);
                sb_hex(o, p, strlen(p));
                free(p);
                lyd_free_all(tree);
                lyd_free_all(e2);
                return;
            }
            lyd_free_all(e2);
            /* create again: existing */
            /* a default-flagged node (empty NP container, default-valued leaf) is updated instead, as documented */
            if (nn && !(nn->flags & LYD_DEFAULT)) {
                struct lyd_node *np2 = NULL, *nn2 = NULL;

                rc = lyd_new_path2(tree, C[c], p, val, val ? strlen(val) : 0, LYD_ANYDATA_STRING, 0, &np2, &nn2);
                if ((rc != LY_EEXIST) || np2 || nn2) {
                    sb_fmt(o, "BAD node %ld: re-creating an existing node gives rc=%d (LY_EEXIST expected) path=", idx, (int)rc);
                    sb_hex(o, p, strlen(p));
                    free(p);
                    lyd_free_all(tree);
                    return;
                }
            }
            lyd_free_all(tree);
            free(p);
        }
        sb_str(o, "ok");
    } else if (!strcmp(w[0], "isdflt")) {
        NEED(2);
        struct lyd_node *n = node_at(w[1]);

        sb_fmt(o, "%d", n ? (int)lyd_is_default(n) : -1);
    } else if (!strcmp(w[0], "dict")) {
        NEED(2);
        sb_fmt(o, "%u", C[slot_c(w[1])]->dict.hash_tab->used);
    } else if (!strcmp(w[0], "yldata")) {
        /* yldata c<k> t<k> */
        NEED(3);
        int t = slot_t(w[2]);
        struct lyd_node *d = NULL;
        LY_ERR rc;

        lyd_free_all(T[t]);
        T[t] = NULL;
        rc = ly_ctx_get_yanglib_data(C[slot_c(w[1])], &d, "%u", ly_ctx_get_change_count(C[slot_c(w[1])]));
        T[t] = d;
        sb_fmt(o, "%d", (int)rc);
    } else if (!strcmp(w[0], "ctxyl")) {
        /* ctxyl c<new> t<yldata> <searchdir|-> opts */
        NEED(5);
        int c = slot_c(w[1]);
        LY_ERR rc;

        if (C[c]) {
            ly_ctx_destroy(C[c]);
            C[c] = NULL;
        }
        rc = ly_ctx_new_yldata(strcmp(w[3], "-") ? w[3] : NULL, T[slot_t(w[2])], (int)strtoul(w[4], NULL, 0), &C[c]);
        sb_fmt(o, "%d", (int)rc);
    } else if (!strcmp(w[0], "valstr")) {
        /* valstr c<k> <hex schema path> hexval : lyd_value_validate */
        NEED(4);
        int c = slot_c(w[1]);
        char *p = arg_str(w[2]), *v = arg_str(w[3]);
        const struct lysc_node *s = lys_find_path(C[c], NULL, p, 0);
        const char *canon = NULL;
        LY_ERR rc = s ? lyd_value_validate(C[c], s, v, strlen(v), NULL, NULL, &canon) : LY_ENOTFOUND;

        sb_fmt(o, "%d ", (int)rc);
        if (!rc || (rc == LY_EINCOMPLETE)) {
            sb_hex(o, canon, canon ? strlen(canon) : 0);
        }
        free(p);
        free(v);
    } else if (!strcmp(w[0], "errclean")) {
        NEED(2);
        ly_err_clean(C[slot_c(w[1])], NULL);
        sb_str(o, "0");
    } else {
        sb_str(o, "?cmd");
    }
}

int
main(void)
{
    struct vcase c;

    ly_set_log_clb(log_cb);
    ly_log_options(LY_LOLOG | LY_LOSTORE_LAST);
    while (vnext(&c)) {
        struct sbuf o = {0};
        long leaked = 0;

        notfreed_warn = 0;
        for (int i = 1; i < c.nf; i++) {
            if (i > 1) {
                sb_str(&o, " | ");
            }
            run_cmd(c.f[i], &o);
        }
        for (int i = 0; i < NTREE; i++) {
            lyd_free_all(T[i]);
            T[i] = NULL;
        }
        for (int i = 0; i < NCTX; i++) {
            if (C[i]) {
                ly_ctx_destroy(C[i]);
                C[i] = NULL;
            }
        }
        sb_fmt(&o, " | end:%ld:%d", leaked, notfreed_warn);
        fputs(o.s, stdout);
        free(o.s);
        VEND();
    }
    return 0;
}
