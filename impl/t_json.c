/* t_json.c — white-box driver for json_print_string() (src/printer_json.c) and lyjson_string()
 * (src/json.c). Both static functions are reached by including the files from the working tree
 * (the two translation units define disjoint sets of external symbols, so the archive members
 * printer_json.o and json.o are simply never pulled in by the linker).
 *
 * Cases:
 *   jsonesc <hex text>   -> hex of what json_print_string() writes (with the surrounding quotes)
 *   jsonstr <hex input>  -> input = text starting after the opening quote;
 *                           E | <hex value> <bytes consumed>
 *   jsonrt  <hex text>   -> json_print_string() then lyjson_string() on the output after its first
 *                           byte, followed by the bytes "/x"; E | <hex value> <bytes consumed>
 */
#include "common.h"
#include "printer_json.c"
#include "json.c"

static void
log_cb(LY_LOG_LEVEL level, const char *msg, const char *data_path, const char *schema_path, uint64_t line)
{
    (void)level; (void)msg; (void)data_path; (void)schema_path; (void)line;
}

/* run lyjson_string() on the NUL-terminated buffer s and print the result */
static void
do_jsonstr(struct ly_ctx *ctx, const char *s)
{
    struct ly_in *in = NULL;
    struct lyjson_ctx j;

    memset(&j, 0, sizeof j);
    ly_in_new_memory(s, &in);
    j.ctx = ctx;
    j.in = in;
    if (lyjson_string(&j)) {
        printf("E");
    } else {
        vputhex(j.value, j.value_len);
        printf(" %zu", (size_t)(in->current - s));
        if (j.dynamic) {
            free((char *)j.value);
        }
    }
    ly_in_free(in, 0);
    ly_err_clean(ctx, NULL);
}

int
main(void)
{
    struct vcase c;
    struct ly_ctx *ctx = NULL;

    ly_set_log_clb(log_cb);
    if (ly_ctx_new(NULL, 0, &ctx)) {
        fprintf(stderr, "ctx\n");
        return 2;
    }

    while (vnext(&c)) {
        const char *comp = c.f[0];

        if (!strcmp(comp, "jsonesc") && (c.nf > 1)) {
            size_t len;
            char *s = vunhex(c.f[1], &len), *mem = NULL;
            struct ly_out *out = NULL;

            ly_out_new_memory(&mem, 0, &out);
            if (json_print_string(out, s)) {
                printf("E");
            } else {
                vputhex(mem ? mem : "", mem ? strlen(mem) : 0);
            }
            ly_out_free(out, NULL, 1);
            free(s);
        } else if (!strcmp(comp, "jsonstr") && (c.nf > 1)) {
            size_t len;
            char *s = vunhex(c.f[1], &len);

            do_jsonstr(ctx, s);
            free(s);
        } else if (!strcmp(comp, "jsonrt") && (c.nf > 1)) {
            size_t len, n;
            char *s = vunhex(c.f[1], &len), *mem = NULL, *buf;
            struct ly_out *out = NULL;

            ly_out_new_memory(&mem, 0, &out);
            if (json_print_string(out, s) || !mem || (mem[0] != '"')) {
                printf("E");
            } else {
                n = strlen(mem);
                buf = malloc(n + 8);
                memcpy(buf, mem + 1, n - 1);
                memcpy(buf + n - 1, "/x", 3);
                do_jsonstr(ctx, buf);
                free(buf);
            }
            ly_out_free(out, NULL, 1);
            free(s);
        } else {
            printf("?");
        }
        VEND();
    }
    ly_ctx_destroy(ctx);
    return 0;
}
