/* t_paths.c - C15 on every node of data / RPC / action / reply / notification trees (public API only).
 *
 * Case line:  pathsops TAB m:<hex YANG> ... TAB d:<type>:<fmt>:<hex document> ...
 *   type: d = data (lyd_parse_data, parse only, strict), r = RPC/action request, y = reply, n = notification (lyd_parse_op)
 *   fmt:  x | j
 * Output: "M<rc>" when a module is rejected, else one result per document separated by " | ":
 *   <parse rc>:<#nodes>:<#nodes skipped because a key / leaf-list value of their path holds both quote characters>:
 *   <ok | BAD <what> node=<dfs index> rc=<rc> path=<hex> [x=<hex>]>:<hex lyd_path of every node, comma separated>:
 *   <#nodes for which the path without last predicate also selected equally named siblings of another module>
 *
 * Checked for every node n (pointer identity everywhere):
 *   P  lyd_path(STD) = lyd_path(STD_NO_LAST_PRED) + predicates only; printing into a static buffer gives the same string
 *   F  lyd_find_path(tree, path, output) == n
 *   X  lyd_find_xpath(tree, path) == {n};  lyd_find_xpath(tree, path without the last predicate) == all instances of n's
 *      schema node under n's parent (n among them)
 *   R  when every position predicate of the path is [1]: lyd_new_path2(NULL, path, value) creates a chain equal to n (without
 *      children except keys) and its ancestors, the created node has the same path, creating it again gives LY_EEXIST
 *   E  lyd_new_path2(tree, path, value) on the original tree gives LY_EEXIST and returns no node; for nodes that may have
 *      duplicates (key-less list, leaf-list that is not configuration) the path without the last predicate creates one more
 *      instance after the existing ones (same parent, same value)
 *   W  creating every node in document order from its path and value in one new tree gives a tree equal to the original
 */
#include "common.h"

#include "libyang.h"

static void
log_cb(LY_LOG_LEVEL level, const char *msg, const char *data_path, const char *schema_path, uint64_t line)
{
    (void)level; (void)schema_path; (void)line;
    if (getenv("LYX_DEBUG")) {
        fprintf(stderr, "LOG: %s (%s)\n", msg, data_path ? data_path : "");
    }
}

static struct lyd_node *
dfs_next(struct lyd_node *n)
{
    struct lyd_node *c = lyd_child(n);

    if (c) {
        return c;
    }
    while (n) {
        if (n->next) {
            return n->next;
        }
        n = lyd_parent(n);
    }
    return NULL;
}

static void
puthex(const char *p)
{
    vputhex(p, p ? strlen(p) : 0);
}

static int
is_dup_inst(const struct lysc_node *s)
{
    return ((s->nodetype == LYS_LIST) && (s->flags & LYS_KEYLESS)) || ((s->nodetype == LYS_LEAFLIST) && !(s->flags & LYS_CONFIG_W));
}

static int
has_both(const char *v)
{
    return v && strchr(v, '\'') && strchr(v, '"');
}

/* a value that lyd_path() has to print in a predicate of n's path holds both quote characters (known finding) */
static int
both_quotes(const struct lyd_node *n)
{
    for ( ; n; n = lyd_parent(n)) {
        if (!n->schema) {
            continue;
        }
        if ((n->schema->nodetype == LYS_LIST) && !(n->schema->flags & LYS_KEYLESS)) {
            for (const struct lyd_node *k = lyd_child(n); k && k->schema && (k->schema->flags & LYS_KEY); k = k->next) {
                if (has_both(lyd_get_value(k))) {
                    return 1;
                }
            }
        } else if ((n->schema->nodetype == LYS_LEAFLIST) && (n->schema->flags & LYS_CONFIG_W)) {
            if (has_both(lyd_get_value(n))) {
                return 1;
            }
        }
    }
    return 0;
}

/* every node of the chain that is addressed by position is the first instance */
static int
all_first(const struct lyd_node *n)
{
    for ( ; n; n = lyd_parent(n)) {
        if (n->schema && is_dup_inst(n->schema) && (lyd_list_pos(n) != 1)) {
            return 0;
        }
    }
    return 1;
}

static struct lyd_node *
top_of(struct lyd_node *n)
{
    while (n && lyd_parent(n)) {
        n = lyd_parent(n);
    }
    return n;
}

static long
count_all(struct lyd_node *first)
{
    long i = 0;

    for (struct lyd_node *n = first; n; n = dfs_next(n)) {
        ++i;
    }
    return i;
}

static long other_module;

/* result set of an XPath whose last name test is n's: returns 1 when it holds n and, apart from instances of n's schema
 * node under n's parent, only equally named siblings of ANOTHER module selected by an unprefixed name test (counted in
 * *nother: known finding xpath-noprefix-other-module); -1 when anything else is in it; 0 when n is missing */
static int
classify_set(const struct ly_set *set, const struct lyd_node *n, const char *path, uint32_t *nother)
{
    const struct lyd_node *par = lyd_parent(n);
    const char *last = strrchr(path, '/');
    int found = 0, unprefixed;
    uint32_t i;

    /* the last segment carries a module prefix iff a ':' comes before any predicate */
    unprefixed = !last || (strcspn(last, ":[") == strlen(last)) || (last[strcspn(last, ":[")] == '[');
    *nother = 0;
    for (i = 0; set && (i < set->count); ++i) {
        const struct lyd_node *x = set->dnodes[i];

        if (x == n) {
            found = 1;
        } else if (x->schema && (x->schema == n->schema) && (lyd_parent(x) == par)) {
            /* another instance */
        } else if (unprefixed && x->schema && (lyd_parent(x) == par) && !strcmp(x->schema->name, n->schema->name) &&
                (x->schema->module != n->schema->module)) {
            ++(*nother);
        } else {
            return -1;
        }
    }
    return found;
}

#define BAD(what, rcv, pth, extra) do { printf("BAD %s node=%ld rc=%d path=", what, idx, (int)(rcv)); puthex(pth); \
        if (extra) { printf(" x="); puthex(extra); } bad = 1; } while (0)

/* returns 1 when a failure was printed */
static int
check_node(const struct ly_ctx *ctx, struct lyd_node *root, struct lyd_node *n, long idx, int out, struct lyd_node **whole)
{
    char *p = NULL, *p0 = NULL, *sp = NULL, *q = NULL;
    const char *val = NULL;
    struct lyd_node *m = NULL, *par = lyd_parent(n), *tree = NULL, *np = NULL, *nn = NULL, *exp = NULL, *it;
    struct ly_set *set = NULL;
    uint32_t nopts = out ? LYD_NEW_VAL_OUTPUT : 0, ninst = 0, i, nother = 0;
    int bad = 0, dup = is_dup_inst(n->schema), found;
    long before;
    LY_ERR rc;

    p = lyd_path(n, LYD_PATH_STD, NULL, 0);
    p0 = lyd_path(n, LYD_PATH_STD_NO_LAST_PRED, NULL, 0);
    if (!p || !p0) {
        BAD("lyd_path-null", 0, p ? p : "", NULL);
        goto done;
    }
    /* P */
    if (strncmp(p, p0, strlen(p0)) || (p[strlen(p0)] && (p[strlen(p0)] != '['))) {
        BAD("nolastpred-not-a-prefix", 0, p, p0);
        goto done;
    }
    sp = malloc(strlen(p) + 1);
    if ((lyd_path(n, LYD_PATH_STD, sp, strlen(p) + 1) != sp) || strcmp(sp, p)) {
        BAD("static-buffer-differs", 0, p, sp);
        goto done;
    }
    if (n->schema->nodetype & LYD_NODE_TERM) {
        val = lyd_get_value(n);
    }

    /* F */
    rc = lyd_find_path(root, p, out, &m);
    if (rc || (m != n)) {
        BAD(rc ? "find_path-fails" : "find_path-other-node", rc, p, NULL);
        goto done;
    }
    /* X */
    rc = lyd_find_xpath(root, p, &set);
    if (!rc && set && (classify_set(set, n, p, &nother) == 1) && nother && (set->count == 1 + nother)) {
        /* exactly n plus equally named nodes of another module: known finding, counted */
        ++other_module;
    } else if (rc || !set || (set->count != 1) || (set->dnodes[0] != n)) {
        char cnt[32];

        snprintf(cnt, sizeof cnt, "count=%u", set ? set->count : 0);
        BAD(rc ? "find_xpath-fails" : "find_xpath-other-nodes", rc, p, cnt);
        goto done;
    }
    ly_set_free(set, NULL);
    set = NULL;
    rc = lyd_find_xpath(root, p0, &set);
    for (it = par ? lyd_child(par) : root; it; it = it->next) {
        if (it->schema == n->schema) {
            ++ninst;
        }
    }
    found = rc ? 0 : classify_set(set, n, p0, &nother);
    if (nother) {
        ++other_module;
    }
    if (rc || !set || (found != 1) || (set->count != ninst + nother)) {
        char cnt[64];

        snprintf(cnt, sizeof cnt, "count=%u instances=%u found=%d", set ? set->count : 0, ninst, found);
        BAD("find_xpath-nolastpred", rc, p0, cnt);
        goto done;
    }
    ly_set_free(set, NULL);
    set = NULL;

    /* R */
    if (all_first(n)) {
        rc = lyd_new_path2(NULL, ctx, p, val, val ? strlen(val) : 0, LYD_ANYDATA_STRING, nopts, &np, &nn);
        tree = np;
        if (rc || !np || !nn) {
            BAD("new_path-empty-tree-fails", rc, p, NULL);
            goto done;
        }
        if (lyd_parent(np)) {
            BAD("new_path-new_parent-not-top", 0, p, NULL);
            tree = top_of(np);
            goto done;
        }
        lyd_dup_single(n, NULL, LYD_DUP_WITH_PARENTS, &exp);
        exp = top_of(exp);
        if (lyd_compare_siblings(tree, exp, LYD_COMPARE_FULL_RECURSION)) {
            BAD("new_path-chain-differs", 0, p, NULL);
            goto done;
        }
        q = lyd_path(nn, LYD_PATH_STD, NULL, 0);
        if (!q || strcmp(q, p)) {
            BAD("new_path-created-node-has-other-path", 0, p, q);
            goto done;
        }
        if (!(nn->flags & LYD_DEFAULT)) {
            struct lyd_node *np2 = NULL, *nn2 = NULL;

            before = count_all(tree);
            rc = lyd_new_path2(tree, NULL, p, val, val ? strlen(val) : 0, LYD_ANYDATA_STRING, nopts, &np2, &nn2);
            if ((rc != LY_EEXIST) || np2 || nn2 || (count_all(top_of(tree)) != before)) {
                BAD("new_path-again-not-EEXIST", rc, p, NULL);
                tree = top_of(tree);
                goto done;
            }
        }
        lyd_free_all(tree);
        tree = NULL;
        np = nn = NULL;
    }

    /* E */
    if (!(n->flags & LYD_DEFAULT)) {
        before = count_all(root);
        rc = lyd_new_path2(root, NULL, p, val, val ? strlen(val) : 0, LYD_ANYDATA_STRING, nopts, &np, &nn);
        if ((rc != LY_EEXIST) || np || nn || (count_all(root) != before)) {
            BAD("new_path-existing-not-EEXIST", rc, p, NULL);
            if (!rc && np) {
                lyd_free_tree(np);
            }
            goto done;
        }
    }
    if (dup) {
        np = nn = NULL;
        rc = lyd_new_path2(root, NULL, p0, val, val ? strlen(val) : 0, LYD_ANYDATA_STRING, nopts, &np, &nn);
        if (rc || !nn || (np != nn) || (nn == n) || (nn->schema != n->schema) || (lyd_parent(nn) != par) ||
                (val && strcmp(lyd_get_value(nn), val))) {
            BAD("new_path-dup-inst-not-created", rc, p0, NULL);
            if (!rc && np) {
                lyd_free_tree(np);
            }
            goto done;
        }
        /* one more instance; after the others unless the instances are kept sorted (operation input) */
        i = 0;
        for (it = par ? lyd_child(par) : lyd_first_sibling(root); it; it = it->next) {
            if (it->schema == n->schema) {
                ++i;
            }
        }
        if ((i != ninst + 1) || ((n->schema->flags & LYS_ORDBY_USER) && (lyd_list_pos(nn) != ninst + 1))) {
            BAD("new_path-dup-inst-count-or-position", 0, p0, NULL);
            lyd_free_tree(nn);
            goto done;
        }
        lyd_free_tree(nn);
        /* and the node is still found */
        rc = lyd_find_path(root, p, out, &m);
        if (rc || (m != n)) {
            BAD("find_path-after-dup-create", rc, p, NULL);
            goto done;
        }
    }

    /* W: add this node to the tree rebuilt in document order */
    if (whole) {
        np = nn = NULL;
        rc = lyd_new_path2(*whole, ctx, p, val, val ? strlen(val) : 0, LYD_ANYDATA_STRING, nopts, &np, &nn);
        if (n->schema->flags & LYS_KEY) {
            if (rc != LY_EEXIST) {
                BAD("rebuild-key-not-EEXIST", rc, p, NULL);
                goto done;
            }
        } else {
            if (rc || !nn) {
                BAD("rebuild-create-fails", rc, p, NULL);
                goto done;
            }
            if (!*whole) {
                *whole = np;
            }
            *whole = lyd_first_sibling(top_of(*whole));
            free(q);
            q = lyd_path(nn, LYD_PATH_STD, NULL, 0);
            if (!q || strcmp(q, p)) {
                BAD("rebuild-created-node-has-other-path", 0, p, q);
                goto done;
            }
        }
    }

done:
    ly_set_free(set, NULL);
    lyd_free_all(tree);
    lyd_free_all(exp);
    free(p);
    free(p0);
    free(sp);
    free(q);
    return bad;
}

static void
run_doc(struct ly_ctx *ctx, const char *spec)
{
    /* spec = <type>:<fmt>:<hex> */
    char type = spec[0], fmt = spec[2];
    char *data = vunhex(spec + 4, NULL);
    struct ly_in *in = NULL;
    struct lyd_node *tree = NULL, *op = NULL, *whole = NULL, *n;
    LY_ERR rc;
    long idx, nnodes = 0, nbq = 0;
    int bad = 0, out = (type == 'y');
    LYD_FORMAT f = (fmt == 'x') ? LYD_XML : LYD_JSON;

    other_module = 0;
    ly_in_new_memory(data, &in);
    if (type == 'd') {
        rc = lyd_parse_data(ctx, NULL, in, f, LYD_PARSE_ONLY | LYD_PARSE_STRICT, 0, &tree);
    } else {
        rc = lyd_parse_op(ctx, NULL, in, f, (type == 'r') ? LYD_TYPE_RPC_YANG : (type == 'n') ? LYD_TYPE_NOTIF_YANG : LYD_TYPE_REPLY_YANG,
                &tree, &op);
    }
    ly_in_free(in, 0);
    free(data);
    if (rc) {
        printf("%d:0:0:parse::0", (int)rc);
        lyd_free_all(tree);
        return;
    }
    tree = lyd_first_sibling(tree);
    for (n = tree; n; n = dfs_next(n)) {
        ++nnodes;
        if (n->schema && both_quotes(n)) {
            ++nbq;
        }
    }
    printf("0:%ld:%ld:", nnodes, nbq);
    for (n = tree, idx = 0; n && !bad; n = dfs_next(n), ++idx) {
        if (!n->schema) {
            printf("BAD opaque node=%ld rc=0 path=-", idx);
            bad = 1;
            break;
        }
        if (both_quotes(n)) {
            continue;
        }
        bad = check_node(ctx, tree, n, idx, out, &whole);
    }
    if (!bad && !nbq) {
        if (lyd_compare_siblings(whole, tree, LYD_COMPARE_FULL_RECURSION)) {
            char *a = NULL, *b = NULL;

            lyd_print_mem(&a, tree, LYD_JSON, LYD_PRINT_WITHSIBLINGS | LYD_PRINT_SHRINK | LYD_PRINT_KEEPEMPTYCONT);
            lyd_print_mem(&b, whole, LYD_JSON, LYD_PRINT_WITHSIBLINGS | LYD_PRINT_SHRINK | LYD_PRINT_KEEPEMPTYCONT);
            printf("BAD rebuild-whole-tree-differs node=-1 rc=0 path=");
            puthex(a ? a : "");
            printf(" x=");
            puthex(b ? b : "");
            free(a);
            free(b);
            bad = 1;
        }
    }
    if (!bad) {
        printf("ok");
    }
    lyd_free_all(whole);
    printf(":");
    for (n = tree, idx = 0; n; n = dfs_next(n), ++idx) {
        char *p = n->schema ? lyd_path(n, LYD_PATH_STD, NULL, 0) : NULL;

        if (idx) {
            fputc(',', stdout);
        }
        puthex(p ? p : "");
        free(p);
    }
    printf(":%ld", other_module);
    lyd_free_all(tree);
}

int
main(void)
{
    struct vcase c;

    ly_set_log_clb(log_cb);
    ly_log_options(LY_LOLOG | LY_LOSTORE_LAST);
    while (vnext(&c)) {
        struct ly_ctx *ctx = NULL;
        int i, ndoc = 0;
        LY_ERR rc = ly_ctx_new(NULL, 0, &ctx);

        for (i = 1; !rc && (i < c.nf); i++) {
            if (c.f[i][0] == 'm') {
                char *txt = vunhex(c.f[i] + 2, NULL);

                rc = lys_parse_mem(ctx, txt, LYS_IN_YANG, NULL);
                free(txt);
            }
        }
        if (rc) {
            printf("M%d", (int)rc);
        } else {
            for (i = 1; i < c.nf; i++) {
                if (c.f[i][0] == 'd') {
                    if (ndoc++) {
                        printf(" | ");
                    }
                    run_doc(ctx, c.f[i] + 2);
                }
            }
        }
        ly_ctx_destroy(ctx);
        VEND();
    }
    return 0;
}
