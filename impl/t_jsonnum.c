/* t_jsonnum.c — white-box driver for the JSON number lexer of src/json.c:
 * lyjson_number(), lyjson_number_is_zero(), lyjson_count_in_row(), lyjson_exp_number(),
 * lyjson_exp_number_copy_num_part(), lyjson_get_buffer_for_number() (all static; reached by including
 * json.c from the working tree, so the archive member json.o is never pulled in by the linker).
 *
 * Cases (one output line each):
 *   jnum <hex input>   the input is the NUL-terminated text at jsonctx->in->current (a number followed by
 *                      anything); calls lyjson_number() directly.
 *                      ->  E                                    (error return, an error record must exist)
 *                          <hex value> <bytes consumed> <d>     (d = 1 when the value is a separately allocated
 *                                                                buffer (lyjson_exp_number), else 0)
 *                      Post-conditions checked here (reported as a suffix " !<what>" which no model line has):
 *                      error without error record; success with value == NULL; dynamic value whose
 *                      strlen() differs from value_len (the buffer is NUL-terminated at buf_len).
 *   jdoc <hex input>   the input is a whole JSON document: either a bare number or `[` number ...;
 *                      goes through the public-in-library entry points lyjson_ctx_new()/lyjson_ctx_next().
 *                      ->  same format as jnum for the first number token (consumed counts from the number's
 *                          first byte and includes the white space skipped after it), or
 *                          X<status> when the first value is not a number.
 */
#include "common.h"
#include "json.c"

static void
log_cb(LY_LOG_LEVEL level, const char *msg, const char *data_path, const char *schema_path, uint64_t line)
{
    (void)level; (void)msg; (void)data_path; (void)schema_path; (void)line;
}

static void
print_value(const struct lyjson_ctx *j, size_t consumed)
{
    vputhex(j->value, j->value_len);
    printf(" %zu %d", consumed, j->dynamic ? 1 : 0);
    if (!j->value) {
        printf(" !null-value");
    } else if (j->dynamic && (strlen(j->value) != j->value_len)) {
        printf(" !strlen=%zu", strlen(j->value));
    }
}

int
main(void)
{
    struct vcase c;
    struct ly_ctx *ctx = NULL;

    ly_set_log_clb(log_cb);
    if (ly_ctx_new(NULL, 0, &ctx)) {
        fprintf(stderr, "ctx\n");
        return 2;
    }

    while (vnext(&c)) {
        const char *comp = c.f[0];

        if (!strcmp(comp, "jnum") && (c.nf > 1)) {
            size_t len;
            char *raw = vunhex(c.f[1], &len), *s;
            struct ly_in *in = NULL;
            struct lyjson_ctx j;

            /* exact-size copy (strlen + NUL) so that ASan sees any read past the terminator */
            len = strlen(raw);
            s = malloc(len + 1);
            memcpy(s, raw, len + 1);
            free(raw);

            memset(&j, 0, sizeof j);
            ly_in_new_memory(s, &in);
            j.ctx = ctx;
            j.in = in;
            ly_err_clean(ctx, NULL);
            if (lyjson_number(&j)) {
                printf("E");
                if (!ly_err_last(ctx) || !ly_err_last(ctx)->msg) {
                    printf(" !no-error-record");
                }
            } else {
                print_value(&j, (size_t)(in->current - s));
                if (j.dynamic) {
                    free((char *)j.value);
                }
            }
            ly_in_free(in, 0);
            ly_err_clean(ctx, NULL);
            free(s);
        } else if (!strcmp(comp, "jdoc") && (c.nf > 1)) {
            size_t len;
            char *raw = vunhex(c.f[1], &len), *s;
            struct ly_in *in = NULL;
            struct lyjson_ctx *j = NULL;
            enum LYJSON_PARSER_STATUS st;
            LY_ERR r;
            size_t start = 0;

            len = strlen(raw);
            s = malloc(len + 1);
            memcpy(s, raw, len + 1);
            free(raw);

            ly_in_new_memory(s, &in);
            ly_err_clean(ctx, NULL);
            r = lyjson_ctx_new(ctx, in, &j);
            if (!r && (lyjson_ctx_status(j) == LYJSON_ARRAY)) {
                start = (size_t)(in->current - s);
                r = lyjson_ctx_next(j, &st);
            }
            if (r) {
                printf("E");
                if (!ly_err_last(ctx) || !ly_err_last(ctx)->msg) {
                    printf(" !no-error-record");
                }
            } else if (lyjson_ctx_status(j) == LYJSON_NUMBER) {
                print_value(j, (size_t)(in->current - s) - start);
            } else {
                printf("X%d", (int)lyjson_ctx_status(j));
            }
            lyjson_ctx_free(j);
            ly_in_free(in, 0);
            ly_err_clean(ctx, NULL);
            free(s);
        } else {
            printf("?");
        }
        VEND();
    }
    ly_ctx_destroy(ctx);
    return 0;
}
