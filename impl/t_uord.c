/* t_uord.c — driver of slice uord: diff / apply / reverse of ONE user-ordered leaf-list (or keyed
 * user-ordered list) through the public API of src/diff.c.
 *
 * Cases (values are decimal uint32, lists are comma separated, "-" = empty list):
 *   udiff <csv A> <csv B>         leaf-list u:l
 *   kdiff <csv A> <csv B>         list u:k (key id), anchors are key predicates [id='N'] printed as N
 *       -> "<ops> | <applied> | <rops> | <reverse-applied>"
 *          ops      diff nodes of lyd_diff_siblings(A,B) in sibling order, blank separated, each
 *                   <c|d|r|n>:<value>:<yang:value|yang:key>:<yang:orig-value|yang:orig-key>
 *                   (metadata absent = "~", empty string = "-"); no node = "-"
 *          applied  sibling order after lyd_diff_apply_all() on a copy of A ("E" on error); when the
 *                   returned *data is not the first sibling, "^<value of *data>" is appended
 *          rops     nodes of lyd_diff_reverse_all(diff) ("E" on error)
 *          reverse-applied   the same with the reversed diff on a copy of B
 *          " !A" / " !B" is appended when an input tree was changed by any of the calls.
 *   uapply <csv L> <ops>          hand-built diff (ops as printed above, blank separated, "-" = none)
 *       -> order after lyd_diff_apply_all() on L, or "E"
 */
#include "common.h"
#include "libyang.h"

static const char *schema =
        "module u { namespace \"urn:u\"; prefix u; yang-version 1.1;"
        " leaf-list l { type uint32; ordered-by user; }"
        " leaf-list s { type uint32; }"
        " list k { key id; ordered-by user; leaf id { type uint32; } leaf v { type string; } } }";

static struct ly_ctx *ctx;
static const struct lys_module *mod;

static void
log_cb(LY_LOG_LEVEL level, const char *msg, const char *data_path, const char *schema_path, uint64_t line)
{
    (void)level; (void)msg; (void)data_path; (void)schema_path; (void)line;
}

/* value of an instance: leaf-list value or the key of the list */
static const char *
inst_val(const struct lyd_node *n)
{
    if (n->schema->nodetype == LYS_LIST) {
        return lyd_get_value(lyd_child(n));
    }
    return lyd_get_value(n);
}

static struct lyd_node *
new_inst(int keyed, const char *val)
{
    struct lyd_node *n = NULL;

    if (keyed) {
        if (lyd_new_list(NULL, mod, "k", 0, &n, val)) {
            return NULL;
        }
    } else if (lyd_new_term(NULL, mod, "l", val, 0, &n)) {
        return NULL;
    }
    return n;
}

/* build the sibling list from "1,2,3" ("-" = empty) in the given order */
static struct lyd_node *
build(int keyed, const char *csv)
{
    struct lyd_node *first = NULL, *n;
    char *dup = strdup(csv), *tok, *save = NULL;

    if (strcmp(csv, "-")) {
        for (tok = strtok_r(dup, ",", &save); tok; tok = strtok_r(NULL, ",", &save)) {
            n = new_inst(keyed, tok);
            if (!n) {
                fprintf(stderr, "build %s\n", tok);
                exit(2);
            }
            if (!first) {
                first = n;
            } else if (lyd_insert_sibling(first, n, &first)) {
                fprintf(stderr, "insert %s\n", tok);
                exit(2);
            }
        }
    }
    free(dup);
    return first;
}

/* print sibling order from the true first sibling; mark a returned pointer that is not the first */
static void
dump(const struct lyd_node *data, char *buf, size_t size)
{
    const struct lyd_node *first = data ? lyd_first_sibling(data) : NULL, *n;
    size_t o = 0;

    buf[0] = 0;
    if (!first) {
        snprintf(buf, size, "-");
        return;
    }
    LY_LIST_FOR(first, n) {
        o += snprintf(buf + o, size - o, "%s%s", n == first ? "" : ",", inst_val(n));
    }
    if (data != first) {
        o += snprintf(buf + o, size - o, "^%s", inst_val(data));
    }
}

/* anchor metadata: "~" absent, "-" empty, N for value N or predicate [id='N'] */
static void
print_anchor(const struct lyd_node *n, const char *name)
{
    struct lyd_meta *m = lyd_find_meta(n->meta, NULL, name);
    const char *v, *p;

    if (!m) {
        printf("~");
        return;
    }
    v = lyd_get_meta_value(m);
    if (!v[0]) {
        printf("-");
    } else if (v[0] == '[') {
        /* [id='N'] */
        p = strchr(v, '\'');
        if (p) {
            ++p;
            while (*p && (*p != '\'')) {
                fputc(*p++, stdout);
            }
        } else {
            printf("?");
        }
    } else {
        printf("%s", v);
    }
}

static void
print_ops(const struct lyd_node *diff)
{
    const struct lyd_node *n;
    struct lyd_meta *m;
    int keyed;

    if (!diff) {
        printf("-");
        return;
    }
    LY_LIST_FOR(lyd_first_sibling(diff), n) {
        keyed = n->schema->nodetype == LYS_LIST;
        m = lyd_find_meta(n->meta, NULL, "yang:operation");
        printf("%s%c:%s:", n == lyd_first_sibling(diff) ? "" : " ", m ? lyd_get_meta_value(m)[0] : '?', inst_val(n));
        print_anchor(n, keyed ? "yang:key" : "yang:value");
        printf(":");
        print_anchor(n, keyed ? "yang:orig-key" : "yang:orig-value");
    }
}

static void
do_diff(int keyed, const char *csva, const char *csvb)
{
    struct lyd_node *a = build(keyed, csva), *b = build(keyed, csvb), *diff = NULL, *rdiff = NULL, *ca = NULL, *cb = NULL;
    char buf[4096];

    if (lyd_diff_siblings(a, b, 0, &diff)) {
        printf("E");
        goto end;
    }
    print_ops(diff);
    printf(" | ");

    /* forward */
    if (a && lyd_dup_siblings(a, NULL, LYD_DUP_RECURSIVE, &ca)) {
        printf("DUP");
        goto end;
    }
    if (lyd_diff_apply_all(&ca, diff)) {
        printf("E");
    } else {
        dump(ca, buf, sizeof buf);
        printf("%s", buf);
    }
    printf(" | ");

    /* reverse */
    if (lyd_diff_reverse_all(diff, &rdiff)) {
        printf("E | E");
    } else {
        print_ops(rdiff);
        printf(" | ");
        if (b && lyd_dup_siblings(b, NULL, LYD_DUP_RECURSIVE, &cb)) {
            printf("DUP");
            goto end;
        }
        if (lyd_diff_apply_all(&cb, rdiff)) {
            printf("E");
        } else {
            dump(cb, buf, sizeof buf);
            printf("%s", buf);
        }
    }

    /* purity of the inputs */
    dump(a, buf, sizeof buf);
    if (strcmp(buf, csva)) {
        printf(" !A");
    }
    dump(b, buf, sizeof buf);
    if (strcmp(buf, csvb)) {
        printf(" !B");
    }

end:
    lyd_free_all(a);
    lyd_free_all(b);
    lyd_free_all(diff);
    lyd_free_all(rdiff);
    lyd_free_all(ca);
    lyd_free_all(cb);
    ly_err_clean(ctx, NULL);
}

/* hand-built diff: items op:x:value:orig */
static void
do_apply(const char *csv, const char *ops)
{
    struct lyd_node *data = build(0, csv), *diff = NULL, *n;
    char *dup = strdup(ops), *tok, *save = NULL, buf[4096];
    char *f[4];
    int i, bad = 0;

    if (strcmp(ops, "-")) {
        for (tok = strtok_r(dup, " ", &save); tok; tok = strtok_r(NULL, " ", &save)) {
            char *p = tok;

            for (i = 0; i < 4; i++) {
                f[i] = p;
                p = p ? strchr(p, ':') : NULL;
                if (p) {
                    *p++ = 0;
                }
            }
            if (!f[3] || !(n = new_inst(0, f[1]))) {
                bad = 1;
                break;
            }
            if (!diff) {
                diff = n;
            } else {
                lyd_insert_sibling(diff, n, &diff);
            }
            lyd_new_meta(ctx, n, NULL, "yang:operation", f[0][0] == 'c' ? "create" : f[0][0] == 'd' ? "delete" :
                    f[0][0] == 'r' ? "replace" : "none", 0, NULL);
            if (strcmp(f[2], "~")) {
                lyd_new_meta(ctx, n, NULL, "yang:value", strcmp(f[2], "-") ? f[2] : "", 0, NULL);
            }
            if (strcmp(f[3], "~")) {
                lyd_new_meta(ctx, n, NULL, "yang:orig-value", strcmp(f[3], "-") ? f[3] : "", 0, NULL);
            }
        }
    }
    if (bad) {
        printf("?");
    } else if (lyd_diff_apply_all(&data, diff)) {
        printf("E");
    } else {
        dump(data, buf, sizeof buf);
        printf("%s", buf);
    }
    free(dup);
    lyd_free_all(data);
    lyd_free_all(diff);
    ly_err_clean(ctx, NULL);
}

int
main(void)
{
    struct vcase c;

    ly_set_log_clb(log_cb);
    if (ly_ctx_new(NULL, 0, &ctx) || lys_parse_mem(ctx, schema, LYS_IN_YANG, (struct lys_module **)&mod)) {
        fprintf(stderr, "ctx\n");
        return 2;
    }

    while (vnext(&c)) {
        const char *comp = c.f[0];

        if (!strcmp(comp, "udiff") && (c.nf > 2)) {
            do_diff(0, c.f[1], c.f[2]);
        } else if (!strcmp(comp, "kdiff") && (c.nf > 2)) {
            do_diff(1, c.f[1], c.f[2]);
        } else if (!strcmp(comp, "uapply") && (c.nf > 2)) {
            do_apply(c.f[1], c.f[2]);
        } else {
            printf("?");
        }
        VEND();
    }
    ly_ctx_destroy(ctx);
    return 0;
}
