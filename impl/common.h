/* common.h — line protocol shared by the /verif/impl drivers.
 *
 * Input: one case per line on stdin, fields separated by TAB. The first field is the component
 * name; byte-string fields are hex ("-" = empty string). Output: one line per case on stdout,
 * flushed after each line so that a crash can be attributed to the case that caused it.
 */
#ifndef VERIF_COMMON_H
#define VERIF_COMMON_H

#define _GNU_SOURCE
#include <ctype.h>
#include <inttypes.h>
#include <stdint.h>
#include <stdio.h>
#include <stdlib.h>
#include <string.h>

#define VMAXF 4096

struct vcase {
    int nf;
    char *f[VMAXF];
};

static char *vline = NULL;
static size_t vline_cap = 0;

/* read next case; returns 0 at EOF */
static int
vnext(struct vcase *c)
{
    ssize_t n = getline(&vline, &vline_cap, stdin);
    if (n < 0) {
        return 0;
    }
    while (n && ((vline[n - 1] == '\n') || (vline[n - 1] == '\r'))) {
        vline[--n] = 0;
    }
    c->nf = 0;
    char *p = vline;
    while (c->nf < VMAXF) {
        c->f[c->nf++] = p;
        char *t = strchr(p, '\t');
        if (!t) {
            break;
        }
        *t = 0;
        p = t + 1;
    }
    return 1;
}

static int
vhexd(int ch)
{
    if ((ch >= '0') && (ch <= '9')) {
        return ch - '0';
    }
    if ((ch >= 'a') && (ch <= 'f')) {
        return ch - 'a' + 10;
    }
    if ((ch >= 'A') && (ch <= 'F')) {
        return ch - 'A' + 10;
    }
    return -1;
}

/* decode hex field into a malloc'ed NUL-terminated buffer; *len gets the byte count */
static char *
vunhex(const char *h, size_t *len)
{
    size_t n = (h[0] == '-') ? 0 : strlen(h) / 2;
    char *b = malloc(n + 8);
    for (size_t i = 0; i < n; i++) {
        b[i] = (char)((vhexd(h[2 * i]) << 4) | vhexd(h[2 * i + 1]));
    }
    memset(b + n, 0, 8);
    if (len) {
        *len = n;
    }
    return b;
}

static void
vputhex(const void *p, size_t n)
{
    const unsigned char *b = p;
    if (!n) {
        fputc('-', stdout);
        return;
    }
    for (size_t i = 0; i < n; i++) {
        printf("%02x", b[i]);
    }
}

#define VEND() do { fputc('\n', stdout); fflush(stdout); } while (0)

#endif
