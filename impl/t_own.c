/* t_own.c - C17 ownership / leak oracle: script interpreter over the data-tree API of libyang that checks, after
 * EVERY call, what the caller may rely on (outputs NULL on failure, inputs that are not consumed are untouched, slots
 * not involved in the call are untouched, sibling/parent links are consistent) and, at the END of every case, that all
 * memory and all dictionary strings have been released exactly once.
 *
 * VERIF_FLAGS: -Wl,--wrap=malloc -Wl,--wrap=calloc -Wl,--wrap=realloc -Wl,--wrap=free -Wl,--wrap=strdup -Wl,--wrap=strndup -Wl,--wrap=asprintf -Wl,--wrap=vasprintf -Wl,--wrap=realpath
 *
 * One case = one input line:  "own" TAB cmd TAB cmd ...   (a command = words separated by one space; strings in hex,
 * "-" = empty string, "~" = NULL). Every case starts from scratch: two fresh contexts c0 and c1 with the fixed modules
 * a, b, t (YANG text below) are created, the script runs, every tree slot still held is freed, the contexts are
 * destroyed. Output = one result per command joined by " | ", then the summary
 *
 *   end:d<u0>,<r0>/<u1>,<r1>:w<n>:k<n>[@<idx>:<cmd>[~<errclass>]]:l<n>:n<n>
 *
 *   d  per context: dictionary strings / string references left compared with the state right after module loading
 *      (read after all trees are freed and the error records are cleaned, before ly_ctx_destroy) - must be 0,0/0,0
 *   w  number of "not freed" warnings logged by ly_ctx_destroy - must be 0
 *   k  number of heap blocks allocated during the case (by libyang or the driver, through the wrapped allocation
 *      functions) that are still allocated after the contexts are destroyed - must be 0; idx/cmd = the command during
 *      which the first such block was allocated, errclass = class of the error message of that command when it failed
 *   l  result of __lsan_do_recoverable_leak_check() (ASan build; 0 in other builds) - must be 0
 *   n  number of "Value ... was not found in the dictionary" errors (a reference released twice / taken from another holder) - must be 0
 *
 * Slots: trees 0..7 (a slot holds the FIRST top-level sibling of a forest it owns, or NULL). A node is "<slot>.<i>" =
 * the (i mod count)-th node of the forest in DFS pre-order. Result of a command: "<name>:<rc>" followed by flags:
 *   OUT!    an output pointer is not NULL after a failed call
 *   CHG!<k> slot k changed although the call failed and is documented not to modify it
 *   UNREL!<k> slot k changed although it is not an argument of the call
 *   LINK!<k> slot k is not a first top-level sibling with consistent parent/prev/next links after the call
 *   FREED!  an input that is not consumed (on this path) was freed by the call
 *   NC!     an input documented as consumed was neither freed nor moved (LYD_MERGE_DESTRUCT source after a failed merge)
 *   TFREED! a failed merge freed the TARGET forest
 *   CHAIN!  after freeing one element (or the tail) of a metadata / attribute chain the chain is not the expected rest
 *   REST!   lyd_free_tree/lyd_free_siblings changed something outside the freed subtree
 *   DICT!   a failed lys_parse_mem changed the number of dictionary strings
 *   CTX!    the context does not parse a trivial document any more after lys_parse_mem
 *   ANYPTR! after lyd_new_path*() an anydata/anyxml node holds the caller's value buffer itself, not a copy
 *   LOGLOC!<s>,<d>,<p>,<i> the call left entries on the thread's log location stack (schema nodes, data nodes, paths,
 *           inputs); they point into trees / contexts that can be freed, the next message would walk them
 * "-" = command skipped (empty slot / arguments the driver refuses, see the comments), "?" = malformed command.
 *
 * Commands (N = node "<slot>.<i>", P = N or "~", S/D/T/F = slot number, mod = a0|b0|t0|a1|...|y0|"~", ctx = 0|1|"~"):
 *   term P mod name val opts D | inner P mod name output D | list P mod name k1 k2 opts D | list2 P mod name keys opts D
 *   any P mod name s|x|j|t val|srcslot opts D   (opts 0x100 = LYD_NEW_ANY_USE_VALUE: value consumed on success only)
 *   opaq|opaq2 P ctx name val prefix module D | meta N ctx mod name val opts | attr N module name val
 *   path|path1 N ctx path val opts             (lyd_new_path2 / lyd_new_path; empty slot: parent NULL, tree -> slot)
 *   ins c|s|b|a TGT SRC | unlink N D | free S | freen N | freesib N | chg N val | chgmeta N j val
 *   dup N P opts D s|b ctx | merge T S opts t|s | diff A B opts D | apply T F | rev F D | dmerge F1 F2 opts
 *   vval P ctx spath val flags  lyd_value_validate(ctx, schema node at spath, val, ctx_node = P or none; flags 1: ask for canonical,
 *                               2: ask for realtype, 4: ctx argument NULL)
 *   vcmp N val | chgcanon N M | chgbin N val   lyd_value_compare / lyd_change_term_canon(N, canonical value of M) / _bin
 *   freemeta N j s|a | freeattr N j s|a   lyd_free_meta_single|_siblings / lyd_free_attr_single|_siblings of the j-th element:
 *                               afterwards the chain must hold exactly the other elements (s) / the elements before it (a), in order
 *   dupmeta N j M | anystr N | anycopy N M|~   lyd_dup_meta_single / lyd_any_value_str / lyd_any_copy_value
 *   lybrt S D popts vopts      LYB round trip: lyd_print_mem(T[S], LYD_LYB, siblings) and lyd_parse_data_mem of the result into slot D
 *   merge T S opts m K mod    lyd_merge_module with a callback that returns LY_EDENIED at its K-th call (0: never)
 *   apply T F K | dmerge F1 F2 opts K   lyd_diff_apply_module / lyd_diff_merge_module (all modules) with such a callback
 *   parse ctx fmt popts vopts data D | parsep N fmt popts vopts data | parseop ctx fmt r|n|y data D [N]
 *   val S ctx opts withdiff D | valmod S mod opts withdiff D | valop N S|~ r|n|y withdiff D | impl S ctx opts withdiff D
 *   xfind N expr | xeval N expr | print N fmt opts | lys ctx yangtext
 * The driver refuses (prints "-") calls whose arguments the API forbids in a way it does not check itself (asserts /
 * undefined behaviour instead of an error): see the SKIP() comments; each of them is a place where libyang trusts the
 * caller.
 */
#include "common.h"

#include <limits.h>
#include <signal.h>
#include <stdarg.h>
#include <unistd.h>

#include "libyang.h"
#include "ly_common.h"
#include "hash_table_internal.h"
#include "tree_data_internal.h"
#include "context.h"
#include "dict.h"

/* ------------------------------------------------------------------------------------------------
 * allocation tracker (link-time wrappers; the table keeps ~ptr so that LSan does not see the blocks as reachable)
 * ------------------------------------------------------------------------------------------------ */
void *__real_malloc(size_t);
void *__real_calloc(size_t, size_t);
void *__real_realloc(void *, size_t);
void __real_free(void *);
char *__real_strdup(const char *);
char *__real_strndup(const char *, size_t);
int __real_vasprintf(char **, const char *, va_list);
char *__real_realpath(const char *, char *);

struct trk {
    uintptr_t key;      /* 0 empty, 1 deleted, else ~ptr */
    int32_t cmd;
    uint32_t size;
};

static struct trk *trk_tab;
static size_t trk_cap, trk_live, trk_fill;
static int trk_on, cur_cmd;
static char cur_name[24];

static const void *watch[16];
static int nwatch;
static unsigned watch_freed;

static size_t
trk_slot(uintptr_t key, size_t cap)
{
    uint64_t h = (uint64_t)(~key >> 4) * 0x9E3779B97F4A7C15ull;

    return (size_t)(h >> 24) & (cap - 1);
}

static void
trk_put(struct trk *tab, size_t cap, uintptr_t key, int32_t cmd, uint32_t size, int *isnew, int *usedempty)
{
    size_t i = trk_slot(key, cap), tomb = (size_t)-1;

    *isnew = 1;
    *usedempty = 0;
    for ( ; ; i = (i + 1) & (cap - 1)) {
        if (tab[i].key == key) {
            *isnew = 0;
            break;
        }
        if (tab[i].key == 1) {
            if (tomb == (size_t)-1) {
                tomb = i;
            }
        } else if (tab[i].key == 0) {
            if (tomb != (size_t)-1) {
                i = tomb;
            } else {
                *usedempty = 1;
            }
            break;
        }
    }
    tab[i].key = key;
    tab[i].cmd = cmd;
    tab[i].size = size;
}

static void
trk_add(void *p, size_t size)
{
    int isnew, usedempty;

    if (!trk_on || !p) {
        return;
    }
    if (!trk_tab || ((trk_fill + 1) * 2 > trk_cap)) {
        size_t ncap = trk_tab ? (((trk_live + 1) * 4 > trk_cap) ? trk_cap * 2 : trk_cap) : (1u << 17);
        struct trk *nt = __real_calloc(ncap, sizeof *nt);

        for (size_t i = 0; i < trk_cap; i++) {
            if (trk_tab[i].key > 1) {
                trk_put(nt, ncap, trk_tab[i].key, trk_tab[i].cmd, trk_tab[i].size, &isnew, &usedempty);
            }
        }
        __real_free(trk_tab);
        trk_tab = nt;
        trk_cap = ncap;
        trk_fill = trk_live;
    }
    trk_put(trk_tab, trk_cap, ~(uintptr_t)p, cur_cmd, (uint32_t)size, &isnew, &usedempty);
    if (isnew) {
        ++trk_live;
    }
    if (usedempty) {
        ++trk_fill;
    }
}

static void
trk_del(void *p)
{
    uintptr_t key = ~(uintptr_t)p;

    if (!trk_tab || !p) {
        return;
    }
    for (size_t i = trk_slot(key, trk_cap); trk_tab[i].key; i = (i + 1) & (trk_cap - 1)) {
        if (trk_tab[i].key == key) {
            trk_tab[i].key = 1;
            --trk_live;
            return;
        }
    }
}

/* mark a block as a dictionary string: such a block stays allocated because of a leaked REFERENCE, it says nothing
 * about which command leaked */
static void
trk_mark_dict(const void *p)
{
    uintptr_t key = ~(uintptr_t)p;

    if (!trk_tab || !p) {
        return;
    }
    for (size_t i = trk_slot(key, trk_cap); trk_tab[i].key; i = (i + 1) & (trk_cap - 1)) {
        if (trk_tab[i].key == key) {
            trk_tab[i].size |= 0x80000000u;
            return;
        }
    }
}

static void
trk_reset(void)
{
    if (trk_tab) {
        memset(trk_tab, 0, trk_cap * sizeof *trk_tab);
    }
    trk_live = trk_fill = 0;
}

void *
__wrap_malloc(size_t n)
{
    void *p = __real_malloc(n);

    trk_add(p, n);
    return p;
}

void *
__wrap_calloc(size_t a, size_t b)
{
    void *p = __real_calloc(a, b);

    trk_add(p, a * b);
    return p;
}

void *
__wrap_realloc(void *o, size_t n)
{
    void *p;

    for (int i = 0; o && (i < nwatch); i++) {
        if (watch[i] == o) {
            watch_freed |= 1u << i;
        }
    }
    p = __real_realloc(o, n);
    if (p || !n) {
        trk_del(o);
    }
    trk_add(p, n);
    return p;
}

void
__wrap_free(void *p)
{
    for (int i = 0; p && (i < nwatch); i++) {
        if (watch[i] == p) {
            watch_freed |= 1u << i;
        }
    }
    trk_del(p);
    __real_free(p);
}

char *
__wrap_strdup(const char *s)
{
    char *p = __real_strdup(s);

    trk_add(p, p ? strlen(p) + 1 : 0);
    return p;
}

char *
__wrap_strndup(const char *s, size_t n)
{
    char *p = __real_strndup(s, n);

    trk_add(p, p ? strlen(p) + 1 : 0);
    return p;
}

int
__wrap_vasprintf(char **out, const char *fmt, va_list ap)
{
    int r = __real_vasprintf(out, fmt, ap);

    if (r >= 0) {
        trk_add(*out, (size_t)r + 1);
    }
    return r;
}

int
__wrap_asprintf(char **out, const char *fmt, ...)
{
    va_list ap;
    int r;

    va_start(ap, fmt);
    r = __real_vasprintf(out, fmt, ap);
    va_end(ap);
    if (r >= 0) {
        trk_add(*out, (size_t)r + 1);
    }
    return r;
}

char *
__wrap_realpath(const char *path, char *resolved)
{
    char *p = __real_realpath(path, resolved);

    if (!resolved) {
        trk_add(p, p ? strlen(p) + 1 : 0);
    }
    return p;
}

extern THREAD_LOCAL struct ly_log_location_s log_location;      /* src/log.c */

int __lsan_do_recoverable_leak_check(void) __attribute__((weak));
void __lsan_ignore_object(const void *p) __attribute__((weak));

static void
on_abort(int sig)
{
    char buf[64];
    int n = snprintf(buf, sizeof buf, "\nOWNCMD %d %s\n", cur_cmd, cur_name);

    if (write(2, buf, (size_t)n) < 0) {}
    signal(sig, SIG_DFL);
    raise(sig);
}

/* ------------------------------------------------------------------------------------------------
 * fixed schema
 * ------------------------------------------------------------------------------------------------ */
/* carries the typedef that the node-instance-identifier type plugin is registered for */
static const char *MOD_ACM =
        "module ietf-netconf-acm {yang-version 1.1; namespace \"urn:ietf:params:xml:ns:yang:ietf-netconf-acm\"; prefix nacm;"
        " import ietf-yang-types {prefix yang;}"
        " revision 2018-02-14;"
        " typedef node-instance-identifier {type yang:xpath1.0;}"
        "}";

static const char *MOD_A =
        "module a {yang-version 1.1; namespace \"urn:a\"; prefix a;"
        " import ietf-yang-metadata {prefix md;}"
        " import ietf-inet-types {prefix inet;}"
        " import ietf-yang-types {prefix yang;}"
        " import ietf-netconf-acm {prefix nacm;}"
        " md:annotation note {type string {length \"1..8\";}}"
        " md:annotation num {type int8;}"
        " md:annotation ipm {type inet:ip-address;}"
        " md:annotation xpm {type yang:xpath1.0;}"
        " md:annotation iim {type instance-identifier {require-instance false;}}"
        " identity idb; identity id1 {base idb;} identity id2 {base idb;}"
        " container c {"
        "  leaf i8 {type int8 {range \"-5..100\";} default 7;}"
        "  leaf s {type string {length \"1..6\"; pattern \"[a-z]+\";}}"
        "  leaf e {type enumeration {enum one; enum two; enum three;}}"
        "  leaf lr {type leafref {path \"../../l/k1\";}}"
        "  leaf u {type union {type int8; type enumeration {enum x; enum y;} type string {length \"3\";}}}"
        "  leaf idr {type identityref {base idb;}}"
        "  leaf m {type uint8; must \". < 50\";}"
        "  leaf w {when \"../i8 > 10\"; type string;}"
        "  leaf-list sl {type string;}"
        "  leaf-list ul {type uint8; ordered-by user;}"
        "  anydata ad; anyxml ax;"
        "  choice ch {case ca {leaf ca1 {type string;} leaf ca2 {type string;}} case cb {leaf cb1 {type string;}}}"
        "  container p {presence \"p\"; leaf man {type string; mandatory true;} leaf opt {type string; default \"dd\";}}"
        "  list ol {key k; ordered-by user; leaf k {type string;} leaf v {type int8;}}"
        "  action act {input {leaf ai {type string;}} output {leaf ao {type string;}}}"
        "  notification nn {leaf nl {type string;}}"
        " }"
        " list l {key \"k1 k2\"; unique v; leaf k1 {type string;} leaf k2 {type uint8;} leaf v {type string;}"
        "  container in {leaf x {type string;}}}"
        " list ul2 {key k; ordered-by user; leaf k {type string;} leaf v {type string;}}"
        " leaf-list tul {type string; ordered-by user;}"
        " leaf top {type string;}"
        " list kl {config false; leaf a {type string;}}"
        " leaf-list sll {config false; type string;}"
        " container ty {"
        "  leaf ii {type instance-identifier;}"
        "  leaf iin {type instance-identifier {require-instance false;}}"
        "  leaf lrt {type leafref {path \"/a:top\";}}"
        "  leaf lrn {type leafref {path \"/a:top\"; require-instance false;}}"
        "  leaf ulr {type union {type leafref {path \"/a:top\";} type int8;}}"
        "  leaf uii {type union {type instance-identifier; type enumeration {enum none;}}}"
        "  leaf bn {type binary {length \"1..4\";}}"
        "  leaf dc {type decimal64 {fraction-digits 2; range \"-1..10\";}}"
        "  leaf bt {type bits {bit b0; bit b1; bit b2;}}"
        "  leaf bo {type boolean;}"
        "  leaf em {type empty;}"
        "  leaf-list idl {type identityref {base idb;}}"
        " }"
        /* every type plugin whose values own something (dictionary strings, compiled paths, buffers) */
        " container tp {"
        "  leaf ip4 {type inet:ipv4-address;}"
        "  leaf ip6 {type inet:ipv6-address;}"
        "  leaf ip {type inet:ip-address;}"
        "  leaf ip4n {type inet:ipv4-address-no-zone;}"
        "  leaf ip6n {type inet:ipv6-address-no-zone;}"
        "  leaf pf4 {type inet:ipv4-prefix;}"
        "  leaf pf6 {type inet:ipv6-prefix;}"
        "  leaf pf {type inet:ip-prefix;}"
        "  leaf host {type inet:host;}"
        "  leaf bn {type binary;}"
        "  leaf bt {type bits {bit b0; bit b1; bit b9 {position 9;}}}"
        "  leaf ubb {type union {type bits {bit u0; bit u1;} type binary;}}"
        "  leaf uip {type union {type inet:ipv4-address; type inet:ipv6-prefix; type instance-identifier {require-instance false;}"
        "    type identityref {base idb;}}}"
        "  leaf iid {type instance-identifier {require-instance false;}}"
        "  leaf idr {type identityref {base idb;}}"
        "  leaf xp {type yang:xpath1.0;}"
        "  leaf nii {type nacm:node-instance-identifier;}"
        "  leaf dt {type yang:date-and-time;}"
        "  leaf hex {type yang:hex-string;}"
        "  leaf mac {type yang:mac-address;}"
        "  leaf uuid {type yang:uuid;}"
        "  leaf dc {type decimal64 {fraction-digits 3;}}"
        "  leaf lr4 {type leafref {path \"../ip4\";}}"
        "  leaf lrip {type leafref {path \"../ip\"; require-instance false;}}"
        "  leaf lrxp {type leafref {path \"../xp\";}}"
        "  leaf lrid {type leafref {path \"../idr\";}}"
        "  leaf-list ipl {type inet:ip-address; ordered-by user;}"
        /* values that are resolved again at validation time: unions with leafref / instance-identifier / identityref members */
        "  leaf ulid {type union {type leafref {path \"../idr\";} type string;}}"
        "  leaf ulxp {type union {type leafref {path \"../xp\";} type string;}}"
        "  leaf ulii {type union {type leafref {path \"../iid\";} type string;}}"
        "  leaf ulbt {type union {type leafref {path \"../bt\";} type string;}}"
        "  leaf ulbn {type union {type leafref {path \"../bn\";} type string;}}"
        "  leaf ulip {type union {type leafref {path \"../ip\";} type inet:ipv6-prefix; type string;}}"
        "  leaf uiis {type union {type instance-identifier; type string;}}"
        "  leaf uids {type union {type leafref {path \"../lrid\";} type identityref {base idb;} type string;}}"
        "  leaf ull {type union {type leafref {path \"../ip4\";} type leafref {path \"../idr\";}"
        "    type union {type leafref {path \"../xp\";} type int8;} type string;}}"
        /* user-ordered: lyplg_type_sort_union() asserts on two values stored through different leafref members (their realtype is
         * the target's type, which is not in the list of member types) */
        "  leaf-list ulidl {ordered-by user; type union {type leafref {path \"../idr\";} type leafref {path \"../dt\";} type string;}}"
        "  list ipk {key \"a p\"; leaf a {type inet:ip-address;} leaf p {type inet:ip-prefix;} leaf x {type yang:xpath1.0;}}"
        " }"
        "}";

static const char *MOD_B =
        "module b {yang-version 1.1; namespace \"urn:b\"; prefix b; import a {prefix a;}"
        " rpc r {input {leaf x {type string; mandatory true;} leaf y {type leafref {path \"/a:top\";}}}"
        "  output {leaf z {type int8;}}}"
        " notification n {leaf msg {type string;}}"
        " container bc {leaf bl {type string;} leaf-list bll {type int8;}}"
        "}";

static const char *MOD_T =
        "module t {namespace \"urn:t\"; prefix t; feature tf; container tc {leaf tl {type string;}}}";

/* ------------------------------------------------------------------------------------------------
 * state
 * ------------------------------------------------------------------------------------------------ */
#define NCTX 2
#define NT 8

static struct ly_ctx *C[NCTX];
static struct lyd_node *T[NT];
static unsigned gen_diff;       /* slots that hold a diff produced by lyd_diff_siblings / lyd_diff_reverse_all / lyd_diff_merge_all */
static unsigned used_unknown;   /* contexts whose number of distinct strings can no longer be predicted (a module was loaded) */
static long base_used[NCTX], base_refs[NCTX];  /* dictionary strings / references right after module loading */
static int notfreed_warn, notfound_err;
static int debug;

static void
log_cb(LY_LOG_LEVEL level, const char *msg, const char *data_path, const char *schema_path, uint64_t line)
{
    (void)level; (void)schema_path; (void)line;
    if (debug) {
        fprintf(stderr, "LOG: %s (%s)\n", msg, data_path ? data_path : "");
    }
    if (msg && strstr(msg, "not freed")) {
        ++notfreed_warn;
    }
    if (msg && strstr(msg, "was not found in the dictionary")) {
        /* a reference was released that nobody held (or that belonged to someone else) */
        ++notfound_err;
    }
}

/* ---------- dynamic string kept outside of the tracker ---------- */
struct sbuf {
    char *s;
    size_t n, cap;
};

static void
sb_add(struct sbuf *b, const char *p, size_t n)
{
    if (b->n + n + 1 > b->cap) {
        b->cap = (b->n + n + 1) * 2;
        b->s = __real_realloc(b->s, b->cap);
    }
    memcpy(b->s + b->n, p, n);
    b->n += n;
    b->s[b->n] = 0;
}

static void
sb_str(struct sbuf *b, const char *p)
{
    sb_add(b, p, strlen(p));
}

static void
sb_hex(struct sbuf *b, const char *p, size_t n)
{
    static const char *hd = "0123456789abcdef";
    char t[2];

    if (!p) {
        sb_str(b, "~");
        return;
    }
    if (!n) {
        sb_str(b, "-");
        return;
    }
    for (size_t i = 0; i < n; i++) {
        t[0] = hd[((unsigned char)p[i]) >> 4];
        t[1] = hd[((unsigned char)p[i]) & 15];
        sb_add(b, t, 2);
    }
}

static void
sb_fmt(struct sbuf *b, const char *fmt, ...)
{
    char tmp[512];
    va_list ap;

    va_start(ap, fmt);
    vsnprintf(tmp, sizeof tmp, fmt, ap);
    va_end(ap);
    sb_str(b, tmp);
}

static void
sb_reset(struct sbuf *b)
{
    b->n = 0;
    if (b->s) {
        b->s[0] = 0;
    }
}

static void
sb_free(struct sbuf *b)
{
    __real_free(b->s);
    b->s = NULL;
    b->n = b->cap = 0;
}

/* class of the last error message of a context: the message without its quoted parts, lower case, '-' separated */
static void
errclass(char *buf, size_t size, const struct ly_ctx *ctx)
{
    const struct ly_err_item *e = ctx ? ly_err_last(ctx) : NULL;
    const char *m = e ? e->msg : NULL;
    size_t n = 0;
    int inq = 0;

    buf[0] = 0;
    if (!m) {
        return;
    }
    for ( ; *m && (n < size - 1); ++m) {
        if (*m == '"') {
            inq = !inq;
            continue;
        }
        if (inq) {
            continue;
        }
        if (isalnum((unsigned char)*m)) {
            buf[n++] = (char)tolower((unsigned char)*m);
        } else if (n && (buf[n - 1] != '-')) {
            buf[n++] = '-';
        }
    }
    while (n && (buf[n - 1] == '-')) {
        --n;
    }
    buf[n] = 0;
}

/* ---------- per-command string arguments (freed after the command) ---------- */
static char *argbuf[24];
static int nargbuf;

static char *
arg_str(const char *w)
{
    char *s;

    if (!strcmp(w, "~")) {
        return NULL;
    }
    s = vunhex(w, NULL);
    if (nargbuf < 24) {
        argbuf[nargbuf++] = s;
    }
    return s;
}

/* argument buffers that must outlive the command (a node was found to point into one), freed at the end of the case */
static char *keepbuf[64];
static int nkeepbuf;

static void
arg_keep(const char *p)
{
    for (int i = 0; i < nargbuf; i++) {
        if ((argbuf[i] == p) && (nkeepbuf < 64)) {
            keepbuf[nkeepbuf++] = argbuf[i];
            argbuf[i] = NULL;
        }
    }
}

static void
arg_free(void)
{
    while (nargbuf) {
        free(argbuf[--nargbuf]);
    }
}

/* ---------- nodes ---------- */
static struct lyd_node *
dfs_next(struct lyd_node *n)
{
    struct lyd_node *c = lyd_child(n);

    if (c) {
        return c;
    }
    while (n) {
        if (n->next) {
            return n->next;
        }
        n = lyd_parent(n);
    }
    return NULL;
}

static long
forest_count(struct lyd_node *first)
{
    long i = 0;

    for (struct lyd_node *n = first; n; n = dfs_next(n)) {
        ++i;
    }
    return i;
}

static int
slot_of(const char *w)
{
    int k = atoi(w);

    return ((k >= 0) && (k < NT)) ? k : 0;
}

/* "<slot>.<i>": (i mod count)-th node of the slot's forest; NULL for an empty slot or "~" */
static struct lyd_node *
node_at(const char *w, int *slot)
{
    int k;
    const char *d;
    long i, cnt;
    struct lyd_node *n;

    if (slot) {
        *slot = -1;
    }
    if (!isdigit((unsigned char)w[0])) {
        return NULL;
    }
    k = slot_of(w);
    if (slot) {
        *slot = k;
    }
    if (!T[k]) {
        return NULL;
    }
    d = strchr(w, '.');
    i = d ? atol(d + 1) : 0;
    cnt = forest_count(T[k]);
    i = (i < 0) ? 0 : i % cnt;
    for (n = T[k]; i--; n = dfs_next(n)) {}
    return n;
}

static void
fix_first(int k)
{
    if (T[k]) {
        while (T[k]->prev->next) {
            T[k] = T[k]->prev;
        }
    }
}

static int
is_ancestor_or_self(const struct lyd_node *a, const struct lyd_node *n)
{
    for ( ; n; n = lyd_parent(n)) {
        if (n == a) {
            return 1;
        }
    }
    return 0;
}

static struct lyd_node *
top_first(struct lyd_node *n)
{
    while (n && lyd_parent(n)) {
        n = lyd_parent(n);
    }
    return n ? lyd_first_sibling(n) : NULL;
}

static int
is_key(const struct lyd_node *n)
{
    return n && n->schema && (n->schema->flags & LYS_KEY) && (n->schema->nodetype == LYS_LEAF);
}

/* a node of the forest carries metadata of the module yang (diff operation, anchors, insert, ...) */
static int
has_yang_meta(struct lyd_node *first)
{
    for (struct lyd_node *n = first; n; n = dfs_next(n)) {
        if (!n->schema) {
            for (const struct lyd_attr *a = ((struct lyd_node_opaq *)n)->attr; a; a = a->next) {
                if (a->name.module_ns && (!strcmp(a->name.module_ns, "yang") || !strcmp(a->name.module_ns, "urn:ietf:params:xml:ns:yang:1"))) {
                    return 1;
                }
            }
            continue;
        }
        for (const struct lyd_meta *m = n->meta; m; m = m->next) {
            if (!lyd_meta_is_internal(m) && !strcmp(m->annotation->module->name, "yang")) {
                return 1;
            }
        }
    }
    return 0;
}

/* every root of the forest is a top-level schema node (or opaque): a data tree, not an unlinked nested subtree */
static int
all_top(struct lyd_node *first)
{
    for (struct lyd_node *n = first; n; n = n->next) {
        if (n->schema && lysc_data_parent(n->schema)) {
            return 0;
        }
    }
    return 1;
}

static int
mixed_roots(struct lyd_node *first)
{
    int top = 0, nested = 0;

    for (struct lyd_node *n = first; n; n = n->next) {
        if (n->schema && lysc_data_parent(n->schema)) {
            nested = 1;
        } else {
            top = 1;
        }
    }
    return top && nested;
}

static int
has_opaq(struct lyd_node *first)
{
    for (struct lyd_node *n = first; n; n = dfs_next(n)) {
        if (!n->schema) {
            return 1;
        }
    }
    return 0;
}

/* two equal instances of a configuration list / leaf-list or two instances of any other node among siblings (data that
 * cannot be valid) */
static int
has_dup_inst(struct lyd_node *first)
{
    for (struct lyd_node *n = first; n; n = dfs_next(n)) {
        if (!n->schema || lysc_is_dup_inst_list(n->schema)) {
            continue;
        }
        for (struct lyd_node *m = n->next; m; m = m->next) {
            if ((m->schema == n->schema) && (!(n->schema->nodetype & (LYS_LIST | LYS_LEAFLIST)) || !lyd_compare_single(n, m, 0))) {
                return 1;
            }
        }
    }
    return 0;
}

/* ---------- canonical dump of a forest ---------- */
#define DUMP_NOFLAGS 1

static void
dump_node(struct sbuf *o, const struct lyd_node *n, int depth, int opts, const struct lyd_node *skip,
        const struct lyd_node *skip_children_of)
{
    const struct lyd_node *c;

    for ( ; n; n = n->next) {
        if (n == skip) {
            continue;
        }
        sb_fmt(o, "%d:", depth);
        if (n->schema) {
            sb_fmt(o, "%s:%s:", n->schema->module->name, n->schema->name);
            if (n->schema->nodetype & LYD_NODE_TERM) {
                const char *v = lyd_get_value(n);

                sb_str(o, "=");
                sb_hex(o, v, v ? strlen(v) : 0);
            } else if (n->schema->nodetype & LYD_NODE_ANY) {
                const struct lyd_node_any *any = (const struct lyd_node_any *)n;

                sb_fmt(o, "a%d", (int)any->value_type);
                if (any->value_type == LYD_ANYDATA_DATATREE) {
                    sb_str(o, "{");
                    dump_node(o, any->value.tree, 0, opts, NULL, NULL);
                    sb_str(o, "}");
                } else if (any->value_type != LYD_ANYDATA_LYB) {
                    sb_hex(o, any->value.str, any->value.str ? strlen(any->value.str) : 0);
                }
            } else {
                sb_str(o, "i");
            }
            if (!(opts & DUMP_NOFLAGS)) {
                sb_fmt(o, ":f%x", (unsigned)n->flags);
            }
            for (const struct lyd_meta *m = n->meta; m; m = m->next) {
                const char *mv;

                if (lyd_meta_is_internal(m)) {
                    continue;
                }
                mv = lyd_get_meta_value(m);
                sb_fmt(o, ":@%s:%s=", m->annotation->module->name, m->name);
                sb_hex(o, mv, mv ? strlen(mv) : 0);
            }
        } else {
            const struct lyd_node_opaq *q = (const struct lyd_node_opaq *)n;

            sb_fmt(o, "?%s:%s:o", q->name.module_ns ? q->name.module_ns : "", q->name.name);
            sb_hex(o, q->value, q->value ? strlen(q->value) : 0);
            for (const struct lyd_attr *a = q->attr; a; a = a->next) {
                sb_fmt(o, ":@%s:%s=", a->name.module_ns ? a->name.module_ns : "", a->name.name);
                sb_hex(o, a->value, a->value ? strlen(a->value) : 0);
            }
        }
        sb_str(o, ";");
        if ((n != skip_children_of) && (c = lyd_child(n))) {
            dump_node(o, c, depth + 1, opts, skip, skip_children_of);
        }
    }
}

/* ---------- link checker (read only) ---------- */
static const char *
check_siblings(const struct lyd_node *first, const struct lyd_node *parent, int depth)
{
    const struct lyd_node *n, *prev = NULL, *last = NULL;
    const char *r;

    if (!first) {
        return NULL;
    }
    if (depth > 64) {
        return "depth";
    }
    if (first->prev->next) {
        return "first->prev is not the last sibling";
    }
    for (n = first; n; n = n->next) {
        if (lyd_parent(n) != parent) {
            return "parent pointer";
        }
        if (parent && parent->schema && n->schema && !(n->flags & LYD_EXT) && (lysc_data_parent(n->schema) != parent->schema)) {
            return "child of a node that is not its schema parent";
        }
        if (prev && (n->prev != prev)) {
            return "prev pointer";
        }
        prev = n;
        last = n;
    }
    if (first->prev != last) {
        return "first->prev != last";
    }
    /* opaque nodes may be placed anywhere (the API allows lyd_insert_before/after of an opaque node next to any sibling),
     * so only data nodes separate the instances of a schema node */
    for (n = first; n; n = n->next) {
        const struct lyd_node *nx;

        for (nx = n->next; nx && !nx->schema; nx = nx->next) {}
        if (n->schema && nx && (nx->schema != n->schema)) {
            for (const struct lyd_node *m = nx->next; m; m = m->next) {
                if (m->schema == n->schema) {
                    return "instances of one schema node are not contiguous";
                }
            }
        }
    }
    if (parent && (lyd_child(parent) != first)) {
        return "parent->child";
    }
    for (n = first; n; n = n->next) {
        if ((r = check_siblings(lyd_child(n), n, depth + 1))) {
            return r;
        }
    }
    return NULL;
}

static const char *
check_slot(int k)
{
    if (!T[k]) {
        return NULL;
    }
    if (lyd_parent(T[k])) {
        return "slot holds a nested node";
    }
    for (int j = 0; j < k; j++) {
        if (T[j] && (T[j] == T[k])) {
            return "two slots hold one forest";
        }
    }
    return check_siblings(T[k], NULL, 0);
}

/* ---------- dictionary statistics ---------- */
static void
dict_stat(const struct ly_ctx *ctx, long *used, long *refs)
{
    struct ly_ht *ht = ctx->dict.hash_tab;
    uint32_t hl, ri;
    struct ly_ht_rec *rec;

    *used = ht->used;
    *refs = 0;
    LYHT_ITER_ALL_RECS(ht, hl, ri, rec) {
        *refs += ((struct ly_dict_rec *)rec->val)->refcount;
    }
}

/* debugging aid: strings with their reference counts, sorted text is compared by the caller */
static void
dict_dump(const struct ly_ctx *ctx, struct sbuf *o)
{
    struct ly_ht *ht = ctx->dict.hash_tab;
    uint32_t hl, ri;
    struct ly_ht_rec *rec;

    LYHT_ITER_ALL_RECS(ht, hl, ri, rec) {
        struct ly_dict_rec *d = (struct ly_dict_rec *)rec->val;

        sb_fmt(o, "%u\t", d->refcount);
        sb_hex(o, d->value, strlen(d->value) > 40 ? 40 : strlen(d->value));
        sb_str(o, "\n");
    }
}

/* ------------------------------------------------------------------------------------------------
 * one command
 * ------------------------------------------------------------------------------------------------ */
struct cmdres {
    int rc;                 /* LY_ERR of the call */
    int fail;               /* the call failed (rc is an error for this API) */
    unsigned inv;           /* slots that the call may modify when it succeeds */
    unsigned modfail;       /* slots that the call may modify even when it fails */
    int skipped;
    unsigned newdiff;       /* slots that received a diff made by the library */
    unsigned keep_diff;     /* slots that still hold a library-made diff although they are in inv */
    const struct ly_ctx *ectx;  /* context whose last error describes the failure */
    struct sbuf flags;
};

static const struct lys_module *
mod_arg(const char *w)
{
    /* "a0" "b1" "t0" ... or "~" */
    char name[2] = {w[0], 0};
    int c = (w[1] == '1') ? 1 : 0;

    if ((w[0] == '~') || !w[0]) {
        return NULL;
    }
    if (w[0] == 'y') {
        return ly_ctx_get_module_implemented(C[c], "yang");
    }
    return ly_ctx_get_module_implemented(C[c], name);
}

static const struct ly_ctx *
ctx_arg(const char *w)
{
    if (w[0] == '0') {
        return C[0];
    } else if (w[0] == '1') {
        return C[1];
    }
    return NULL;
}

static LYD_FORMAT
fmt_of(const char *w)
{
    switch (w[0]) {
    case 'x':
        return LYD_XML;
    case 'j':
        return LYD_JSON;
    case 'b':
        return LYD_LYB;
    }
    return LYD_UNKNOWN;
}

static void
watch_set(const void *p)
{
    if (p && (nwatch < 16)) {
        watch[nwatch++] = p;
    }
}

static int
watch_was_freed(const void *p)
{
    for (int i = 0; i < nwatch; i++) {
        if ((watch[i] == p) && (watch_freed & (1u << i))) {
            return 1;
        }
    }
    return 0;
}

/* a new top-level tree goes into slot d (emptied before the call by take_dest()) */
static int
take_dest(const char *w, struct cmdres *r, int in1, int in2)
{
    int d = slot_of(w);

    if ((d == in1) || (d == in2)) {
        return -1;
    }
    lyd_free_all(T[d]);
    T[d] = NULL;
    r->inv |= 1u << d;
    r->modfail |= 1u << d;
    return d;
}

/* callbacks that fail at the K-th call: every API that takes a callback must clean up after any of its calls fails */
struct failcb {
    int failat;
    int calls;
};

static LY_ERR
failcb_step(struct failcb *f)
{
    ++f->calls;
    return (f->failat && (f->calls == f->failat)) ? LY_EDENIED : LY_SUCCESS;
}

static LY_ERR
merge_failcb(struct lyd_node *trg_node, const struct lyd_node *src_node, void *cb_data)
{
    (void)trg_node; (void)src_node;
    return failcb_step(cb_data);
}

static LY_ERR
diff_failcb(const struct lyd_node *diff_node, struct lyd_node *data_node, void *cb_data)
{
    (void)diff_node; (void)data_node;
    return failcb_step(cb_data);
}

#define NEED(n) if (nw < (n)) { r->skipped = 2; return; }
#define SKIP() do { r->skipped = 1; return; } while (0)
#define OPTS(w) ((uint32_t)strtoul((w), NULL, 0))

static void
run_cmd(char **w, int nw, struct cmdres *r)
{
    const char *c = w[0];

    if (!strcmp(c, "term") || !strcmp(c, "inner") || !strcmp(c, "list") || !strcmp(c, "list2") || !strcmp(c, "any") ||
            !strcmp(c, "opaq") || !strcmp(c, "opaq2")) {
        /* term P mod name val opts D | inner P mod name output D | list P mod name k1 k2 opts D |
         * list2 P mod name keys opts D | any P mod name vtype val opts D | opaq P ctx name val prefix modname D */
        int ps, d, last = nw - 1, srcslot = -1;
        struct lyd_node *parent, *node = NULL, *anytree = NULL;
        const struct lys_module *mod;
        char *name, *anystr = NULL;
        uint32_t opts;

        NEED(6);
        parent = node_at(w[1], &ps);
        if ((w[1][0] != '~') && !parent) {
            SKIP();
        }
        if (!strcmp(c, "any") && (w[4][0] == 't')) {
            NEED(8);
            srcslot = slot_of(w[5]);
            anytree = T[srcslot];
            if ((srcslot == ps) || !anytree || (parent && (LYD_CTX(parent) != LYD_CTX(anytree)))) {
                /* a tree cannot become the value of its own descendant; trees of another context are not put in */
                SKIP();
            }
        }
        if (parent && !parent->schema && (c[0] != 'o') && (w[2][0] == '~')) {
            /* "module: if NULL, the parent's module is used" - an opaque parent has none (NULL dereference) */
            SKIP();
        }
        d = take_dest(w[last], r, ps, srcslot);
        if (d < 0) {
            SKIP();
        }
        if (ps >= 0) {
            r->inv |= 1u << ps;
        }
        mod = (c[0] == 'o') ? NULL : mod_arg(w[2]);
        name = arg_str(w[3]);
        if ((c[0] == 'o') && (!name || !name[0] || (parent && parent->schema && !(parent->schema->nodetype & LYD_NODE_INNER)))) {
            /* lyd_new_opaq*() asserts on an empty name and on a parent that cannot have children */
            SKIP();
        }
        r->ectx = parent ? LYD_CTX(parent) : (mod ? mod->ctx : C[0]);
        if (!strcmp(c, "term")) {
            const struct lysc_node *ks;

            NEED(7);
            if (parent && parent->schema && (parent->schema->nodetype == LYS_LIST) && name &&
                    (ks = lys_find_child(parent->schema, mod ? mod : parent->schema->module, name, 0, LYS_LEAF, 0)) &&
                    (ks->flags & LYS_KEY)) {
                /* a second key leaf in a list instance (see parsep) */
                SKIP();
            }
            opts = OPTS(w[5]) & ~(uint32_t)(LYD_NEW_VAL_BIN | LYD_NEW_VAL_CANON);
            r->rc = lyd_new_term(parent, mod, name, arg_str(w[4]), opts, &node);
        } else if (!strcmp(c, "inner")) {
            r->rc = lyd_new_inner(parent, mod, name, atoi(w[4]), &node);
        } else if (!strcmp(c, "list")) {
            char *k1, *k2;

            NEED(8);
            k1 = arg_str(w[4]);
            k2 = arg_str(w[5]);
            opts = OPTS(w[6]) & ~(uint32_t)(LYD_NEW_VAL_BIN | LYD_NEW_VAL_CANON);
            r->rc = lyd_new_list(parent, mod, name, opts, &node, k1 ? k1 : "", k2 ? k2 : "");
        } else if (!strcmp(c, "list2")) {
            NEED(7);
            opts = OPTS(w[5]) & ~(uint32_t)(LYD_NEW_VAL_BIN | LYD_NEW_VAL_CANON);
            r->rc = lyd_new_list2(parent, mod, name, arg_str(w[4]), opts, &node);
        } else if (!strcmp(c, "any")) {
            LYD_ANYDATA_VALUETYPE vt;
            const void *val;
            int use;

            NEED(8);
            opts = OPTS(w[6]) & (LYD_NEW_VAL_OUTPUT | LYD_NEW_ANY_USE_VALUE);
            use = (opts & LYD_NEW_ANY_USE_VALUE) ? 1 : 0;
            if (w[4][0] == 't') {
                vt = LYD_ANYDATA_DATATREE;
                val = anytree;
                watch_set(anytree);
                r->inv |= 1u << srcslot;
            } else {
                char *s = arg_str(w[5]);

                vt = (w[4][0] == 'x') ? LYD_ANYDATA_XML : (w[4][0] == 'j') ? LYD_ANYDATA_JSON : LYD_ANYDATA_STRING;
                if (!s) {
                    /* a NULL string is accepted for the STRING type only (documented as an empty tree) */
                    vt = LYD_ANYDATA_STRING;
                    use = 0;
                    opts &= ~(uint32_t)LYD_NEW_ANY_USE_VALUE;
                }
                if (use) {
                    anystr = strdup(s);
                    watch_set(anystr);
                    val = anystr;
                } else {
                    val = s;
                }
            }
            r->rc = lyd_new_any(parent, mod, name, val, vt, opts, &node);
            if (use) {
                if (r->rc) {
                    /* not consumed on failure: still ours */
                    if (watch_was_freed(anytree ? (void *)anytree : (void *)anystr)) {
                        sb_str(&r->flags, "FREED!");
                        if (anytree) {
                            T[srcslot] = NULL;
                        }
                    } else if (anystr) {
                        free(anystr);
                    }
                } else if (anytree) {
                    T[srcslot] = NULL;
                }
            }
        } else {
            const struct ly_ctx *ctx = ctx_arg(w[2]);

            NEED(8);
            r->ectx = ctx ? ctx : r->ectx;
            if (!parent && !ctx) {
                ctx = NULL;     /* documented: ctx may be NULL only with a parent -> LY_EINVAL */
            }
            if (!strcmp(c, "opaq")) {
                r->rc = lyd_new_opaq(parent, ctx, name, arg_str(w[4]), arg_str(w[5]), arg_str(w[6]), &node);
            } else {
                r->rc = lyd_new_opaq2(parent, ctx, name, arg_str(w[4]), arg_str(w[5]), arg_str(w[6]), &node);
            }
        }
        r->fail = r->rc ? 1 : 0;
        if (r->rc && node) {
            sb_str(&r->flags, "OUT!");
        } else if (!r->rc && !parent) {
            T[d] = node;
        }
    } else if (!strcmp(c, "meta")) {
        /* meta N ctx mod name val opts */
        struct lyd_node *n;
        struct lyd_meta *meta = NULL;
        int s;

        NEED(7);
        if (!(n = node_at(w[1], &s))) {
            SKIP();
        }
        r->inv |= 1u << s;
        r->ectx = LYD_CTX(n);
        r->rc = lyd_new_meta(ctx_arg(w[2]), n, mod_arg(w[3]), arg_str(w[4]), arg_str(w[5]),
                OPTS(w[6]) & (LYD_NEW_VAL_STORE_ONLY | LYD_NEW_META_CLEAR_DFLT), &meta);
        r->fail = r->rc ? 1 : 0;
        if (r->rc && meta) {
            sb_str(&r->flags, "OUT!");
        }
    } else if (!strcmp(c, "attr")) {
        /* attr N modname name val : JSON attribute of an opaque node (LY_EINVAL on a data node) */
        struct lyd_node *n;
        struct lyd_attr *attr = NULL;
        int s;
        char *name;

        NEED(5);
        if (!(n = node_at(w[1], &s))) {
            SKIP();
        }
        name = arg_str(w[3]);
        if (!name) {
            SKIP();
        }
        r->inv |= 1u << s;
        r->ectx = LYD_CTX(n);
        r->rc = lyd_new_attr(n, arg_str(w[2]), name, arg_str(w[4]), &attr);
        r->fail = r->rc ? 1 : 0;
        if (r->rc && attr) {
            sb_str(&r->flags, "OUT!");
        }
    } else if (!strcmp(c, "path") || !strcmp(c, "path1")) {
        /* path N|<slot> ctx path val opts [t<slot>] : lyd_new_path2 (path1: lyd_new_path); parent = node N, or NULL when the slot
         * is empty (the new tree then goes into the slot); t<slot>: the value is the data tree in that slot
         * (LYD_ANYDATA_DATATREE, copied); a string value is taken as XML / JSON / string by its first character */
        struct lyd_node *parent, *np = NULL, *nn = NULL;
        int s;
        char *p, *v;
        uint32_t opts;
        const struct ly_ctx *ctx;

        NEED(6);
        parent = node_at(w[1], &s);
        if (s < 0) {
            SKIP();
        }
        ctx = ctx_arg(w[2]);
        if (!parent && !ctx) {
            ctx = C[0];
        }
        p = arg_str(w[3]);
        v = arg_str(w[4]);
        if (!p) {
            SKIP();
        }
        if ((p[0] == '/') && !all_top(T[s])) {
            /* a new top-level node would become a sibling of an unlinked nested node */
            SKIP();
        }
        opts = OPTS(w[5]) & (LYD_NEW_VAL_OUTPUT | LYD_NEW_VAL_STORE_ONLY | LYD_NEW_PATH_UPDATE | LYD_NEW_PATH_OPAQ |
                LYD_NEW_PATH_WITH_OPAQ);
        r->inv |= 1u << s;
        r->ectx = parent ? LYD_CTX(parent) : ctx;
        if (c[4]) {
            r->rc = lyd_new_path(parent, ctx, p, v, opts, &np);
        } else {
            if ((nw > 6) && (w[6][0] == 't')) {
                int vs = slot_of(w[6] + 1);

                if ((vs == s) || !T[vs] || (LYD_CTX(T[vs]) != (parent ? LYD_CTX(parent) : ctx))) {
                    SKIP();
                }
                r->rc = lyd_new_path2(parent, ctx, p, T[vs], 0, LYD_ANYDATA_DATATREE, opts, &np, &nn);
            } else {
                r->rc = lyd_new_path2(parent, ctx, p, v, v ? strlen(v) : 0, LYD_ANYDATA_STRING, opts, &np, &nn);
            }
        }
        r->fail = r->rc ? 1 : 0;
        if (r->rc && (np || nn)) {
            sb_str(&r->flags, "OUT!");
        }
        if (!nn) {
            nn = np;
        }
        if (!r->rc && nn && nn->schema && (nn->schema->nodetype & LYD_NODE_ANY) && v &&
                (((struct lyd_node_any *)nn)->value.str == v)) {
            /* the node holds the caller's buffer itself instead of a copy. Reported; then the node is given a dictionary
             * copy of its own (what its value type promises), otherwise freeing it would take a reference that belongs to
             * someone else and later commands would run on a corrupted dictionary (use after free in unrelated calls) */
            sb_str(&r->flags, "ANYPTR!");
            arg_keep(v);
            lydict_insert(LYD_CTX(nn), v, 0, &((struct lyd_node_any *)nn)->value.str);
        }
        if (!r->rc && !T[s] && np) {
            T[s] = top_first(np);
        }
        fix_first(s);
    } else if (!strcmp(c, "ins")) {
        /* ins c|s|b|a TGT SRC : lyd_insert_child/sibling/before/after(TGT, SRC) */
        struct lyd_node *tgt, *n, *first = NULL, *nx;
        int t, s, was_top, was_first;

        NEED(4);
        tgt = node_at(w[2], &t);
        n = node_at(w[3], &s);
        if (!tgt || !n || (tgt == n) || is_key(n)) {
            SKIP();
        }
        if ((s == t) && (!lyd_parent(n) || is_ancestor_or_self(n, tgt))) {
            /* a node cannot be moved below itself; a top-level node of the target's own forest is not moved (the
             * "all following siblings are moved too" rule could move an ancestor of the target) */
            SKIP();
        }
        if ((w[1][0] == 's') && (LYD_CTX(tgt) != LYD_CTX(n))) {
            /* lyd_insert_sibling() does not compare the contexts: a mixed forest is not created here */
            SKIP();
        }
        was_top = lyd_parent(n) ? 0 : 1;
        was_first = (n == T[s]);
        nx = n->next;
        if (was_top && was_first && nx && ((w[1][0] == 'c') || (w[1][0] == 's'))) {
            /* all the siblings are going to be moved: not when that puts a second equal (leaf-)list instance next to
             * one of the destination (lyds_merge_nodes2_among() has been seen to run off its red-black tree then) */
            struct lyd_node *dst = (w[1][0] == 'c') ? lyd_child(tgt) : lyd_first_sibling(tgt), *m;

            if (has_dup_inst(n)) {
                SKIP();
            }
            for (struct lyd_node *it = n; it && dst; it = it->next) {
                if (it->schema && (it->schema->nodetype & (LYS_LIST | LYS_LEAFLIST)) && !lysc_is_dup_inst_list(it->schema) &&
                        (lyd_parent(dst) ? (lysc_data_parent(it->schema) == lyd_parent(dst)->schema) : !lysc_data_parent(it->schema)) &&
                        !lyd_find_sibling_first(dst, it, &m)) {
                    SKIP();
                }
            }
        }
        watch_set(n);
        watch_set(tgt);
        r->inv |= (1u << t) | (1u << s);
        r->ectx = LYD_CTX(tgt);
        switch (w[1][0]) {
        case 'c':
            r->rc = lyd_insert_child(tgt, n);
            break;
        case 's':
            r->rc = lyd_insert_sibling(tgt, n, &first);
            break;
        case 'b':
            r->rc = lyd_insert_before(tgt, n);
            break;
        default:
            r->rc = lyd_insert_after(tgt, n);
            break;
        }
        r->fail = r->rc ? 1 : 0;
        if (r->rc) {
            if (first) {
                sb_str(&r->flags, "OUT!");
            }
            if (watch_was_freed(n) || watch_was_freed(tgt)) {
                sb_str(&r->flags, "FREED!");
                T[s] = NULL;
                if (watch_was_freed(tgt)) {
                    T[t] = NULL;
                }
            }
        } else {
            if ((s != t) && was_top && was_first) {
                if (((w[1][0] == 'c') || (w[1][0] == 's')) && nx) {
                    T[s] = NULL;        /* the node and all its following siblings were moved */
                } else {
                    T[s] = nx;
                }
            }
            fix_first(t);
            if (s != t) {
                fix_first(s);
            }
        }
    } else if (!strcmp(c, "unlink")) {
        /* unlink N D */
        struct lyd_node *n, *nx;
        int s, d;

        NEED(3);
        if (!(n = node_at(w[1], &s)) || is_key(n)) {
            SKIP();
        }
        if ((d = take_dest(w[2], r, s, -1)) < 0) {
            SKIP();
        }
        nx = n->next;
        r->inv |= 1u << s;
        r->ectx = LYD_CTX(n);
        r->rc = lyd_unlink_tree(n);
        r->fail = r->rc ? 1 : 0;
        if (!r->rc) {
            if (n == T[s]) {
                T[s] = nx;
            }
            T[d] = n;
        }
    } else if (!strcmp(c, "free")) {
        NEED(2);
        lyd_free_all(T[slot_of(w[1])]);
        T[slot_of(w[1])] = NULL;
        r->inv |= 1u << slot_of(w[1]);
    } else if (!strcmp(c, "freen") || !strcmp(c, "freesib")) {
        /* freen N : lyd_free_tree | freesib N : lyd_free_siblings ; everything outside must stay as it was */
        struct lyd_node *n, *par;
        int s;
        struct sbuf exp = {0}, got = {0};

        NEED(2);
        if (!(n = node_at(w[1], &s)) || is_key(n)) {
            SKIP();
        }
        par = lyd_parent(n);
        r->inv |= 1u << s;
        if (c[4] == 'n') {
            dump_node(&exp, T[s], 0, DUMP_NOFLAGS, n, NULL);
            if (n == T[s]) {
                T[s] = n->next;
            }
            lyd_free_tree(n);
        } else {
            if (par && par->schema && (par->schema->nodetype == LYS_LIST)) {
                /* would free the keys of a list instance */
                SKIP();
            }
            if (!par) {
                T[s] = NULL;
            } else {
                dump_node(&exp, T[s], 0, DUMP_NOFLAGS, NULL, par);
            }
            lyd_free_siblings(n);
        }
        dump_node(&got, T[s], 0, DUMP_NOFLAGS, NULL, NULL);
        if (strcmp(exp.s ? exp.s : "", got.s ? got.s : "")) {
            sb_str(&r->flags, "REST!");
        }
        sb_free(&exp);
        sb_free(&got);
    } else if (!strcmp(c, "chg")) {
        /* chg N val */
        struct lyd_node *n;
        int s;

        NEED(3);
        if (!(n = node_at(w[1], &s)) || is_key(n)) {
            SKIP();
        }
        if (!n->schema || !(n->schema->nodetype & LYD_NODE_TERM)) {
            SKIP();
        }
        r->inv |= 1u << s;
        r->ectx = LYD_CTX(n);
        r->rc = lyd_change_term(n, arg_str(w[2]));
        r->fail = (r->rc && (r->rc != LY_EEXIST) && (r->rc != LY_ENOT)) ? 1 : 0;
        fix_first(s);       /* an instance of a sorted leaf-list moves to its new place */
    } else if (!strcmp(c, "vval")) {
        /* vval P ctx spath val flags */
        struct lyd_node *cn;
        const struct ly_ctx *ctx;
        const struct lysc_node *sn;
        const struct lysc_type *rt = NULL;
        const char *canon = NULL;
        char *sp, *v;
        int s, fl;
        uint32_t lo = 0, *plo;

        NEED(6);
        cn = node_at(w[1], &s);
        ctx = ctx_arg(w[2]);
        sp = arg_str(w[3]);
        v = arg_str(w[4]);
        fl = atoi(w[5]);
        if (!ctx) {
            ctx = cn ? LYD_CTX(cn) : C[0];
        }
        if (!sp || !v || (cn && (LYD_CTX(cn) != ctx))) {
            SKIP();
        }
        if (cn && !cn->schema) {
            /* an opaque context node has no schema node to resolve a leafref path from: lyplg_type_resolve_leafref()
             * dereferences node->schema */
            SKIP();
        }
        plo = ly_temp_log_options(&lo);
        sn = lys_find_path(ctx, NULL, sp, 0);
        ly_temp_log_options(plo);
        if (!sn || !(sn->nodetype & LYD_NODE_TERM)) {
            SKIP();
        }
        r->ectx = ctx;
        r->rc = lyd_value_validate((fl & 4) ? NULL : ctx, sn, v, strlen(v), cn, (fl & 2) ? &rt : NULL, (fl & 1) ? &canon : NULL);
        r->fail = (r->rc && (r->rc != LY_EINCOMPLETE)) ? 1 : 0;
        if (r->fail && canon) {
            sb_str(&r->flags, "OUT!");
        }
        if (canon) {
            lydict_remove(ctx, canon);
        }
    } else if (!strcmp(c, "vcmp")) {
        /* vcmp N val */
        struct lyd_node *n;
        char *v;
        int s;

        NEED(3);
        v = arg_str(w[2]);
        if (!(n = node_at(w[1], &s)) || !n->schema || !(n->schema->nodetype & LYD_NODE_TERM) || !v) {
            SKIP();
        }
        r->ectx = LYD_CTX(n);
        r->rc = lyd_value_compare((struct lyd_node_term *)n, v, strlen(v));
        r->fail = (r->rc && (r->rc != LY_ENOT)) ? 1 : 0;
    } else if (!strcmp(c, "chgcanon") || !strcmp(c, "chgbin")) {
        /* chgcanon N M : the canonical value of M (a node of the same schema node) | chgbin N val (string / binary types) */
        struct lyd_node *n, *m;
        int s, ms;

        NEED(3);
        if (!(n = node_at(w[1], &s)) || is_key(n) || !n->schema || !(n->schema->nodetype & LYD_NODE_TERM)) {
            SKIP();
        }
        r->inv |= 1u << s;
        r->ectx = LYD_CTX(n);
        if (c[3] == 'c') {
            m = node_at(w[2], &ms);
            if (!m || (m->schema != n->schema)) {
                /* "If the value is not canonical, it may lead to unexpected behavior" */
                SKIP();
            }
            r->rc = lyd_change_term_canon(n, lyd_get_value(m));
        } else {
            LY_DATA_TYPE bt = ((struct lysc_node_leaf *)n->schema)->type->basetype;
            char *v = arg_str(w[2]);

            if (!v || ((bt != LY_TYPE_STRING) && (bt != LY_TYPE_BINARY))) {
                /* the LYB form of the other types is a trusted fixed-size representation */
                SKIP();
            }
            r->rc = lyd_change_term_bin(n, v, strlen(v));
        }
        r->fail = (r->rc && (r->rc != LY_EEXIST) && (r->rc != LY_ENOT)) ? 1 : 0;
        fix_first(s);
    } else if (!strcmp(c, "freemeta")) {
        /* freemeta N j s|a */
        struct lyd_node *n;
        struct lyd_meta *m, *pick = NULL;
        struct sbuf exp = {0}, got = {0};
        int s, cnt = 0, j, all;

        NEED(4);
        if (!(n = node_at(w[1], &s)) || !n->schema) {
            SKIP();
        }
        for (m = n->meta; m; m = m->next) {
            cnt += lyd_meta_is_internal(m) ? 0 : 1;
        }
        if (!cnt) {
            SKIP();
        }
        all = (w[3][0] == 'a');
        j = atoi(w[2]) % cnt;
        for (m = n->meta; m; m = m->next) {
            if (!lyd_meta_is_internal(m) && !j--) {
                pick = m;
                break;
            }
        }
        if (all) {
            for (m = pick->next; m; m = m->next) {
                if (lyd_meta_is_internal(m)) {
                    /* the tail holds metadata that belong to the library */
                    SKIP();
                }
            }
        }
        for (m = n->meta; m; m = m->next) {
            if (m == pick) {
                if (all) {
                    break;
                }
                continue;
            }
            sb_fmt(&exp, "%s:%s=%s;", m->annotation->module->name, m->name, lyd_get_meta_value(m));
        }
        r->inv |= 1u << s;
        r->ectx = LYD_CTX(n);
        if (all) {
            lyd_free_meta_siblings(pick);
        } else {
            lyd_free_meta_single(pick);
        }
        for (m = n->meta; m; m = m->next) {
            sb_fmt(&got, "%s:%s=%s;", m->annotation->module->name, m->name, lyd_get_meta_value(m));
        }
        if (strcmp(exp.s ? exp.s : "", got.s ? got.s : "")) {
            sb_str(&r->flags, "CHAIN!");
        }
        sb_free(&exp);
        sb_free(&got);
    } else if (!strcmp(c, "freeattr")) {
        /* freeattr N j s|a */
        struct lyd_node *n;
        struct lyd_node_opaq *q;
        struct lyd_attr *a, *pick = NULL;
        struct sbuf exp = {0}, got = {0};
        int s, cnt = 0, j, all;

        NEED(4);
        if (!(n = node_at(w[1], &s)) || n->schema) {
            SKIP();
        }
        q = (struct lyd_node_opaq *)n;
        for (a = q->attr; a; a = a->next) {
            ++cnt;
        }
        if (!cnt) {
            SKIP();
        }
        all = (w[3][0] == 'a');
        j = atoi(w[2]) % cnt;
        for (a = q->attr; a; a = a->next) {
            if (!j--) {
                pick = a;
                break;
            }
        }
        for (a = q->attr; a; a = a->next) {
            if (a == pick) {
                if (all) {
                    break;
                }
                continue;
            }
            sb_fmt(&exp, "%s:%s=%s;", a->name.module_ns ? a->name.module_ns : "", a->name.name, a->value ? a->value : "");
        }
        r->inv |= 1u << s;
        r->ectx = LYD_CTX(n);
        if (all) {
            lyd_free_attr_siblings(LYD_CTX(n), pick);
        } else {
            lyd_free_attr_single(LYD_CTX(n), pick);
        }
        for (a = q->attr; a; a = a->next) {
            sb_fmt(&got, "%s:%s=%s;", a->name.module_ns ? a->name.module_ns : "", a->name.name, a->value ? a->value : "");
        }
        if (strcmp(exp.s ? exp.s : "", got.s ? got.s : "")) {
            sb_str(&r->flags, "CHAIN!");
        }
        sb_free(&exp);
        sb_free(&got);
    } else if (!strcmp(c, "dupmeta")) {
        /* dupmeta N j M */
        struct lyd_node *n, *trg;
        struct lyd_meta *m, *pick = NULL, *dup = NULL;
        int s, ts, cnt = 0, j;

        NEED(4);
        n = node_at(w[1], &s);
        trg = node_at(w[3], &ts);
        if (!n || !n->schema || !trg || !trg->schema) {
            SKIP();
        }
        for (m = n->meta; m; m = m->next) {
            cnt += lyd_meta_is_internal(m) ? 0 : 1;
        }
        if (!cnt) {
            SKIP();
        }
        j = atoi(w[2]) % cnt;
        for (m = n->meta; m; m = m->next) {
            if (!lyd_meta_is_internal(m) && !j--) {
                pick = m;
                break;
            }
        }
        r->inv |= 1u << ts;
        r->ectx = LYD_CTX(trg);
        r->rc = lyd_dup_meta_single(pick, trg, &dup);
        r->fail = r->rc ? 1 : 0;
        if (r->rc && dup) {
            sb_str(&r->flags, "OUT!");
        }
    } else if (!strcmp(c, "anystr")) {
        /* anystr N */
        struct lyd_node *n;
        char *str = NULL;
        int s;

        NEED(2);
        if (!(n = node_at(w[1], &s)) || !n->schema || !(n->schema->nodetype & LYD_NODE_ANY)) {
            SKIP();
        }
        r->ectx = LYD_CTX(n);
        r->rc = lyd_any_value_str(n, &str);
        r->fail = r->rc ? 1 : 0;
        if (r->rc && str) {
            sb_str(&r->flags, "OUT!");
        }
        free(str);
    } else if (!strcmp(c, "anycopy")) {
        /* anycopy N M|~ : lyd_any_copy_value(N, value of M, its type); "~": the value of N is only freed */
        struct lyd_node *n, *m;
        int s, ms;

        NEED(3);
        if (!(n = node_at(w[1], &s)) || !n->schema || !(n->schema->nodetype & LYD_NODE_ANY)) {
            SKIP();
        }
        m = node_at(w[2], &ms);
        if ((w[2][0] != '~') && (!m || !m->schema || !(m->schema->nodetype & LYD_NODE_ANY) || (m == n) ||
                (LYD_CTX(m) != LYD_CTX(n)))) {
            SKIP();
        }
        r->inv |= 1u << s;
        r->modfail |= 1u << s;
        r->ectx = LYD_CTX(n);
        r->rc = lyd_any_copy_value(n, m ? &((struct lyd_node_any *)m)->value : NULL,
                m ? ((struct lyd_node_any *)m)->value_type : LYD_ANYDATA_STRING);
        r->fail = r->rc ? 1 : 0;
    } else if (!strcmp(c, "chgmeta")) {
        /* chgmeta N j val : j-th (mod count) non-internal metadata of the node */
        struct lyd_node *n;
        struct lyd_meta *m, *pick = NULL;
        int s, cnt = 0, j;

        NEED(4);
        if (!(n = node_at(w[1], &s)) || !n->schema) {
            SKIP();
        }
        for (m = n->meta; m; m = m->next) {
            cnt += lyd_meta_is_internal(m) ? 0 : 1;
        }
        if (!cnt) {
            SKIP();
        }
        j = atoi(w[2]) % cnt;
        for (m = n->meta; m; m = m->next) {
            if (!lyd_meta_is_internal(m) && !j--) {
                pick = m;
                break;
            }
        }
        r->inv |= 1u << s;
        r->ectx = LYD_CTX(n);
        r->rc = lyd_change_meta(pick, arg_str(w[3]));
        r->fail = (r->rc && (r->rc != LY_ENOT)) ? 1 : 0;
    } else if (!strcmp(c, "dup")) {
        /* dup N P|~ opts D s|b ctx|~ : lyd_dup_single / lyd_dup_siblings [_to_ctx] */
        struct lyd_node *n, *par, *dup = NULL;
        int s, ps, d;
        uint32_t opts;
        const struct ly_ctx *tctx;

        NEED(7);
        n = node_at(w[1], &s);
        par = node_at(w[2], &ps);
        if (!n || ((w[2][0] != '~') && !par)) {
            SKIP();
        }
        if (par && (!par->schema || !(par->schema->nodetype & LYD_NODE_INNER))) {
            /* the parameter is a struct lyd_node_inner * */
            SKIP();
        }
        if (is_key(n)) {
            /* "duplicating a single key, okay, I suppose...": asserts with LYD_DUP_WITH_PARENTS */
            SKIP();
        }
        if (par && ctx_arg(w[6]) && (LYD_CTX(par) != ctx_arg(w[6]))) {
            /* lyd_dup_*_to_ctx() does not check that the parent belongs to the target context */
            SKIP();
        }
        if (par && (par == lyd_parent(n))) {
            /* a second instance of every copied sibling below the same parent: data that cannot be valid (two
             * instances of a container / leaf), the children hash table of the parent asserts on them */
            SKIP();
        }
        if (par && !(OPTS(w[3]) & LYD_DUP_WITH_PARENTS) && n->schema && (lysc_data_parent(n->schema) != par->schema)) {
            /* without LYD_DUP_WITH_PARENTS the library does not check that the copy can be a child of the parent and
             * links it there regardless */
            SKIP();
        }
        if ((d = take_dest(w[4], r, s, ps)) < 0) {
            SKIP();
        }
        opts = OPTS(w[3]);
        tctx = ctx_arg(w[6]);
        if (ps >= 0) {
            r->inv |= 1u << ps;
        }
        r->ectx = tctx ? tctx : LYD_CTX(n);
        if (tctx) {
            r->rc = (w[5][0] == 's') ? lyd_dup_single_to_ctx(n, tctx, (struct lyd_node_inner *)par, opts, &dup) :
                    lyd_dup_siblings_to_ctx(n, tctx, (struct lyd_node_inner *)par, opts, &dup);
        } else {
            r->rc = (w[5][0] == 's') ? lyd_dup_single(n, (struct lyd_node_inner *)par, opts, &dup) :
                    lyd_dup_siblings(n, (struct lyd_node_inner *)par, opts, &dup);
        }
        r->fail = r->rc ? 1 : 0;
        if (r->rc && dup) {
            sb_str(&r->flags, "OUT!");
        }
        if (!r->rc && dup) {
            struct lyd_node *top = top_first(dup);
            int owned = 0;

            for (int k = 0; k < NT; k++) {
                if (T[k] && (top_first(T[k]) == top)) {
                    owned = 1;
                }
            }
            if (!owned) {
                T[d] = top;
            }
        }
        if (ps >= 0) {
            fix_first(ps);
        }
    } else if (!strcmp(c, "merge")) {
        /* merge T S opts t|s : lyd_merge_tree / lyd_merge_siblings(&T[T], T[S], opts) */
        int t, s;
        uint16_t opts;
        struct lyd_node *src;

        NEED(5);
        t = slot_of(w[1]);
        s = slot_of(w[2]);
        if ((t == s) || !T[s]) {
            SKIP();
        }
        if (has_opaq(T[s])) {
            /* lyd_merge_sibling_r() -> lyd_dup_inst_next() asserts on an opaque source node that is not in the target */
            SKIP();
        }
        if (has_dup_inst(T[t]) || has_dup_inst(T[s])) {
            SKIP();
        }
        if (mixed_roots(T[t]) || mixed_roots(T[s])) {
            /* forests that mix top-level and unlinked nested nodes (the library checks the first node only) */
            SKIP();
        }
        src = T[s];
        opts = (uint16_t)(OPTS(w[3]) & 0x7);
        r->inv |= 1u << t;
        r->modfail |= 1u << t;
        r->ectx = LYD_CTX(src);
        watch_set(src);
        watch_set(T[t]);
        if (opts & LYD_MERGE_DESTRUCT) {
            r->inv |= 1u << s;
            r->modfail |= 1u << s;
        }
        if (w[4][0] == 'm') {
            struct failcb fc = {0, 0};
            const struct lys_module *mod;

            NEED(7);
            fc.failat = atoi(w[5]);
            mod = mod_arg(w[6]);
            if (mod && (mod->ctx != LYD_CTX(src))) {
                mod = NULL;
            }
            r->rc = lyd_merge_module(&T[t], src, mod, merge_failcb, &fc, opts);
        } else {
            r->rc = (w[4][0] == 't') ? lyd_merge_tree(&T[t], src, opts) : lyd_merge_siblings(&T[t], src, opts);
        }
        r->fail = r->rc ? 1 : 0;
        if (r->rc && T[t] && watch_was_freed(T[t])) {
            /* the first target sibling was freed: lyd_merge() freed the siblings of a spent source node that already is in
             * the target, i.e. the whole target forest; what is left of the source is lost */
            sb_str(&r->flags, "TFREED!");
            T[t] = NULL;
            T[s] = NULL;
        } else if (opts & LYD_MERGE_DESTRUCT) {
            /* "Spend source data tree in the function, it cannot be used afterwards!" */
            if (r->rc && !watch_was_freed(src) && (!T[t] || (top_first(src) != lyd_first_sibling(T[t])))) {
                sb_str(&r->flags, "NC!");       /* neither freed nor moved: kept so that it is not reported as a leak */
            } else {
                T[s] = NULL;
            }
        } else if (watch_was_freed(src)) {
            sb_str(&r->flags, "FREED!");
            T[s] = NULL;
        }
        if (T[t] && T[t]->prev->next) {
            sb_str(&r->flags, "NOTFIRST!");
        }
        fix_first(t);
    } else if (!strcmp(c, "parse")) {
        /* parse ctx fmt popts vopts data D */
        struct lyd_node *tree = NULL;
        int d;
        const struct ly_ctx *ctx;

        NEED(7);
        ctx = ctx_arg(w[1]);
        if (!ctx || ((d = take_dest(w[6], r, -1, -1)) < 0)) {
            SKIP();
        }
        r->ectx = ctx;
        r->rc = lyd_parse_data_mem(ctx, arg_str(w[5]), fmt_of(w[2]), OPTS(w[3]) & LYD_PARSE_OPTS_MASK,
                OPTS(w[4]) & LYD_VALIDATE_OPTS_MASK, &tree);
        r->fail = r->rc ? 1 : 0;
        if (r->rc && tree) {
            sb_str(&r->flags, "OUT!");
            lyd_free_all(tree);
            tree = NULL;
        }
        T[d] = tree;
    } else if (!strcmp(c, "parsep")) {
        /* parsep N fmt popts vopts data : parse children into an existing parent */
        struct lyd_node *par, *tree = NULL;
        struct ly_in *in = NULL;
        int s;

        NEED(6);
        if (!(par = node_at(w[1], &s)) || !par->schema || !(par->schema->nodetype & LYD_NODE_INNER)) {
            SKIP();
        }
        if (par->schema->nodetype == LYS_LIST) {
            /* a parsed key would become a second key of the instance (only validation rejects it): the instance no
             * longer matches its hash and its place in the sorting tree */
            SKIP();
        }
        for (struct lyd_node *ch = lyd_child(par); ch; ch = ch->next) {
            if (!ch->schema && (((struct lyd_node_opaq *)ch)->format != LY_VALUE_XML)) {
                /* lydxml_get_hints_opaq() asserts on a JSON opaque sibling */
                SKIP();
            }
        }
        r->inv |= 1u << s;
        r->modfail |= 1u << s;
        r->ectx = LYD_CTX(par);
        ly_in_new_memory(arg_str(w[5]), &in);
        r->rc = lyd_parse_data(LYD_CTX(par), par, in, fmt_of(w[2]), OPTS(w[3]) & LYD_PARSE_OPTS_MASK,
                OPTS(w[4]) & LYD_VALIDATE_OPTS_MASK, &tree);
        ly_in_free(in, 0);
        r->fail = r->rc ? 1 : 0;
        if (r->rc && tree) {
            sb_str(&r->flags, "OUT!");
        }
        fix_first(s);
    } else if (!strcmp(c, "parseop")) {
        /* parseop ctx fmt r|n|y data D [N] : lyd_parse_op; for a reply N is the request's operation node, the reply is
         * parsed into it */
        struct lyd_node *tree = NULL, *op = NULL, *par = NULL;
        struct ly_in *in = NULL;
        int d, ps = -1;
        const struct ly_ctx *ctx;
        enum lyd_type ty;

        NEED(6);
        ctx = ctx_arg(w[1]);
        ty = (w[3][0] == 'r') ? LYD_TYPE_RPC_YANG : (w[3][0] == 'n') ? LYD_TYPE_NOTIF_YANG : LYD_TYPE_REPLY_YANG;
        if (nw > 6) {
            par = node_at(w[6], &ps);
            if (!par || !par->schema || !(par->schema->nodetype & LYD_NODE_INNER) || (LYD_CTX(par) != ctx)) {
                SKIP();
            }
        }
        if (!ctx || ((d = take_dest(w[5], r, ps, -1)) < 0)) {
            SKIP();
        }
        if (ps >= 0) {
            r->inv |= 1u << ps;
            r->modfail |= 1u << ps;
        }
        r->ectx = ctx;
        ly_in_new_memory(arg_str(w[4]), &in);
        r->rc = lyd_parse_op(ctx, par, in, fmt_of(w[2]), ty, par ? NULL : &tree, &op);
        ly_in_free(in, 0);
        r->fail = r->rc ? 1 : 0;
        if (r->rc && (tree || op)) {
            sb_str(&r->flags, "OUT!");
            lyd_free_all(tree);
            tree = NULL;
        }
        T[d] = tree;
        if (ps >= 0) {
            fix_first(ps);
        }
    } else if (!strcmp(c, "diff")) {
        /* diff A B opts D */
        int a, b, d;
        struct lyd_node *diff = NULL;

        NEED(5);
        a = slot_of(w[1]);
        b = slot_of(w[2]);
        if ((d = take_dest(w[4], r, a, b)) < 0) {
            SKIP();
        }
        if (T[a] && T[b] && (LYD_CTX(T[a]) != LYD_CTX(T[b]))) {
            SKIP();
        }
        for (int k = 0; k < 2; k++) {
            for (struct lyd_node *n = T[k ? b : a]; n; n = n->next) {
                if (n->schema && lysc_data_parent(n->schema)) {
                    /* an unlinked nested node is not a data tree that can be compared (lyd_diff_siblings_r() asserts
                     * on keys) */
                    SKIP();
                }
            }
        }
        if (has_yang_meta(T[a]) || has_yang_meta(T[b]) || has_dup_inst(T[a]) || has_dup_inst(T[b])) {
            /* data that carry diff metadata themselves or hold duplicate instances are not diffed (lyd_diff_add()
             * asserts on them) */
            SKIP();
        }
        r->ectx = T[a] ? LYD_CTX(T[a]) : (T[b] ? LYD_CTX(T[b]) : C[0]);
        r->rc = lyd_diff_siblings(T[a], T[b], (uint16_t)(OPTS(w[3]) & 1), &diff);
        r->fail = r->rc ? 1 : 0;
        if (r->rc && diff) {
            sb_str(&r->flags, "OUT!");
            lyd_free_all(diff);
            diff = NULL;
        }
        T[d] = diff;
        if (diff) {
            r->newdiff |= 1u << d;
        }
    } else if (!strcmp(c, "apply")) {
        /* apply T F : lyd_diff_apply_all(&T[T], T[F]) */
        int t, f;

        NEED(3);
        t = slot_of(w[1]);
        f = slot_of(w[2]);
        if ((t == f) || !T[f] || (T[t] && (LYD_CTX(T[t]) != LYD_CTX(T[f])))) {
            SKIP();
        }
        if (mixed_roots(T[t]) || mixed_roots(T[f]) || has_dup_inst(T[t]) || has_dup_inst(T[f])) {
            /* data with two instances of a leaf / key / container or two equal list instances cannot be valid; the
             * sorting tree of lists asserts on a second key instance */
            SKIP();
        }
        r->inv |= 1u << t;
        r->modfail |= 1u << t;
        r->ectx = LYD_CTX(T[f]);
        if (nw > 3) {
            struct failcb fc = {0, 0};

            fc.failat = atoi(w[3]);
            r->rc = lyd_diff_apply_module(&T[t], T[f], NULL, diff_failcb, &fc);
        } else {
            r->rc = lyd_diff_apply_all(&T[t], T[f]);
        }
        r->fail = r->rc ? 1 : 0;
        if (T[t] && T[t]->prev->next) {
            sb_str(&r->flags, "NOTFIRST!");
        }
        fix_first(t);
    } else if (!strcmp(c, "rev")) {
        /* rev F D */
        int f, d;
        struct lyd_node *diff = NULL;

        NEED(3);
        f = slot_of(w[1]);
        if (T[f] && !(gen_diff & (1u << f))) {
            /* only diffs produced by the library are reversed: lyd_diff_reverse_all() dereferences NULL on a node
             * without the metadata / operation that lyd_diff_siblings() always writes */
            SKIP();
        }
        if ((d = take_dest(w[2], r, f, -1)) < 0) {
            SKIP();
        }
        r->ectx = T[f] ? LYD_CTX(T[f]) : C[0];
        r->rc = lyd_diff_reverse_all(T[f], &diff);
        r->fail = r->rc ? 1 : 0;
        if (r->rc && diff) {
            sb_str(&r->flags, "OUT!");
            lyd_free_all(diff);
            diff = NULL;
        }
        T[d] = diff;
        if (diff && (gen_diff & (1u << f))) {
            r->newdiff |= 1u << d;
        }
    } else if (!strcmp(c, "dmerge")) {
        /* dmerge F1 F2 opts : lyd_diff_merge_all(&T[F1], T[F2], opts) */
        int a, b;

        NEED(4);
        a = slot_of(w[1]);
        b = slot_of(w[2]);
        if ((a == b) || !T[b] || (T[a] && (LYD_CTX(T[a]) != LYD_CTX(T[b])))) {
            SKIP();
        }
        if (!(gen_diff & (1u << b)) || (T[a] && !(gen_diff & (1u << a)))) {
            /* only diffs produced by the library are merged: lyd_diff_merge_*() asserts on diffs without the metadata
             * that lyd_diff_siblings() always writes */
            SKIP();
        }
        r->inv |= 1u << a;
        r->modfail |= 1u << a;
        r->ectx = LYD_CTX(T[b]);
        if (nw > 4) {
            struct failcb fc = {0, 0};

            fc.failat = atoi(w[4]);
            r->rc = lyd_diff_merge_module(&T[a], T[b], NULL, diff_failcb, &fc, (uint16_t)(OPTS(w[3]) & 1));
        } else {
            r->rc = lyd_diff_merge_all(&T[a], T[b], (uint16_t)(OPTS(w[3]) & 1));
        }
        r->fail = r->rc ? 1 : 0;
        fix_first(a);
        r->keep_diff = 1u << a;
    } else if (!strcmp(c, "val") || !strcmp(c, "valmod") || !strcmp(c, "impl")) {
        /* val S ctx|~ opts withdiff D | valmod S mod opts withdiff D | impl S ctx|~ opts withdiff D */
        int s, d, wd;
        struct lyd_node *diff = NULL;
        const struct ly_ctx *ctx;

        NEED(6);
        s = slot_of(w[1]);
        wd = atoi(w[4]);
        if (!all_top(T[s])) {
            /* not a data tree: implicit top-level nodes would become siblings of an unlinked nested node */
            SKIP();
        }
        if ((d = take_dest(w[5], r, s, -1)) < 0) {
            SKIP();
        }
        r->inv |= 1u << s;
        r->modfail |= 1u << s;
        if (!strcmp(c, "valmod")) {
            const struct lys_module *mod = mod_arg(w[2]);

            if (!mod) {
                SKIP();
            }
            r->ectx = mod->ctx;
            r->rc = lyd_validate_module(&T[s], mod, OPTS(w[3]) & LYD_VALIDATE_OPTS_MASK, wd ? &diff : NULL);
        } else {
            ctx = ctx_arg(w[2]);
            if (!T[s] && !ctx) {
                ctx = C[0];
            }
            r->ectx = ctx ? ctx : LYD_CTX(T[s]);
            if (c[0] == 'v') {
                r->rc = lyd_validate_all(&T[s], ctx, OPTS(w[3]) & LYD_VALIDATE_OPTS_MASK, wd ? &diff : NULL);
            } else {
                r->rc = lyd_new_implicit_all(&T[s], ctx, OPTS(w[3]) & 0xf, wd ? &diff : NULL);
            }
        }
        r->fail = r->rc ? 1 : 0;
        if (r->rc && diff) {
            /* not documented; the partial diff is handed to the caller, who frees it */
            sb_str(&r->flags, "+pdiff");
        }
        T[d] = diff;
        fix_first(s);
    } else if (!strcmp(c, "valop")) {
        /* valop N S|~ r|n|y withdiff D : lyd_validate_op(op tree node, dependency tree, type, diff) */
        struct lyd_node *n, *diff = NULL;
        int s, dep = -1, d;
        enum lyd_type ty;

        NEED(6);
        if (!(n = node_at(w[1], &s))) {
            SKIP();
        }
        if (w[2][0] != '~') {
            dep = slot_of(w[2]);
            if ((dep == s) || (T[dep] && (LYD_CTX(T[dep]) != LYD_CTX(n)))) {
                SKIP();
            }
        }
        if ((d = take_dest(w[5], r, s, dep)) < 0) {
            SKIP();
        }
        ty = (w[3][0] == 'r') ? LYD_TYPE_RPC_YANG : (w[3][0] == 'n') ? LYD_TYPE_NOTIF_YANG : LYD_TYPE_REPLY_YANG;
        r->inv |= 1u << s;
        r->modfail |= 1u << s;
        r->ectx = LYD_CTX(n);
        r->rc = lyd_validate_op(top_first(n), (dep >= 0) ? T[dep] : NULL, ty, atoi(w[4]) ? &diff : NULL);
        r->fail = r->rc ? 1 : 0;
        if (r->rc && diff) {
            sb_str(&r->flags, "+pdiff");
        }
        T[d] = diff;
        fix_first(s);
    } else if (!strcmp(c, "xfind") || !strcmp(c, "xeval")) {
        /* xfind N expr | xeval N expr */
        struct lyd_node *n;
        int s;
        char *e;

        NEED(3);
        if (!(n = node_at(w[1], &s)) || !(e = arg_str(w[2]))) {
            SKIP();
        }
        r->ectx = LYD_CTX(n);
        if (c[1] == 'f') {
            struct ly_set *set = NULL;

            r->rc = lyd_find_xpath(n, e, &set);
            if (r->rc && set) {
                sb_str(&r->flags, "OUT!");
            }
            ly_set_free(set, NULL);
        } else {
            ly_bool res = 0;

            r->rc = lyd_eval_xpath(n, e, &res);
        }
        r->fail = r->rc ? 1 : 0;
    } else if (!strcmp(c, "print")) {
        /* print N fmt opts */
        struct lyd_node *n;
        int s;
        char *str = NULL;

        NEED(4);
        if (!(n = node_at(w[1], &s))) {
            SKIP();
        }
        r->ectx = LYD_CTX(n);
        r->rc = lyd_print_mem(&str, n, fmt_of(w[2]), OPTS(w[3]) & 0xff);
        r->fail = r->rc ? 1 : 0;
        if (r->rc && str) {
            sb_str(&r->flags, "+pbuf");
        }
        free(str);
    } else if (!strcmp(c, "lybrt")) {
        /* lybrt S D popts vopts */
        int s, d;
        char *str = NULL;
        struct lyd_node *tree = NULL;
        const struct ly_ctx *ctx;

        NEED(5);
        s = slot_of(w[1]);
        if (!T[s] || !all_top(T[s]) || has_opaq(T[s])) {
            /* LYB is printed for data trees of the context */
            SKIP();
        }
        ctx = LYD_CTX(T[s]);
        if ((d = take_dest(w[2], r, s, -1)) < 0) {
            SKIP();
        }
        r->ectx = ctx;
        r->rc = lyd_print_mem(&str, T[s], LYD_LYB, LYD_PRINT_WITHSIBLINGS);
        if (!r->rc && str) {
            r->rc = lyd_parse_data_mem(ctx, str, LYD_LYB, OPTS(w[3]) & LYD_PARSE_OPTS_MASK & ~LYD_PARSE_OPAQ,
                    OPTS(w[4]) & LYD_VALIDATE_OPTS_MASK, &tree);
        }
        r->fail = r->rc ? 1 : 0;
        if (r->rc && tree) {
            sb_str(&r->flags, "OUT!");
            lyd_free_all(tree);
            tree = NULL;
        }
        free(str);
        T[d] = tree;
    } else if (!strcmp(c, "lys")) {
        /* lys ctx text : lys_parse_mem into the live context */
        int ci = (w[1][0] == '1') ? 1 : 0;
        struct lys_module *mod = NULL;
        struct lyd_node *probe = NULL;
        long u0, r0, u1, r1;

        int live = 0;
        char *text;

        NEED(3);
        text = arg_str(w[2]);
        for (int k = 0; k < NT; k++) {
            live |= (T[k] && (LYD_CTX(T[k]) == C[ci])) ? 1 : 0;
        }
        if (live) {
            /* "the context and its content should not change [once there are data], in most cases it leads to the
             * context being recompiled and any parsed data invalid": a load that recompiles one of the modules a, b, t or an internal
             * module (decided on a scratch context with the same modules) is not made while trees of the context exist */
            struct ly_ctx *sc = NULL;
            const struct lys_module *m;
            const void *comp[32];
            uint32_t idx = 0, n = 0;
            int recompiled = 1;

            if (!ly_ctx_new(NULL, LY_CTX_NO_YANGLIBRARY, &sc) && !lys_parse_mem(sc, MOD_ACM, LYS_IN_YANG, NULL) && !lys_parse_mem(sc, MOD_A, LYS_IN_YANG, NULL) &&
                    !lys_parse_mem(sc, MOD_B, LYS_IN_YANG, NULL) && !lys_parse_mem(sc, MOD_T, LYS_IN_YANG, NULL)) {
                while ((m = ly_ctx_get_module_iter(sc, &idx)) && (n < 32)) {
                    comp[n++] = m->compiled;
                }
                lys_parse_mem(sc, text, LYS_IN_YANG, NULL);
                recompiled = 0;
                idx = 0;
                for (uint32_t j = 0; j < n; j++) {
                    m = ly_ctx_get_module_iter(sc, &idx);
                    if (!m || (m->compiled != comp[j])) {
                        recompiled = 1;
                    }
                }
            }
            ly_ctx_destroy(sc);
            if (log_location.scnodes.count || log_location.dnodes.count || log_location.paths.count || log_location.inputs.count) {
                ly_log_location_revert(log_location.scnodes.count, log_location.dnodes.count, log_location.paths.count,
                        log_location.inputs.count);
            }
            if (recompiled) {
                SKIP();
            }
        }
        r->ectx = C[ci];
        dict_stat(C[ci], &u0, &r0);
        r->rc = lys_parse_mem(C[ci], text, LYS_IN_YANG, &mod);
        r->fail = r->rc ? 1 : 0;
        if (r->rc && mod) {
            sb_str(&r->flags, "OUT!");
        }
        dict_stat(C[ci], &u1, &r1);
        if (r->rc) {
            if (u1 != u0) {
                sb_fmt(&r->flags, "DICT!%+ld", u1 - u0);
            }
        } else {
            /* the new module's references are added to the baseline; the number of distinct strings cannot be carried
             * over (a string shared by the module and a live data tree is counted once now, and stays when the tree is
             * freed): from here on only the references of this context are balanced */
            base_refs[ci] += r1 - r0;
            used_unknown |= 1u << ci;
        }
        if (lyd_parse_data_mem(C[ci], "<top xmlns=\"urn:a\">x</top>", LYD_XML, LYD_PARSE_ONLY | LYD_PARSE_STRICT, 0, &probe) ||
                !probe) {
            sb_str(&r->flags, "CTX!");
        }
        lyd_free_all(probe);
    } else {
        r->skipped = 2;
    }
}

static const char *
setup(void)
{
    static const char *warm = "<c xmlns=\"urn:a\"><i8>11</i8><w>x</w><p><man>m</man></p></c><top xmlns=\"urn:a\">t</top>";

    for (int i = 0; i < NCTX; i++) {
        struct lyd_node *t = NULL;
        char *s = NULL;

        if (ly_ctx_new(NULL, LY_CTX_NO_YANGLIBRARY, &C[i])) {
            return "ctx";
        }
        if (lys_parse_mem(C[i], MOD_ACM, LYS_IN_YANG, NULL) || lys_parse_mem(C[i], MOD_A, LYS_IN_YANG, NULL) || lys_parse_mem(C[i], MOD_B, LYS_IN_YANG, NULL) ||
                lys_parse_mem(C[i], MOD_T, LYS_IN_YANG, NULL)) {
            return "mod";
        }
        /* warm-up: whatever the context computes lazily and keeps (canonical forms of schema default values, ...)
         * is computed before the baseline is taken */
        if (lyd_parse_data_mem(C[i], warm, LYD_XML, 0, 0, &t)) {
            return "warm";
        }
        lyd_print_mem(&s, t, LYD_XML, LYD_PRINT_WITHSIBLINGS | LYD_PRINT_WD_ALL);
        free(s);
        s = NULL;
        lyd_print_mem(&s, t, LYD_JSON, LYD_PRINT_WITHSIBLINGS | LYD_PRINT_WD_ALL_TAG);
        free(s);
        lyd_free_all(t);
        ly_err_clean(C[i], NULL);
        dict_stat(C[i], &base_used[i], &base_refs[i]);
    }
    return NULL;
}

int
main(void)
{
    struct vcase c;
    struct sbuf snap[2][NT];
    struct sbuf o = {0};
    int lsan_seen = 0;

    memset(snap, 0, sizeof snap);
    debug = getenv("OWN_DEBUG") ? 1 : 0;
    signal(SIGABRT, on_abort);
    signal(SIGSEGV, on_abort);
    signal(SIGBUS, on_abort);
    signal(SIGFPE, on_abort);
    signal(SIGALRM, on_abort);
    ly_set_log_clb(log_cb);
    ly_log_options(LY_LOLOG | LY_LOSTORE_LAST);
    /* one-time allocations of the library (plugin tables, ...) happen outside of the accounting */
    if (!setup()) {
        struct lyd_node *t = NULL;

        lyd_parse_data_mem(C[0], "<top xmlns=\"urn:a\">x</top>", LYD_XML, 0, 0, &t);
        lyd_free_all(t);
    }
    for (int i = 0; i < NCTX; i++) {
        ly_ctx_destroy(C[i]);
        C[i] = NULL;
    }
    while (vnext(&c)) {
        const char *serr;
        long du[NCTX], dr[NCTX];
        long leaks = 0, leak_cmd = LONG_MAX;
        char leak_name[24] = "", leak_err[64] = "";
        char (*names)[24] = __real_calloc((size_t)c.nf + 1, 24);
        char (*errs)[64] = __real_calloc((size_t)c.nf + 1, 64);
        int cur = 0, lsan = 0;
        struct sbuf dbg0[NCTX];

        memset(dbg0, 0, sizeof dbg0);
        sb_reset(&o);
        notfreed_warn = 0;
        notfound_err = 0;
        alarm(20);      /* a case that hangs (observed: a loop over freed nodes in the plain build) ends as a crash by SIGALRM */
        gen_diff = 0;
        used_unknown = 0;
        trk_reset();
        trk_on = 1;
        cur_cmd = -1;
        strcpy(cur_name, "setup");
        if ((serr = setup())) {
            sb_fmt(&o, "SETUP-FAILED:%s", serr);
        }
        if (debug) {
            for (int i = 0; i < NCTX; i++) {
                dict_dump(C[i], &dbg0[i]);
            }
        }
        for (int k = 0; k < NT; k++) {
            sb_reset(&snap[0][k]);
        }
        for (int i = 1; !serr && (i < c.nf); i++) {
            char *wv[17];
            int nw = 0;
            struct cmdres r;
            struct sbuf *before = snap[cur], *after = snap[cur ^ 1];

            memset(&r, 0, sizeof r);
            for (char *p = strtok(c.f[i], " "); p && (nw < 16); p = strtok(NULL, " ")) {
                wv[nw++] = p;
            }
            wv[nw] = NULL;
            if (i > 1) {
                sb_str(&o, " | ");
            }
            if (!nw) {
                sb_str(&o, "?");
                continue;
            }
            cur_cmd = i - 1;
            snprintf(cur_name, sizeof cur_name, "%s", wv[0]);
            snprintf(names[i - 1], 24, "%s", wv[0]);
            nwatch = 0;
            watch_freed = 0;
            for (int ci = 0; ci < NCTX; ci++) {
                ly_err_clean(C[ci], NULL);
            }
            run_cmd(wv, nw, &r);
            /* a slot that the command may have modified no longer counts as a library-made diff, unless the command
             * itself put one there */
            gen_diff = (gen_diff & ~((r.inv | r.modfail) & ~r.keep_diff)) | r.newdiff;
            for (int k = 0; k < NT; k++) {
                if (!T[k]) {
                    gen_diff &= ~(1u << k);
                }
            }
            arg_free();
            if (r.skipped) {
                sb_fmt(&o, "%s:%s", wv[0], (r.skipped == 2) ? "?" : "-");
            } else {
                sb_fmt(&o, "%s:%d", wv[0], r.rc);
                if (r.fail) {
                    errclass(errs[i - 1], 64, r.ectx);
                }
            }
            if (r.flags.s) {
                sb_str(&o, r.flags.s);
            }
            sb_free(&r.flags);
            /* the thread's log location stack (schema/data node, path, input of the message being built) must be
             * balanced after every call; what is left is dropped so that later messages do not walk stale nodes */
            if (log_location.scnodes.count || log_location.dnodes.count || log_location.paths.count || log_location.inputs.count) {
                sb_fmt(&o, "LOGLOC!%u,%u,%u,%u", log_location.scnodes.count, log_location.dnodes.count, log_location.paths.count,
                        log_location.inputs.count);
                ly_log_location_revert(log_location.scnodes.count, log_location.dnodes.count, log_location.paths.count,
                        log_location.inputs.count);
            }
            /* links, then the dumps of all slots against the dumps taken after the previous command */
            for (int k = 0; k < NT; k++) {
                const char *why = check_slot(k);

                sb_reset(&after[k]);
                if (why) {
                    if (debug && strstr(why, "contiguous")) {
                        dump_node(&after[k], T[k], 0, 0, NULL, NULL);
                        fprintf(stderr, "SLOT %d after command %d (%s):\n before %s\n after  %s\n", k, i - 1, why,
                                before[k].s ? before[k].s : "", after[k].s ? after[k].s : "");
                    }
                    sb_fmt(&o, "LINK!%d(%s)", k, why);
                    /* the forest cannot be walked or freed safely any more */
                    T[k] = NULL;
                    continue;
                }
                dump_node(&after[k], T[k], 0, 0, NULL, NULL);
                if (strcmp(before[k].s ? before[k].s : "", after[k].s ? after[k].s : "")) {
                    if (debug) {
                        fprintf(stderr, "SLOT %d after command %d:\n before %s\n after  %s\n", k, i - 1, before[k].s ? before[k].s : "",
                                after[k].s ? after[k].s : "");
                    }
                    if (r.skipped) {
                        if (!(r.modfail & (1u << k))) {
                            sb_fmt(&o, "UNREL!%d", k);
                        }
                    } else if (r.fail) {
                        if (!(r.modfail & (1u << k))) {
                            sb_fmt(&o, "CHG!%d", k);
                        }
                    } else if (!(r.inv & (1u << k))) {
                        sb_fmt(&o, "UNREL!%d", k);
                    }
                }
            }
            cur ^= 1;
        }
        cur_cmd = c.nf;
        strcpy(cur_name, "teardown");
        for (int k = 0; k < NT; k++) {
            lyd_free_all(T[k]);
            T[k] = NULL;
        }
        while (nkeepbuf) {
            free(keepbuf[--nkeepbuf]);
        }
        for (int i = 0; i < NCTX; i++) {
            du[i] = dr[i] = 0;
            if (C[i]) {
                long u, rf;

                ly_err_clean(C[i], NULL);
                dict_stat(C[i], &u, &rf);
                du[i] = (used_unknown & (1u << i)) ? 0 : u - base_used[i];
                dr[i] = rf - base_refs[i];
                if (du[i] || dr[i]) {
                    struct ly_ht *ht = C[i]->dict.hash_tab;
                    uint32_t hl, ri;
                    struct ly_ht_rec *rec;

                    LYHT_ITER_ALL_RECS(ht, hl, ri, rec) {
                        trk_mark_dict(((struct ly_dict_rec *)rec->val)->value);
                    }
                }
                if (debug && (du[i] || dr[i])) {
                    struct sbuf d1 = {0};

                    dict_dump(C[i], &d1);
                    fprintf(stderr, "DICT c%d before:\n%s\nDICT c%d after:\n%s\n", i, dbg0[i].s ? dbg0[i].s : "", i,
                            d1.s ? d1.s : "");
                    sb_free(&d1);
                }
                ly_ctx_destroy(C[i]);
                C[i] = NULL;
            }
            sb_free(&dbg0[i]);
        }
        trk_on = 0;
        /* first command that allocated a block which is still there (dictionary strings only when nothing else is) */
        for (int pass = 0; (pass < 2) && (leak_cmd == LONG_MAX); pass++) {
            leaks = 0;
            for (size_t i = 0; i < trk_cap; i++) {
                if (trk_tab[i].key > 1) {
                    ++leaks;
                    if ((pass || !(trk_tab[i].size & 0x80000000u)) && (trk_tab[i].cmd < leak_cmd)) {
                        leak_cmd = trk_tab[i].cmd;
                    }
                    if (debug && !pass) {
                        fprintf(stderr, "LEAK block of %u bytes allocated in command %d%s\n", trk_tab[i].size & 0x7fffffffu,
                                trk_tab[i].cmd, (trk_tab[i].size & 0x80000000u) ? " (dictionary string)" : "");
                    }
                }
            }
        }
        if (leaks) {
            if ((leak_cmd >= 0) && (leak_cmd < c.nf - 1)) {
                strcpy(leak_name, names[leak_cmd]);
                strcpy(leak_err, errs[leak_cmd]);
            } else {
                strcpy(leak_name, (leak_cmd < 0) ? "setup" : "teardown");
            }
        }
        if (&__lsan_do_recoverable_leak_check) {
            /* blocks leaked by earlier cases are reported again by later checks: only the first report is attributed */
            int l = __lsan_do_recoverable_leak_check();

            lsan = (l && !lsan_seen) ? 1 : (l ? 2 : 0);
            /* LeakSanitizer reports a block again in every later check, and it may see a block of this case only in
             * a later case (a stale pointer on the stack hides it now): every block that the tracker knows to be left
             * is excluded from later reports; if the report persists (a block that the tracker does not know) later
             * cases print l2 = "cannot tell" */
            if (l || leaks) {
                for (size_t i = 0; &__lsan_ignore_object && (i < trk_cap); i++) {
                    if (trk_tab[i].key > 1) {
                        __lsan_ignore_object((const void *)~trk_tab[i].key);
                    }
                }
                if (l && __lsan_do_recoverable_leak_check()) {
                    lsan_seen = 1;
                }
            }
        }
        sb_fmt(&o, "%send:d%ld,%ld/%ld,%ld:w%d:k%ld", (c.nf > 1) ? " | " : "", du[0], dr[0], du[1], dr[1], notfreed_warn, leaks);
        if (leaks) {
            sb_fmt(&o, "@%ld:%s%s%s", leak_cmd, leak_name, leak_err[0] ? "~" : "", leak_err);
        }
        sb_fmt(&o, ":l%d:n%d", lsan, notfound_err);
        alarm(0);
        fputs(o.s, stdout);
        __real_free(names);
        __real_free(errs);
        VEND();
    }
    for (int k = 0; k < NT; k++) {
        sb_free(&snap[0][k]);
        sb_free(&snap[1][k]);
    }
    sb_free(&o);
    __real_free(trk_tab);
    fflush(stdout);
    _exit(0);       /* no end-of-process leak check: every case has been checked on its own */
}
