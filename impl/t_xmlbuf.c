/* t_xmlbuf.c - white-box driver of slice xmlbuf: the buffer bookkeeping of lyxml_parse_value() and
 * lyxml_parse_value_use_buf() of src/xml.c (both static; reached by including xml.c from the working tree).
 *
 * Nothing in xml.c is edited. The allocator calls of the two functions are observed through function-like macros
 * malloc / free / ly_realloc defined AFTER all headers of xml.c have been included (their include guards make the
 * second inclusion from xml.c empty) and BEFORE xml.c itself; the hooks call the real functions and, while a case
 * is running, record the requested sizes. That sequence is everything the function decides about its block (24,
 * then +128 steps, then the exact final size), so it is compared with the model; the stores themselves are not
 * observable from outside, for those the sanitizer build of this driver is the observer.
 *
 * Case:  xbuf <events> <hex text>      the text is what the events stand for, followed by anything
 *        ->  ok <dynamic> <length> <calls>   |   err <calls>        calls: mN malloc, rN realloc, f free, `-` none
 *        post-conditions (suffix " !<what>", no model line has one): dynamic value whose strlen differs from the
 *        length; success without a value; the input position not at the end character.
 */
#include "common.h"
#include "xml.h"
#include <assert.h>
#include "compat.h"
#include "in_internal.h"
#include "ly_common.h"
#include "out_internal.h"
#include "tree.h"
#include "tree_schema_internal.h"

static int xb_on;
static char xb_tr[1 << 20];
static size_t xb_n;

static void
xb_note(char k, size_t n)
{
    if (xb_on && (xb_n + 32 < sizeof xb_tr)) {
        if (k == 'f') {
            xb_n += (size_t)sprintf(xb_tr + xb_n, "%sf", xb_n ? "," : "");
        } else {
            xb_n += (size_t)sprintf(xb_tr + xb_n, "%s%c%zu", xb_n ? "," : "", k, n);
        }
    }
}

static void *
xb_malloc(size_t n)
{
    xb_note('m', n);
    return malloc(n);
}

static void *
xb_realloc(void *p, size_t n)
{
    xb_note('r', n);
    return ly_realloc(p, n);
}

static void
xb_free(void *p)
{
    if (p) {
        xb_note('f', 0);
    }
    free(p);
}

#define malloc(n) xb_malloc(n)
#define ly_realloc(p, n) xb_realloc(p, n)
#define free(p) xb_free(p)
#include "xml.c"
#undef malloc
#undef ly_realloc
#undef free

static void
log_cb(LY_LOG_LEVEL level, const char *msg, const char *data_path, const char *schema_path, uint64_t line)
{
    (void)level; (void)msg; (void)data_path; (void)schema_path; (void)line;
}

int
main(void)
{
    struct vcase c;
    struct ly_ctx *ctx = NULL;

    ly_set_log_clb(log_cb);
    if (ly_ctx_new(NULL, 0, &ctx)) {
        fprintf(stderr, "ctx\n");
        return 2;
    }

    while (vnext(&c)) {
        if (!strcmp(c.f[0], "xbuf") && (c.nf > 2)) {
            size_t len, vlen = 0;
            char *raw = vunhex(c.f[2], &len), *s, *val = NULL;
            struct ly_in *in = NULL;
            struct lyxml_ctx x;
            ly_bool ws = 0, dyn = 0;
            LY_ERR r;

            /* exact copy: the NUL is the last byte of the block, a read past it is seen by ASan */
            s = malloc(len + 1);
            memcpy(s, raw, len);
            s[len] = '\0';
            free(raw);

            memset(&x, 0, sizeof x);
            ly_in_new_memory(s, &in);
            x.ctx = ctx;
            x.in = in;
            xb_n = 0;
            xb_tr[0] = '\0';
            xb_on = 1;
            r = lyxml_parse_value(&x, '<', &val, &vlen, &ws, &dyn);
            xb_on = 0;
            if (r) {
                printf("err %s", xb_n ? xb_tr : "-");
                if (!ly_err_first(ctx)) {
                    printf(" !no-error-record");
                }
            } else {
                printf("ok %d %zu %s", (int)dyn, vlen, xb_n ? xb_tr : "-");
                if (!val) {
                    printf(" !null-value");
                } else if (dyn && (strlen(val) != vlen)) {
                    printf(" !strlen=%zu", strlen(val));
                }
                if (*in->current != '<') {
                    printf(" !not-at-end-char");
                }
                if (dyn) {
                    free(val);
                }
            }
            ly_in_free(in, 0);
            ly_err_clean(ctx, NULL);
            free(s);
        } else {
            printf("?");
        }
        VEND();
    }
    ly_ctx_destroy(ctx);
    return 0;
}
