/* t_restrict.c — driver of slice `restrict` (property C11): range / length restrictions along typedef
 * chains, src/schema_compile_node.c: lys_compile_type_range() and its helpers range_part_minmax(),
 * range_part_check_value_syntax(), range_part_check_ascendancy(), and the way lys_compile_type() hands
 * the compiled restriction of the base type down a chain of typedefs.
 *
 * Type names: int8 int16 int32 int64 uint8 uint16 uint32 uint64 decimal64 string binary
 * (decimal64 with <fd> = fraction-digits, 0 for the others).
 *
 * Cases (hex byte strings, "-" = empty, "~" = the typedef has no restriction statement, "~p" = (string only) the typedef
 * adds only a pattern, so that the inherited length is copied by lysc_range_dup()):
 *   rngd <type> <fd> <hex text> <nb> <lo_1> <hi_1> ... <lo_nb> <hi_nb>
 *        lys_compile_type_range() called directly on the argument text with a hand-made base restriction of
 *        nb parts (nb = 0: no base, i.e. directly derived from the built-in type)
 *        -> E | <lo>..<hi>,<lo>..<hi>,...     (ALL elements of the compiled parts array)
 *   chain <type> <fd> <n> <hex r_1> ... <hex r_n> <nv> <hex v_1> ... <hex v_nv>
 *        module text  typedef t1 {type <type> {[fraction-digits fd;] range "<r_1>";}}  typedef t2 {type t1 {range
 *        "<r_2>";}} ... leaf l {type t<n>;}  (length instead of range for string/binary) through lys_parse_mem();
 *        -> E | <parts of the compiled leaf type, "none" when it has no restriction> <one character per value:
 *        1 accepted / 0 rejected by lyd_value_validate() on leaf l>
 *        (for string/binary the value v_i is a decimal number n: the probe is a string of n characters resp. the
 *        base64 text of n octets)
 */
#include "common.h"
#include "libyang.h"
#include "ly_common.h"
#include "plugins_types.h"
#include "tree_schema_internal.h"
#include "schema_compile.h"
#include "schema_compile_node.h"

static void
log_cb(LY_LOG_LEVEL level, const char *msg, const char *data_path, const char *schema_path, uint64_t line)
{
    (void)level; (void)data_path; (void)schema_path; (void)line;
    if (getenv("LYX_DEBUG")) {
        fprintf(stderr, "LOG: %s\n", msg);
    }
}

struct tyinfo {
    const char *name;
    LY_DATA_TYPE bt;
    int uns;
    int length;
};

static const struct tyinfo TYS[] = {
    {"int8", LY_TYPE_INT8, 0, 0}, {"int16", LY_TYPE_INT16, 0, 0}, {"int32", LY_TYPE_INT32, 0, 0}, {"int64", LY_TYPE_INT64, 0, 0},
    {"uint8", LY_TYPE_UINT8, 1, 0}, {"uint16", LY_TYPE_UINT16, 1, 0}, {"uint32", LY_TYPE_UINT32, 1, 0}, {"uint64", LY_TYPE_UINT64, 1, 0},
    {"decimal64", LY_TYPE_DEC64, 0, 0}, {"string", LY_TYPE_STRING, 1, 1}, {"binary", LY_TYPE_BINARY, 1, 1},
    {NULL, LY_TYPE_UNKNOWN, 0, 0}
};

static const struct tyinfo *
ty_of(const char *name)
{
    for (const struct tyinfo *t = TYS; t->name; ++t) {
        if (!strcmp(t->name, name)) {
            return t;
        }
    }
    return NULL;
}

static void
put_parts(const struct lysc_range *r, int uns)
{
    LY_ARRAY_COUNT_TYPE u;

    if (!r || !r->parts) {
        printf("none");
        return;
    }
    LY_ARRAY_FOR(r->parts, u) {
        if (u) {
            printf(",");
        }
        if (uns) {
            printf("%" PRIu64 "..%" PRIu64, r->parts[u].min_u64, r->parts[u].max_u64);
        } else {
            printf("%" PRId64 "..%" PRId64, r->parts[u].min_64, r->parts[u].max_64);
        }
    }
}

/* text with the two characters that end / escape a double-quoted YANG string escaped */
static void
add_quoted(char **buf, size_t *n, size_t *cap, const char *s)
{
    for ( ; *s; ++s) {
        if (*n + 8 > *cap) {
            *cap = (*cap + 64) * 2;
            *buf = realloc(*buf, *cap);
        }
        if ((*s == '"') || (*s == '\\')) {
            (*buf)[(*n)++] = '\\';
        }
        (*buf)[(*n)++] = *s;
    }
    (*buf)[*n] = 0;
}

static void
add_str(char **buf, size_t *n, size_t *cap, const char *s)
{
    size_t l = strlen(s);

    if (*n + l + 8 > *cap) {
        *cap = (*cap + l + 64) * 2;
        *buf = realloc(*buf, *cap);
    }
    memcpy(*buf + *n, s, l + 1);
    *n += l;
}

static const char B64[] = "ABCDEFGHIJKLMNOPQRSTUVWXYZabcdefghijklmnopqrstuvwxyz0123456789+/";

/* base64 text of n zero... (octets 0x41) */
static char *
b64_of_len(size_t n)
{
    size_t i, o = 0;
    char *out = malloc(4 * ((n + 2) / 3) + 1);

    for (i = 0; i + 2 < n; i += 3) {
        uint32_t v = (0x41u << 16) | (0x41u << 8) | 0x41u;

        out[o++] = B64[(v >> 18) & 63];
        out[o++] = B64[(v >> 12) & 63];
        out[o++] = B64[(v >> 6) & 63];
        out[o++] = B64[v & 63];
    }
    if (n - i == 1) {
        uint32_t v = 0x41u << 16;

        out[o++] = B64[(v >> 18) & 63];
        out[o++] = B64[(v >> 12) & 63];
        out[o++] = '=';
        out[o++] = '=';
    } else if (n - i == 2) {
        uint32_t v = (0x41u << 16) | (0x41u << 8);

        out[o++] = B64[(v >> 18) & 63];
        out[o++] = B64[(v >> 12) & 63];
        out[o++] = B64[(v >> 6) & 63];
        out[o++] = '=';
    }
    out[o] = 0;
    return out;
}

int
main(void)
{
    struct vcase c;
    struct ly_ctx *ctx = NULL;

    ly_set_log_clb(log_cb);
    if (ly_ctx_new(NULL, 0, &ctx)) {
        fprintf(stderr, "ctx\n");
        return 2;
    }

    while (vnext(&c)) {
        const char *comp = c.f[0];
        const struct tyinfo *ty = (c.nf >= 2) ? ty_of(c.f[1]) : NULL;

        if (!strcmp(comp, "rngd") && (c.nf >= 5) && ty && (c.nf >= 5 + 2 * atoi(c.f[4]))) {
            int fd = atoi(c.f[2]), nb = atoi(c.f[4]);
            char *txt = vunhex(c.f[3], NULL);
            struct lysc_ctx cctx;
            struct lysp_restr restr;
            struct lysc_range *base = NULL, *out = NULL;
            LY_ERR rc;

            memset(&cctx, 0, sizeof cctx);
            LYSC_CTX_INIT_CTX(cctx, ctx);
            memset(&restr, 0, sizeof restr);
            restr.arg.str = txt;
            if (nb) {
                base = calloc(1, sizeof *base);
                for (int i = 0; i < nb; i++) {
                    struct lysc_range_part *p;

                    LY_ARRAY_NEW_GOTO(ctx, base->parts, p, rc, done);
                    if (ty->uns) {
                        p->min_u64 = strtoull(c.f[5 + 2 * i], NULL, 10);
                        p->max_u64 = strtoull(c.f[6 + 2 * i], NULL, 10);
                    } else {
                        p->min_64 = strtoll(c.f[5 + 2 * i], NULL, 10);
                        p->max_64 = strtoll(c.f[6 + 2 * i], NULL, 10);
                    }
                }
            }
            rc = lys_compile_type_range(&cctx, &restr, ty->bt, ty->length, (uint8_t)fd, base, &out);
done:
            if (rc) {
                printf("E");
            } else {
                put_parts(out, ty->uns);
            }
            if (out) {
                LY_ARRAY_FREE(out->parts);
                free(out);
            }
            if (base) {
                LY_ARRAY_FREE(base->parts);
                free(base);
            }
            ly_err_clean(ctx, NULL);
            free(txt);
        } else if (!strcmp(comp, "chain") && (c.nf >= 4) && ty && (c.nf >= 5 + atoi(c.f[3]))) {
            int fd = atoi(c.f[2]), n = atoi(c.f[3]), nv = atoi(c.f[4 + n]);
            char *m = NULL, tmp[128];
            size_t mn = 0, mcap = 0;
            struct lys_module *mod = NULL;

            add_str(&m, &mn, &mcap, "module r {namespace urn:r; prefix r; yang-version 1.1;\n");
            for (int i = 1; i <= n; i++) {
                const char *h = c.f[3 + i];

                if (i == 1) {
                    snprintf(tmp, sizeof tmp, " typedef t1 {type %s", ty->name);
                } else {
                    snprintf(tmp, sizeof tmp, " typedef t%d {type t%d", i, i - 1);
                }
                add_str(&m, &mn, &mcap, tmp);
                if (!strcmp(h, "~p") && (ty->bt == LY_TYPE_STRING)) {
                    /* a level that adds only a pattern: the length of the base type is inherited (copied) */
                    add_str(&m, &mn, &mcap, " {pattern \".*\";}}\n");
                } else if (((i == 1) && (ty->bt == LY_TYPE_DEC64)) || (strcmp(h, "~") && strcmp(h, "~p"))) {
                    add_str(&m, &mn, &mcap, " {");
                    if ((i == 1) && (ty->bt == LY_TYPE_DEC64)) {
                        snprintf(tmp, sizeof tmp, "fraction-digits %d; ", fd);
                        add_str(&m, &mn, &mcap, tmp);
                    }
                    if (strcmp(h, "~") && strcmp(h, "~p")) {
                        char *r = vunhex(h, NULL);

                        add_str(&m, &mn, &mcap, ty->length ? "length \"" : "range \"");
                        add_quoted(&m, &mn, &mcap, r);
                        add_str(&m, &mn, &mcap, "\";");
                        free(r);
                    }
                    add_str(&m, &mn, &mcap, "}}\n");
                } else {
                    add_str(&m, &mn, &mcap, ";}\n");
                }
            }
            snprintf(tmp, sizeof tmp, " leaf l {type t%d;}\n}\n", n);
            add_str(&m, &mn, &mcap, tmp);
            if (getenv("LYX_DEBUG")) {
                fprintf(stderr, "%s", m);
            }

            if (lys_parse_mem(ctx, m, LYS_IN_YANG, &mod) || !mod || !mod->compiled) {
                printf("E");
            } else {
                const struct lysc_node *leaf = lys_find_child(NULL, mod, "l", 0, LYS_LEAF, 0);
                const struct lysc_type *t = leaf ? ((const struct lysc_node_leaf *)leaf)->type : NULL;
                const struct lysc_range *r = NULL;

                if (!t || (t->basetype != ty->bt)) {
                    printf("?type");
                } else {
                    switch (t->basetype) {
                    case LY_TYPE_DEC64:
                        r = ((const struct lysc_type_dec *)t)->range;
                        if (((const struct lysc_type_dec *)t)->fraction_digits != fd) {
                            printf("?fd ");
                        }
                        break;
                    case LY_TYPE_STRING:
                        r = ((const struct lysc_type_str *)t)->length;
                        break;
                    case LY_TYPE_BINARY:
                        r = ((const struct lysc_type_bin *)t)->length;
                        break;
                    default:
                        r = ((const struct lysc_type_num *)t)->range;
                        break;
                    }
                    put_parts(r, ty->uns);
                    printf(" ");
                    for (int i = 0; i < nv; i++) {
                        size_t vl;
                        char *v = vunhex(c.f[5 + n + i], &vl), *probe = NULL;
                        LY_ERR rc;

                        if (ty->bt == LY_TYPE_STRING) {
                            size_t k = strtoul(v, NULL, 10);

                            probe = malloc(k + 1);
                            memset(probe, 'a', k);
                            probe[k] = 0;
                            rc = lyd_value_validate(ctx, leaf, probe, k, NULL, NULL, NULL);
                        } else if (ty->bt == LY_TYPE_BINARY) {
                            probe = b64_of_len(strtoul(v, NULL, 10));
                            rc = lyd_value_validate(ctx, leaf, probe, strlen(probe), NULL, NULL, NULL);
                        } else {
                            rc = lyd_value_validate(ctx, leaf, v, vl, NULL, NULL, NULL);
                        }
                        printf("%c", rc ? '0' : '1');
                        free(probe);
                        free(v);
                    }
                }
            }
            /* every case starts from a context without module r */
            ly_err_clean(ctx, NULL);
            ly_ctx_destroy(ctx);
            ctx = NULL;
            if (ly_ctx_new(NULL, 0, &ctx)) {
                fprintf(stderr, "ctx\n");
                return 2;
            }
            free(m);
        } else if (!strcmp(comp, "strchain") && (c.nf >= 3) && (c.nf >= 3 + 2 * atoi(c.f[1]))) {
            /* strchain <n> (<hex length | ~> <number of patterns>)*n <nv> <decimal length>*nv : a chain of string typedefs,
             * level i with the patterns ".{0,<100 + 10 i + j>}" (they match every probe) -> E | <length parts> <numbers of the
             * compiled patterns of the leaf type in order, - when none> <one 0/1 per probe string of that many characters> */
            int n = atoi(c.f[1]), nv = atoi(c.f[2 + 2 * n]);
            char *m = NULL, tmp[160];
            size_t mn = 0, mcap = 0;
            struct lys_module *mod = NULL;

            add_str(&m, &mn, &mcap, "module r {namespace urn:r; prefix r; yang-version 1.1;\n");
            for (int i = 1; i <= n; i++) {
                const char *h = c.f[2 * i];
                int np = atoi(c.f[2 * i + 1]);

                if (i == 1) {
                    snprintf(tmp, sizeof tmp, " typedef t1 {type string");
                } else {
                    snprintf(tmp, sizeof tmp, " typedef t%d {type t%d", i, i - 1);
                }
                add_str(&m, &mn, &mcap, tmp);
                if (strcmp(h, "~") || np) {
                    add_str(&m, &mn, &mcap, " {");
                    if (strcmp(h, "~")) {
                        char *r = vunhex(h, NULL);

                        add_str(&m, &mn, &mcap, "length \"");
                        add_quoted(&m, &mn, &mcap, r);
                        add_str(&m, &mn, &mcap, "\";");
                        free(r);
                    }
                    for (int j = 0; j < np; j++) {
                        snprintf(tmp, sizeof tmp, " pattern \".{0,%d}\";", 100 + 10 * i + j);
                        add_str(&m, &mn, &mcap, tmp);
                    }
                    add_str(&m, &mn, &mcap, "}}\n");
                } else {
                    add_str(&m, &mn, &mcap, ";}\n");
                }
            }
            snprintf(tmp, sizeof tmp, " leaf l {type t%d;}\n}\n", n);
            add_str(&m, &mn, &mcap, tmp);
            if (getenv("LYX_DEBUG")) {
                fprintf(stderr, "%s", m);
            }
            if (lys_parse_mem(ctx, m, LYS_IN_YANG, &mod) || !mod || !mod->compiled) {
                printf("E");
            } else {
                const struct lysc_node *leaf = lys_find_child(NULL, mod, "l", 0, LYS_LEAF, 0);
                const struct lysc_type_str *t = leaf ? (const struct lysc_type_str *)((const struct lysc_node_leaf *)leaf)->type : NULL;

                if (!t || (t->basetype != LY_TYPE_STRING)) {
                    printf("?type");
                } else {
                    LY_ARRAY_COUNT_TYPE u;

                    put_parts(t->length, 1);
                    printf(" ");
                    if (!LY_ARRAY_COUNT(t->patterns)) {
                        printf("-");
                    }
                    LY_ARRAY_FOR(t->patterns, u) {
                        const char *e = t->patterns[u]->expr, *cm = e ? strchr(e, ',') : NULL;

                        printf("%s%d", u ? "," : "", cm ? atoi(cm + 1) : -1);
                    }
                    printf(" ");
                    for (int i = 0; i < nv; i++) {
                        size_t k = strtoul(c.f[3 + 2 * n + i], NULL, 10);
                        char *probe = malloc(k + 1);

                        memset(probe, 'a', k);
                        probe[k] = 0;
                        printf("%c", lyd_value_validate(ctx, leaf, probe, k, NULL, NULL, NULL) ? '0' : '1');
                        free(probe);
                    }
                }
            }
            ly_err_clean(ctx, NULL);
            ly_ctx_destroy(ctx);
            ctx = NULL;
            if (ly_ctx_new(NULL, 0, &ctx)) {
                fprintf(stderr, "ctx\n");
                return 2;
            }
            free(m);
        } else {
            printf("?");
        }
        VEND();
    }
    ly_ctx_destroy(ctx);
    return 0;
}
