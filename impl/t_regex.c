/* t_regex.c - driver of slice regex (property C18: YANG patterns are XSD regular expressions).
 *
 * Components (one case per line, TAB separated, byte strings in hex, "-" = empty):
 *   rewrite <pattern>           -> "E" when lys_compile_type_pattern_check() fails before it calls
 *                                  pcre2_compile(), else the hex of the text handed to pcre2_compile()
 *                                  (whether or not PCRE2 then accepts it)
 *   match <pattern> <string>+   -> per string "<a> <b>" (joined by ','): a = ly_pattern_match() (public utility),
 *                                  b = lyd_value_validate() on leaf l of a module compiled on the fly with
 *                                  "pattern <pattern>"; each is 1 (match), 0 (no match), E (pattern rejected) or
 *                                  L (the matcher failed on this string, e.g. PCRE2 match limit)
 *   matchlist <string> (<inv> <pattern>)*  -> lyd_value_validate() on a leaf whose type has all the listed
 *                                  patterns, those with inv = 1 carrying "modifier invert-match": 1 / 0 / E
 *   entry <pattern> <string>+   -> per string "<a> <b> <c>" (joined by ','): a and b as for match, c = the XPath
 *                                  function re-match(/x:s, /x:p) evaluated by lyd_eval_xpath() on a data tree whose
 *                                  leaves s and p hold the string and the pattern: 1 / 0, E (evaluation failed with
 *                                  LY_EVALID: pattern rejected), L (failed otherwise: the matcher gave up), V (string or
 *                                  pattern is not a valid value of a YANG string leaf)
 *
 * Linked with --wrap=pcre2_compile_8: __wrap_pcre2_compile_8 records the pattern text and calls the real function.
 * VERIF_FLAGS: -Wl,--wrap=pcre2_compile_8
 */
#include "common.h"

#define PCRE2_CODE_UNIT_WIDTH 8
#include <pcre2.h>

#include "libyang.h"

static char *seen_pat = NULL;
static size_t seen_len = 0;
static int seen = 0;

pcre2_code *__real_pcre2_compile_8(PCRE2_SPTR pattern, PCRE2_SIZE length, uint32_t options, int *errorcode,
        PCRE2_SIZE *erroroffset, pcre2_compile_context *ccontext);

pcre2_code *
__wrap_pcre2_compile_8(PCRE2_SPTR pattern, PCRE2_SIZE length, uint32_t options, int *errorcode,
        PCRE2_SIZE *erroroffset, pcre2_compile_context *ccontext)
{
    size_t n = (length == PCRE2_ZERO_TERMINATED) ? strlen((const char *)pattern) : (size_t)length;

    free(seen_pat);
    seen_pat = malloc(n + 1);
    memcpy(seen_pat, pattern, n);
    seen_pat[n] = 0;
    seen_len = n;
    seen = 1;
    return __real_pcre2_compile_8(pattern, length, options, errorcode, erroroffset, ccontext);
}

static void
log_cb(LY_LOG_LEVEL level, const char *msg, const char *data_path, const char *schema_path, uint64_t line)
{
    (void)level; (void)msg; (void)data_path; (void)schema_path; (void)line;
}

/* append the pattern as a YANG string: single-quoted (verbatim) unless it contains a single quote,
 * then double-quoted with backslash, double quote, LF and TAB escaped */
static char *
put_pattern(char *p, const char *pat, size_t len, int invert)
{
    int dq = memchr(pat, '\'', len) != NULL;

    p += sprintf(p, " pattern %c", dq ? '"' : '\'');
    for (size_t i = 0; i < len; i++) {
        if (dq && ((pat[i] == '\\') || (pat[i] == '"'))) {
            *p++ = '\\';
            *p++ = pat[i];
        } else if (dq && (pat[i] == '\n')) {
            *p++ = '\\';
            *p++ = 'n';
        } else if (dq && (pat[i] == '\t')) {
            *p++ = '\\';
            *p++ = 't';
        } else {
            *p++ = pat[i];
        }
    }
    p += sprintf(p, "%c%s", dq ? '"' : '\'', invert ? " {modifier invert-match;}" : ";");
    return p;
}

/* cache of the last compiled module: consecutive cases with the same patterns reuse it */
static struct ly_ctx *mctx = NULL;
static char *mkey = NULL;
static const struct lysc_node *mleaf = NULL;

/* leaf l of module m with the n patterns pats[i] (hex fields), inverted when invs[i] is "1" */
static const struct lysc_node *
leaf_for(int n, char **invs, char **pats)
{
    char *key, *txt, *p;
    size_t klen = 1, tlen = 512;
    struct lys_module *mod = NULL;

    for (int i = 0; i < n; i++) {
        klen += strlen(invs[i]) + strlen(pats[i]) + 2;
        tlen += strlen(pats[i]) + 64;
    }
    key = malloc(klen);
    key[0] = 0;
    for (int i = 0; i < n; i++) {
        strcat(key, invs[i]);
        strcat(key, " ");
        strcat(key, pats[i]);
        strcat(key, " ");
    }
    if (mkey && !strcmp(mkey, key)) {
        free(key);
        return mleaf;
    }
    ly_ctx_destroy(mctx);
    mctx = NULL;
    mleaf = NULL;
    free(mkey);
    mkey = key;
    if (ly_ctx_new(NULL, 0, &mctx)) {
        return NULL;
    }
    txt = malloc(tlen);
    p = txt + sprintf(txt, "module m {yang-version 1.1; namespace \"urn:m\"; prefix m; leaf l {type string {");
    for (int i = 0; i < n; i++) {
        size_t len;
        char *pat = vunhex(pats[i], &len);

        p = put_pattern(p, pat, len, invs[i][0] == '1');
        free(pat);
    }
    sprintf(p, "}}}");
    if (!lys_parse_mem(mctx, txt, LYS_IN_YANG, &mod) && mod && mod->compiled) {
        mleaf = lys_find_path(mctx, NULL, "/m:l", 0);
    }
    free(txt);
    return mleaf;
}

static char
validate(int n, char **invs, char **pats, const char *str, size_t slen)
{
    const struct lysc_node *leaf = leaf_for(n, invs, pats);
    LY_ERR r;

    if (!leaf) {
        return 'E';
    }
    r = lyd_value_validate(mctx, leaf, str, slen, NULL, NULL, NULL);
    ly_err_clean(mctx, NULL);
    return (r == LY_SUCCESS) ? '1' : ((r == LY_EVALID) ? '0' : 'L');
}

/* XPath re-match(): context with two string leaves, the arguments are taken from a data tree */
static struct ly_ctx *xctx = NULL;

static char
xpath_rematch(const char *pat, const char *str)
{
    struct lyd_node *tree = NULL;
    ly_bool res = 0;
    LY_ERR r;
    char out;

    if (!xctx) {
        if (ly_ctx_new(NULL, 0, &xctx) || lys_parse_mem(xctx, "module x {yang-version 1.1; namespace \"urn:x\"; prefix x;"
                " leaf s {type string;} leaf p {type string;}}", LYS_IN_YANG, NULL)) {
            return '?';
        }
    }
    if (lyd_new_path(NULL, xctx, "/x:s", str, 0, &tree) || lyd_new_path(tree, NULL, "/x:p", pat, 0, NULL)) {
        out = 'V';
    } else {
        r = lyd_eval_xpath(tree, "re-match(/x:s, /x:p)", &res);
        out = !r ? (res ? '1' : '0') : ((r == LY_EVALID) ? 'E' : 'L');
    }
    lyd_free_all(tree);
    ly_err_clean(xctx, NULL);
    return out;
}

int
main(void)
{
    struct vcase c;
    struct ly_ctx *ctx = NULL;
    char *zero = "0";

    ly_set_log_clb(log_cb);
    if (ly_ctx_new(NULL, 0, &ctx)) {
        fprintf(stderr, "ctx\n");
        return 2;
    }

    while (vnext(&c)) {
        const char *comp = c.f[0];

        if (!strcmp(comp, "rewrite") && (c.nf >= 2)) {
            size_t len;
            char *pat = vunhex(c.f[1], &len);
            pcre2_code *code = NULL;

            seen = 0;
            ly_pattern_compile(ctx, pat, &code);
            if (!seen) {
                printf("E");
            } else {
                vputhex(seen_pat, seen_len);
            }
            pcre2_code_free(code);
            ly_err_clean(ctx, NULL);
            free(pat);
        } else if (!strcmp(comp, "match") && (c.nf >= 3)) {
            size_t plen, slen;
            char *pat = vunhex(c.f[1], &plen);

            for (int i = 2; i < c.nf; i++) {
                char *str = vunhex(c.f[i], &slen);
                LY_ERR r;

                r = ly_pattern_match(ctx, pat, str, (uint32_t)slen, NULL);
                ly_err_clean(ctx, NULL);
                printf("%s%c %c", (i > 2) ? "," : "", (r == LY_SUCCESS) ? '1' : ((r == LY_ENOT) ? '0' : ((r == LY_EVALID) ? 'E' : 'L')),
                        validate(1, &zero, &c.f[1], str, slen));
                free(str);
            }
            free(pat);
        } else if (!strcmp(comp, "entry") && (c.nf >= 3)) {
            size_t plen, slen;
            char *pat = vunhex(c.f[1], &plen);

            for (int i = 2; i < c.nf; i++) {
                char *str = vunhex(c.f[i], &slen);
                LY_ERR r;

                r = ly_pattern_match(ctx, pat, str, (uint32_t)slen, NULL);
                ly_err_clean(ctx, NULL);
                printf("%s%c %c %c", (i > 2) ? "," : "", (r == LY_SUCCESS) ? '1' : ((r == LY_ENOT) ? '0' : ((r == LY_EVALID) ? 'E' : 'L')),
                        validate(1, &zero, &c.f[1], str, slen), xpath_rematch(pat, str));
                free(str);
            }
            free(pat);
        } else if (!strcmp(comp, "matchlist") && (c.nf >= 2)) {
            size_t slen;
            char *str = vunhex(c.f[1], &slen), *invs[VMAXF], *pats[VMAXF];
            int n = 0;

            for (int i = 2; i + 1 < c.nf; i += 2) {
                invs[n] = c.f[i];
                pats[n++] = c.f[i + 1];
            }
            printf("%c", validate(n, invs, pats, str, slen));
            free(str);
        } else {
            printf("?");
        }
        VEND();
    }
    ly_ctx_destroy(mctx);
    ly_ctx_destroy(xctx);
    ly_ctx_destroy(ctx);
    free(seen_pat);
    free(mkey);
    return 0;
}
