/* t_regex.c - driver of slice regex (property C18: YANG patterns are XSD regular expressions).
 *
 * Components (one case per line, TAB separated, byte strings in hex, "-" = empty):
 *   rewrite <pattern>           -> "E" when lys_compile_type_pattern_check() fails before it calls
 *                                  pcre2_compile(), else the hex of the text handed to pcre2_compile()
 *                                  (whether or not PCRE2 then accepts it)
 *   match <pattern> <string>    -> "<a> <b>": a = ly_pattern_match() (public utility), b = lyd_value_validate()
 *                                  on leaf l of a module compiled on the fly with "pattern <pattern>";
 *                                  each is 1 (match), 0 (no match) or E (pattern rejected / other error)
 *   matchinv <pattern> <string> -> "<b>" as above with "modifier invert-match"
 *
 * Must be linked with -Wl,--wrap=pcre2_compile_8 (Comp.extra_cflags): __wrap_pcre2_compile_8 records
 * the pattern text and calls the real function.
 */
#include "common.h"

#define PCRE2_CODE_UNIT_WIDTH 8
#include <pcre2.h>

#include "libyang.h"

static char *seen_pat = NULL;
static size_t seen_len = 0;
static int seen = 0;

pcre2_code *__real_pcre2_compile_8(PCRE2_SPTR pattern, PCRE2_SIZE length, uint32_t options, int *errorcode,
        PCRE2_SIZE *erroroffset, pcre2_compile_context *ccontext);

pcre2_code *
__wrap_pcre2_compile_8(PCRE2_SPTR pattern, PCRE2_SIZE length, uint32_t options, int *errorcode,
        PCRE2_SIZE *erroroffset, pcre2_compile_context *ccontext)
{
    size_t n = (length == PCRE2_ZERO_TERMINATED) ? strlen((const char *)pattern) : (size_t)length;

    free(seen_pat);
    seen_pat = malloc(n + 1);
    memcpy(seen_pat, pattern, n);
    seen_pat[n] = 0;
    seen_len = n;
    seen = 1;
    return __real_pcre2_compile_8(pattern, length, options, errorcode, erroroffset, ccontext);
}

static void
log_cb(LY_LOG_LEVEL level, const char *msg, const char *data_path, const char *schema_path, uint64_t line)
{
    (void)level; (void)msg; (void)data_path; (void)schema_path; (void)line;
}

/* module text with the pattern as a YANG string: single-quoted (verbatim) unless it contains a single quote,
 * then double-quoted with backslash, double quote, LF and TAB escaped */
static char *
module_text(const char *pat, size_t len, int invert)
{
    char *m = malloc(2 * len + 512), *p;
    int dq = memchr(pat, '\'', len) != NULL;

    p = m + sprintf(m, "module m {yang-version 1.1; namespace \"urn:m\"; prefix m; leaf l {type string {pattern %c", dq ? '"' : '\'');
    for (size_t i = 0; i < len; i++) {
        if (dq && ((pat[i] == '\\') || (pat[i] == '"'))) {
            *p++ = '\\';
            *p++ = pat[i];
        } else if (dq && (pat[i] == '\n')) {
            *p++ = '\\';
            *p++ = 'n';
        } else if (dq && (pat[i] == '\t')) {
            *p++ = '\\';
            *p++ = 't';
        } else {
            *p++ = pat[i];
        }
    }
    sprintf(p, "%c%s}}}", dq ? '"' : '\'', invert ? " {modifier invert-match;}" : ";");
    return m;
}

/* cache of the last compiled module: consecutive cases with the same pattern reuse it */
static struct ly_ctx *mctx = NULL;
static char *mpat = NULL;
static size_t mpat_len = 0;
static int minv = -1;
static const struct lysc_node *mleaf = NULL;

static const struct lysc_node *
leaf_for(const char *pat, size_t len, int invert)
{
    char *txt;
    struct lys_module *mod = NULL;

    if (mpat && (mpat_len == len) && !memcmp(mpat, pat, len) && (minv == invert)) {
        return mleaf;
    }
    ly_ctx_destroy(mctx);
    mctx = NULL;
    mleaf = NULL;
    free(mpat);
    mpat = malloc(len + 1);
    memcpy(mpat, pat, len);
    mpat[len] = 0;
    mpat_len = len;
    minv = invert;
    if (ly_ctx_new(NULL, 0, &mctx)) {
        return NULL;
    }
    txt = module_text(pat, len, invert);
    if (!lys_parse_mem(mctx, txt, LYS_IN_YANG, &mod) && mod && mod->compiled) {
        mleaf = lys_find_path(mctx, NULL, "/m:l", 0);
    }
    free(txt);
    return mleaf;
}

static char
validate(const char *pat, size_t plen, const char *str, size_t slen, int invert)
{
    const struct lysc_node *leaf = leaf_for(pat, plen, invert);
    LY_ERR r;

    if (!leaf) {
        return 'E';
    }
    r = lyd_value_validate(mctx, leaf, str, slen, NULL, NULL, NULL);
    ly_err_clean(mctx, NULL);
    return (r == LY_SUCCESS) ? '1' : ((r == LY_EVALID) ? '0' : 'E');
}

int
main(void)
{
    struct vcase c;
    struct ly_ctx *ctx = NULL;

    ly_set_log_clb(log_cb);
    if (ly_ctx_new(NULL, 0, &ctx)) {
        fprintf(stderr, "ctx\n");
        return 2;
    }

    while (vnext(&c)) {
        const char *comp = c.f[0];

        if (!strcmp(comp, "rewrite") && (c.nf >= 2)) {
            size_t len;
            char *pat = vunhex(c.f[1], &len);
            pcre2_code *code = NULL;

            seen = 0;
            ly_pattern_compile(ctx, pat, &code);
            if (!seen) {
                printf("E");
            } else {
                vputhex(seen_pat, seen_len);
            }
            pcre2_code_free(code);
            ly_err_clean(ctx, NULL);
            free(pat);
        } else if (!strcmp(comp, "match") && (c.nf >= 3)) {
            size_t plen, slen;
            char *pat = vunhex(c.f[1], &plen), *str = vunhex(c.f[2], &slen);
            LY_ERR r;

            r = ly_pattern_match(ctx, pat, str, (uint32_t)slen, NULL);
            ly_err_clean(ctx, NULL);
            printf("%c %c", (r == LY_SUCCESS) ? '1' : ((r == LY_ENOT) ? '0' : 'E'), validate(pat, plen, str, slen, 0));
            free(pat);
            free(str);
        } else if (!strcmp(comp, "matchinv") && (c.nf >= 3)) {
            size_t plen, slen;
            char *pat = vunhex(c.f[1], &plen), *str = vunhex(c.f[2], &slen);

            printf("%c", validate(pat, plen, str, slen, 1));
            free(pat);
            free(str);
        } else {
            printf("?");
        }
        VEND();
    }
    ly_ctx_destroy(mctx);
    ly_ctx_destroy(ctx);
    free(seen_pat);
    free(mpat);
    return 0;
}
