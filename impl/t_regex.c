/* t_regex.c - driver of slice regex (property C18: YANG patterns are XSD regular expressions).
 *
 * Components (one case per line, TAB separated, byte strings in hex, "-" = empty):
 *   rewrite <pattern>           -> "E" when lys_compile_type_pattern_check() fails before it calls
 *                                  pcre2_compile(), else the hex of the text handed to pcre2_compile()
 *                                  (whether or not PCRE2 then accepts it)
 *   match <pattern> <string>+   -> per string "<a> <b>" (joined by ','): a = ly_pattern_match() (public utility),
 *                                  b = lyd_value_validate() on leaf l of a module compiled on the fly with
 *                                  "pattern <pattern>"; each is 1 (match), 0 (no match), E (pattern rejected) or
 *                                  L (the matcher failed on this string, e.g. PCRE2 match limit)
 *   matchlist <string> (<inv> <pattern>)*  -> lyd_value_validate() on a leaf whose type has all the listed
 *                                  patterns, those with inv = 1 carrying "modifier invert-match": 1 / 0 / E
 *   entry <pattern> <string>+   -> per string "<a> <b> <c>" (joined by ','): a and b as for match, c = the XPath
 *                                  function re-match(/x:s, /x:p) evaluated by lyd_eval_xpath() on a data tree whose
 *                                  leaves s and p hold the string and the pattern: 1 / 0, E (evaluation failed with
 *                                  LY_EVALID: pattern rejected), L (failed otherwise: the matcher gave up), V (string or
 *                                  pattern is not a valid value of a YANG string leaf)
 *   typeset <string> (L [G<length>] (<inv> <pattern>)...)...  -> pattern SETS over a typedef chain; "L" starts the next
 *                                  level, an optional field G<argument> gives the level a length statement: the first
 *                                  level is typedef t1 on string, level i is typedef ti on t(i-1), the last level is the
 *                                  type statement T = "type t(n-1) {patterns}" used by the data nodes. Answer
 *                                  "<e> <l> <ll> <u> <k> <lt> <lt2>": e = conjunction over ALL patterns of ly_pattern_match()
 *                                  XOR inv and of (number of characters in the length of the last level that has one); then lyd_value_validate() on leaf l {T}, leaf-list ll {T}, leaf u {type union
 *                                  {T}}, list key k {T}, leaf lt {type tt} with typedef tt {T}, leaf lt2 {type tt2} with
 *                                  typedef tt2 {type tt}: 1 / 0 / E (module rejected) / L (matcher failed)
 *   yangre <string> (<inv> <pattern>)+  -> "<e> <l> <p> <fl> <fc> <fn>": e = conjunction of ly_pattern_match() XOR inv, l =
 *                                  lyd_value_validate() on a leaf with all the patterns, then the yangre tool of the same
 *                                  build (../yangre relative to the driver's directory) run as a process: p = command line
 *                                  (-p 'pattern' [-i] ... -- string), fl / fc / fn = -f <file> with LF line ends, CRLF line
 *                                  ends, LF line ends and no line end after the string (an empty string: fl and fc give it
 *                                  as an empty line after the separator line, fn ends the file after the separator line).
 *                                  1 = exit status 0, 0 = exit status 2, E = exit status 1, C = anything else, - = the case
 *                                  cannot be written in that mode (quote in a pattern, line end inside pattern or string,
 *                                  string ending in CR before a line end)
 *
 * Linked with --wrap=pcre2_compile_8: __wrap_pcre2_compile_8 records the pattern text and calls the real function.
 * VERIF_FLAGS: -Wl,--wrap=pcre2_compile_8
 */
#include "common.h"

#define PCRE2_CODE_UNIT_WIDTH 8
#include <pcre2.h>

#include "libyang.h"

#include <fcntl.h>
#include <sys/types.h>
#include <sys/wait.h>
#include <unistd.h>

static char *seen_pat = NULL;
static size_t seen_len = 0;
static int seen = 0;

pcre2_code *__real_pcre2_compile_8(PCRE2_SPTR pattern, PCRE2_SIZE length, uint32_t options, int *errorcode,
        PCRE2_SIZE *erroroffset, pcre2_compile_context *ccontext);

pcre2_code *
__wrap_pcre2_compile_8(PCRE2_SPTR pattern, PCRE2_SIZE length, uint32_t options, int *errorcode,
        PCRE2_SIZE *erroroffset, pcre2_compile_context *ccontext)
{
    size_t n = (length == PCRE2_ZERO_TERMINATED) ? strlen((const char *)pattern) : (size_t)length;

    free(seen_pat);
    seen_pat = malloc(n + 1);
    memcpy(seen_pat, pattern, n);
    seen_pat[n] = 0;
    seen_len = n;
    seen = 1;
    return __real_pcre2_compile_8(pattern, length, options, errorcode, erroroffset, ccontext);
}

static void
log_cb(LY_LOG_LEVEL level, const char *msg, const char *data_path, const char *schema_path, uint64_t line)
{
    (void)level; (void)msg; (void)data_path; (void)schema_path; (void)line;
}

/* append the pattern as a YANG string: single-quoted (verbatim) unless it contains a single quote,
 * then double-quoted with backslash, double quote, LF and TAB escaped */
static char *
put_pattern(char *p, const char *pat, size_t len, int invert)
{
    int dq = memchr(pat, '\'', len) != NULL;

    p += sprintf(p, " pattern %c", dq ? '"' : '\'');
    for (size_t i = 0; i < len; i++) {
        if (dq && ((pat[i] == '\\') || (pat[i] == '"'))) {
            *p++ = '\\';
            *p++ = pat[i];
        } else if (dq && (pat[i] == '\n')) {
            *p++ = '\\';
            *p++ = 'n';
        } else if (dq && (pat[i] == '\t')) {
            *p++ = '\\';
            *p++ = 't';
        } else {
            *p++ = pat[i];
        }
    }
    p += sprintf(p, "%c%s", dq ? '"' : '\'', invert ? " {modifier invert-match;}" : ";");
    return p;
}

/* cache of the last compiled module: consecutive cases with the same patterns reuse it */
static struct ly_ctx *mctx = NULL;
static char *mkey = NULL;
static const struct lysc_node *mleaf = NULL;

/* leaf l of module m with the n patterns pats[i] (hex fields), inverted when invs[i] is "1" */
static const struct lysc_node *
leaf_for(int n, char **invs, char **pats)
{
    char *key, *txt, *p;
    size_t klen = 1, tlen = 512;
    struct lys_module *mod = NULL;

    for (int i = 0; i < n; i++) {
        klen += strlen(invs[i]) + strlen(pats[i]) + 2;
        tlen += strlen(pats[i]) + 64;
    }
    key = malloc(klen);
    key[0] = 0;
    for (int i = 0; i < n; i++) {
        strcat(key, invs[i]);
        strcat(key, " ");
        strcat(key, pats[i]);
        strcat(key, " ");
    }
    if (mkey && !strcmp(mkey, key)) {
        free(key);
        return mleaf;
    }
    ly_ctx_destroy(mctx);
    mctx = NULL;
    mleaf = NULL;
    free(mkey);
    mkey = key;
    if (ly_ctx_new(NULL, 0, &mctx)) {
        return NULL;
    }
    txt = malloc(tlen);
    p = txt + sprintf(txt, "module m {yang-version 1.1; namespace \"urn:m\"; prefix m; leaf l {type string {");
    for (int i = 0; i < n; i++) {
        size_t len;
        char *pat = vunhex(pats[i], &len);

        p = put_pattern(p, pat, len, invs[i][0] == '1');
        free(pat);
    }
    sprintf(p, "}}}");
    if (!lys_parse_mem(mctx, txt, LYS_IN_YANG, &mod) && mod && mod->compiled) {
        mleaf = lys_find_path(mctx, NULL, "/m:l", 0);
    }
    free(txt);
    return mleaf;
}

static char
validate(int n, char **invs, char **pats, const char *str, size_t slen)
{
    const struct lysc_node *leaf = leaf_for(n, invs, pats);
    LY_ERR r;

    if (!leaf) {
        return 'E';
    }
    r = lyd_value_validate(mctx, leaf, str, slen, NULL, NULL, NULL);
    ly_err_clean(mctx, NULL);
    return (r == LY_SUCCESS) ? '1' : ((r == LY_EVALID) ? '0' : 'L');
}

/* typeset: module with a typedef chain, cached on the fields that describe it */
#define TS_NODES 6
static struct ly_ctx *tctx = NULL;
static char *tkey = NULL;
static const struct lysc_node *tnodes[TS_NODES];
static int tok = 0;

static int
typeset_module(int nf, char **f)
{
    static const char *paths[TS_NODES] = {"/m:l", "/m:ll", "/m:u", "/m:L/k", "/m:lt", "/m:lt2"};
    size_t klen = 1, tlen = 1024;
    char *key, *txt, *p, *T;
    int nlev = 0, lev, i;
    struct lys_module *mod = NULL;

    for (i = 0; i < nf; i++) {
        klen += strlen(f[i]) + 1;
        tlen += strlen(f[i]) + 96;
    }
    key = malloc(klen);
    key[0] = 0;
    for (i = 0; i < nf; i++) {
        strcat(key, f[i]);
        strcat(key, " ");
    }
    if (tkey && !strcmp(tkey, key)) {
        free(key);
        return tok;
    }
    ly_ctx_destroy(tctx);
    tctx = NULL;
    tok = 0;
    free(tkey);
    tkey = key;
    if (ly_ctx_new(NULL, 0, &tctx)) {
        return 0;
    }
    for (i = 0; i < nf; i++) {
        if (!strcmp(f[i], "L")) {
            nlev++;
        }
    }
    if (!nlev || strcmp(f[0], "L")) {
        nlev++;                 /* fields before the first L form a level of their own */
    }
    txt = malloc(tlen * 8);
    T = malloc(tlen);
    p = txt + sprintf(txt, "module m {yang-version 1.1; namespace \"urn:m\"; prefix m;");
    lev = 0;
    i = (nf && !strcmp(f[0], "L")) ? 1 : 0;
    while (lev < nlev) {
        char *q = T;

        lev++;
        if (lev == 1) {
            q += sprintf(q, "type string");
        } else {
            q += sprintf(q, "type t%d", lev - 1);
        }
        if ((i < nf) && strcmp(f[i], "L")) {
            q += sprintf(q, " {");
            while ((i < nf) && strcmp(f[i], "L")) {
                if (f[i][0] == 'G') {
                    /* length statement of this level: G<argument> */
                    q += sprintf(q, " length \"%s\";", f[i] + 1);
                    i++;
                } else if (i + 1 < nf) {
                    size_t len;
                    char *pat = vunhex(f[i + 1], &len);

                    q = put_pattern(q, pat, len, f[i][0] == '1');
                    free(pat);
                    i += 2;
                } else {
                    i++;
                }
            }
            q += sprintf(q, "}");
        } else {
            q += sprintf(q, ";");
        }
        *q = 0;
        if ((i < nf) && !strcmp(f[i], "L")) {
            i++;
        }
        if (lev < nlev) {
            p += sprintf(p, " typedef t%d {%s}", lev, T);
        }
    }
    p += sprintf(p, " typedef tt {%s} typedef tt2 {type tt;}", T);
    p += sprintf(p, " leaf l {%s} leaf-list ll {%s} leaf u {type union {%s}} list L {key k; leaf k {%s}}"
            " leaf lt {type tt;} leaf lt2 {type tt2;}}", T, T, T, T);
    if (!lys_parse_mem(tctx, txt, LYS_IN_YANG, &mod) && mod && mod->compiled) {
        tok = 1;
        for (i = 0; i < TS_NODES; i++) {
            tnodes[i] = lys_find_path(tctx, NULL, paths[i], 0);
            if (!tnodes[i]) {
                tok = 0;
            }
        }
    }
    ly_err_clean(tctx, NULL);
    free(txt);
    free(T);
    return tok;
}

/* ---- the yangre tool of the same build ---- */
static char yangre_path[4096] = "";

static const char *
yangre_exe(void)
{
    if (!yangre_path[0]) {
        char buf[4000];
        ssize_t n = readlink("/proc/self/exe", buf, sizeof buf - 1);
        char *sl;

        if (n <= 0) {
            return NULL;
        }
        buf[n] = 0;
        if ((sl = strrchr(buf, '/'))) {         /* .../drv/t_regex-xxxx -> .../drv */
            *sl = 0;
        }
        if ((sl = strrchr(buf, '/'))) {         /* .../drv -> ... */
            *sl = 0;
        }
        snprintf(yangre_path, sizeof yangre_path, "%s/yangre", buf);
    }
    return access(yangre_path, X_OK) ? NULL : yangre_path;
}

static char
run_argv(char **argv)
{
    pid_t pid = fork();
    int st = 0;

    if (pid < 0) {
        return 'C';
    }
    if (!pid) {
        int fd = open("/dev/null", O_WRONLY);

        if (fd >= 0) {
            dup2(fd, 1);
            dup2(fd, 2);
        }
        execv(argv[0], argv);
        _exit(99);
    }
    if (waitpid(pid, &st, 0) < 0) {
        return 'C';
    }
    if (!WIFEXITED(st)) {
        return 'C';
    }
    switch (WEXITSTATUS(st)) {
    case 0:
        return '1';
    case 2:
        return '0';
    case 1:
        return 'E';
    default:
        return 'C';
    }
}

/* mode: 'p' command line, 'l' file LF, 'c' file CRLF, 'n' file LF without a line end after the string */
static char
run_yangre(char mode, int n, char **invs, char **pats, const char *str, size_t slen)
{
    const char *exe = yangre_exe();
    char **plain = calloc(n, sizeof *plain), res = '-';
    char *argv[3 * VMAXF / 2 + 8];
    int i, ok = 1, argc = 0;
    char fname[128];

    if (!exe) {
        free(plain);
        return '?';
    }
    for (i = 0; i < n; i++) {
        size_t len;
        char *pat = vunhex(pats[i], &len);

        plain[i] = malloc(len + 3);
        sprintf(plain[i], "'%s'", pat);
        if (memchr(pat, '\'', len) || (strlen(pat) != len) || ((mode != 'p') && (memchr(pat, '\n', len) || memchr(pat, '\r', len)))) {
            ok = 0;
        }
        free(pat);
    }
    if (strlen(str) != slen) {
        ok = 0;
    }
    if ((mode != 'p') && memchr(str, '\n', slen)) {
        ok = 0;
    }
    if (((mode == 'l') || (mode == 'c')) && slen && (str[slen - 1] == '\r')) {
        ok = 0;
    }
    if (ok && (mode == 'p')) {
        argv[argc++] = (char *)exe;
        for (i = 0; i < n; i++) {
            argv[argc++] = "-p";
            argv[argc++] = plain[i];
            if (invs[i][0] == '1') {
                argv[argc++] = "-i";
            }
        }
        argv[argc++] = "--";
        argv[argc++] = (char *)str;
        argv[argc] = NULL;
        res = run_argv(argv);
    } else if (ok) {
        const char *nl = (mode == 'c') ? "\r\n" : "\n";
        FILE *f;

        snprintf(fname, sizeof fname, "/tmp/t_regex_%d.yre", (int)getpid());
        f = fopen(fname, "wb");
        if (f) {
            for (i = 0; i < n; i++) {
                fprintf(f, "%s%s%s", (invs[i][0] == '1') ? " " : "", plain[i], nl);
            }
            fprintf(f, "%s", nl);
            if (slen || (mode != 'n')) {
                fwrite(str, 1, slen, f);
                if (mode != 'n') {
                    fprintf(f, "%s", nl);
                }
            }
            fclose(f);
            argv[0] = (char *)exe;
            argv[1] = "-f";
            argv[2] = fname;
            argv[3] = NULL;
            res = run_argv(argv);
            unlink(fname);
        } else {
            res = '?';
        }
    }
    for (i = 0; i < n; i++) {
        free(plain[i]);
    }
    free(plain);
    return res;
}

/* XPath re-match(): context with two string leaves, the arguments are taken from a data tree */
static struct ly_ctx *xctx = NULL;

static char
xpath_rematch(const char *pat, const char *str)
{
    struct lyd_node *tree = NULL;
    ly_bool res = 0;
    LY_ERR r;
    char out;

    if (!xctx) {
        if (ly_ctx_new(NULL, 0, &xctx) || lys_parse_mem(xctx, "module x {yang-version 1.1; namespace \"urn:x\"; prefix x;"
                " leaf s {type string;} leaf p {type string;}}", LYS_IN_YANG, NULL)) {
            return '?';
        }
    }
    if (lyd_new_path(NULL, xctx, "/x:s", str, 0, &tree) || lyd_new_path(tree, NULL, "/x:p", pat, 0, NULL)) {
        out = 'V';
    } else {
        r = lyd_eval_xpath(tree, "re-match(/x:s, /x:p)", &res);
        out = !r ? (res ? '1' : '0') : ((r == LY_EVALID) ? 'E' : 'L');
    }
    lyd_free_all(tree);
    ly_err_clean(xctx, NULL);
    return out;
}

int
main(void)
{
    struct vcase c;
    struct ly_ctx *ctx = NULL;
    char *zero = "0";

    ly_set_log_clb(log_cb);
    if (ly_ctx_new(NULL, 0, &ctx)) {
        fprintf(stderr, "ctx\n");
        return 2;
    }

    while (vnext(&c)) {
        const char *comp = c.f[0];

        if (!strcmp(comp, "rewrite") && (c.nf >= 2)) {
            size_t len;
            char *pat = vunhex(c.f[1], &len);
            pcre2_code *code = NULL;

            seen = 0;
            ly_pattern_compile(ctx, pat, &code);
            if (!seen) {
                printf("E");
            } else {
                vputhex(seen_pat, seen_len);
            }
            pcre2_code_free(code);
            ly_err_clean(ctx, NULL);
            free(pat);
        } else if (!strcmp(comp, "match") && (c.nf >= 3)) {
            size_t plen, slen;
            char *pat = vunhex(c.f[1], &plen);

            for (int i = 2; i < c.nf; i++) {
                char *str = vunhex(c.f[i], &slen);
                LY_ERR r;

                r = ly_pattern_match(ctx, pat, str, (uint32_t)slen, NULL);
                ly_err_clean(ctx, NULL);
                printf("%s%c %c", (i > 2) ? "," : "", (r == LY_SUCCESS) ? '1' : ((r == LY_ENOT) ? '0' : ((r == LY_EVALID) ? 'E' : 'L')),
                        validate(1, &zero, &c.f[1], str, slen));
                free(str);
            }
            free(pat);
        } else if (!strcmp(comp, "entry") && (c.nf >= 3)) {
            size_t plen, slen;
            char *pat = vunhex(c.f[1], &plen);

            for (int i = 2; i < c.nf; i++) {
                char *str = vunhex(c.f[i], &slen);
                LY_ERR r;

                r = ly_pattern_match(ctx, pat, str, (uint32_t)slen, NULL);
                ly_err_clean(ctx, NULL);
                printf("%s%c %c %c", (i > 2) ? "," : "", (r == LY_SUCCESS) ? '1' : ((r == LY_ENOT) ? '0' : ((r == LY_EVALID) ? 'E' : 'L')),
                        validate(1, &zero, &c.f[1], str, slen), xpath_rematch(pat, str));
                free(str);
            }
            free(pat);
        } else if (!strcmp(comp, "typeset") && (c.nf >= 2)) {
            size_t slen;
            char *str = vunhex(c.f[1], &slen);
            char e = '1';

            const char *glen = NULL;

            for (int i = 2; i < c.nf; ) {
                size_t plen;
                char *pat;
                LY_ERR r;

                if (!strcmp(c.f[i], "L")) {
                    i++;
                    continue;
                }
                if (c.f[i][0] == 'G') {
                    glen = c.f[i] + 1;          /* the effective length is the statement of the last level that has one */
                    i++;
                    continue;
                }
                if (i + 1 >= c.nf) {
                    break;
                }
                pat = vunhex(c.f[i + 1], &plen);
                r = ly_pattern_match(ctx, pat, str, (uint32_t)slen, NULL);
                ly_err_clean(ctx, NULL);
                free(pat);
                if ((r != LY_SUCCESS) && (r != LY_ENOT)) {
                    e = (r == LY_EVALID) ? 'E' : 'L';
                    break;
                }
                if ((r == LY_SUCCESS) == (c.f[i][0] == '1')) {
                    e = '0';
                }
                i += 2;
            }
            if (glen && (e == '1')) {
                /* number of characters (not continuation bytes) against the parts a..b | a of the length argument */
                unsigned long n = 0, lo, hi;
                const char *g = glen;
                int in = 0;

                for (size_t k = 0; k < slen; k++) {
                    n += (((unsigned char)str[k]) & 0xC0) != 0x80;
                }
                while (*g) {
                    char *end;

                    lo = hi = strtoul(g, &end, 10);
                    g = end;
                    if ((g[0] == '.') && (g[1] == '.')) {
                        hi = strtoul(g + 2, &end, 10);
                        g = end;
                    }
                    if ((lo <= n) && (n <= hi)) {
                        in = 1;
                    }
                    if (*g == '|') {
                        g++;
                    } else {
                        break;
                    }
                }
                if (!in) {
                    e = '0';
                }
            }
            printf("%c", e);
            if (!typeset_module(c.nf - 2, c.f + 2)) {
                printf(" E E E E E E");
            } else {
                for (int i = 0; i < TS_NODES; i++) {
                    LY_ERR r = lyd_value_validate(tctx, tnodes[i], str, slen, NULL, NULL, NULL);

                    ly_err_clean(tctx, NULL);
                    printf(" %c", (r == LY_SUCCESS) ? '1' : ((r == LY_EVALID) ? '0' : 'L'));
                }
            }
            free(str);
        } else if (!strcmp(comp, "yangre") && (c.nf >= 4)) {
            size_t slen;
            char *str = vunhex(c.f[1], &slen), *invs[VMAXF], *pats[VMAXF];
            char e = '1';
            int n = 0;

            for (int i = 2; i + 1 < c.nf; i += 2) {
                invs[n] = c.f[i];
                pats[n++] = c.f[i + 1];
            }
            for (int i = 0; i < n; i++) {
                size_t plen;
                char *pat = vunhex(pats[i], &plen);
                LY_ERR r = ly_pattern_match(ctx, pat, str, (uint32_t)slen, NULL);

                /* ly_pattern_match() takes str_len 0 for "use strlen()", which is what an empty string needs */
                ly_err_clean(ctx, NULL);
                free(pat);
                if ((r != LY_SUCCESS) && (r != LY_ENOT)) {
                    e = (r == LY_EVALID) ? 'E' : 'L';
                    break;
                }
                if ((r == LY_SUCCESS) == (invs[i][0] == '1')) {
                    e = '0';
                }
            }
            printf("%c %c", e, validate(n, invs, pats, str, slen));
            fflush(stdout);
            printf(" %c", run_yangre('p', n, invs, pats, str, slen));
            printf(" %c", run_yangre('l', n, invs, pats, str, slen));
            printf(" %c", run_yangre('c', n, invs, pats, str, slen));
            printf(" %c", run_yangre('n', n, invs, pats, str, slen));
            free(str);
        } else if (!strcmp(comp, "matchlist") && (c.nf >= 2)) {
            size_t slen;
            char *str = vunhex(c.f[1], &slen), *invs[VMAXF], *pats[VMAXF];
            int n = 0;

            for (int i = 2; i + 1 < c.nf; i += 2) {
                invs[n] = c.f[i];
                pats[n++] = c.f[i + 1];
            }
            printf("%c", validate(n, invs, pats, str, slen));
            free(str);
        } else {
            printf("?");
        }
        VEND();
    }
    ly_ctx_destroy(mctx);
    ly_ctx_destroy(tctx);
    free(tkey);
    ly_ctx_destroy(xctx);
    ly_ctx_destroy(ctx);
    free(seen_pat);
    free(mkey);
    return 0;
}
