/* t_ctx.c — driver of slice `ctx` (property C09: a failed schema operation leaves the context as it was).
 *
 * It drives the REAL library with abstract operation scripts (the same scripts the Coq model coq/Context.v
 * interprets) and prints, after every operation, the observable state of the context in a canonical form.
 *
 * Case line (TAB separated):
 *   ctxs <explicit 0|1> <repo> <op> <op> ...      script; one context
 *   ctxo <explicit 0|1> <repo> <op> <op> ...      the same, plus a second (shadow) context that only gets the
 *                                                 operations that succeeded in the first one, plus data trees
 *   ctxint                                        table of the internal modules of a new context
 *   ctxr <flags> <repo> <op> <op> ...             flags: 1 LY_CTX_EXPLICIT_COMPILE, 2 LY_CTX_ENABLE_IMP_FEATURES,
 *                                                 4 LY_CTX_REF_IMPLEMENTED, 8 LY_CTX_ALL_IMPLEMENTED (sum);
 *                                                 richer modules (no model counterpart): a repo entry has a fifth part
 *                                                 <extras> = `-` or comma list of  d<k> identity derived from import k's base,
 *                                                 s<name> submodule importing module <name> with an identity derived from its
 *                                                 base, a<k> augment of import k's container, n<k><j> augment into the node
 *                                                 import j's augment adds to import k, v<k> deviation of import k, r<k> leafref
 *                                                 into import k (implements it), w<k> must referring to import k (implements
 *                                                 it with LY_CTX_REF_IMPLEMENTED), q the features are defined in the submodule
 *                                                 only, Q the first feature in the module and the others in the submodule, z the
 *                                                 features in a second submodule that the first one includes as well.
 *                                                 Extra ops: O <flags> ly_ctx_set_options, U <flags> ly_ctx_unset_options (flag
 *                                                 bits as above, 16 LY_CTX_SET_PRIV_PARSED); the observable ends with ;O:<flags>
 *                                                 (ly_ctx_get_options). `*` after I/i: to_compile or not compiled yet. Output per
 *                                                 op: <ok|E|nomod>;<module> ...;L:..;M:.. S<=|!|.> with <module> =
 *                                                 <name><rev><I|i>{features}id[<identity>(<derived>..)..]ab[..]db[..]c=<hash|->
 *                                                 (identities[].derived, augmented_by, deviated_by, compiled YANG print)
 *
 * <repo> = module descriptions separated by `;`, each  <name><rev>:<imports>:<features>:<fault>
 *   name    one letter a..h                       rev   digit 0 (no revision statement), 1, 2, 3
 *   imports `-` or comma list of <name><rev>      (rev 0 = import without revision-date)
 *   features `-` or comma list of  f  or  f/g+h   (feature f with  if-feature "g and h")
 *   fault   0 none, 1 syntax error, 2 duplicate feature (detected after the imports were resolved),
 *           3 node that does not compile (lys_compile fails), 4 leafref without target (fails when the dep set
 *           is resolved), 5 list key under if-feature <first feature> (fails when resolved unless it is enabled)
 *   The import callback serves these texts: without a revision the FIRST entry of the name; with a revision exactly
 *   that entry, or (sloppy) the first entry of the name when the repository does not have that revision.
 * <op> (space separated words):
 *   P <i> <fault|-> <features>     lys_parse() of the text of repo entry i (fault: override of the entry's own)
 *   L <name> <rev> <features>      ly_ctx_load_module(name, revision or NULL, features)
 *   I <name> <rev> <features>      lys_set_implemented(ly_ctx_get_module(name, revision), features)
 *   C                              ly_ctx_compile()
 *   O <flags> / U <flags>          ly_ctx_set_options / ly_ctx_unset_options; flags = sum of 1 LY_CTX_EXPLICIT_COMPILE,
 *                                  2 LY_CTX_ENABLE_IMP_FEATURES, 4 LY_CTX_REF_IMPLEMENTED, 8 LY_CTX_ALL_IMPLEMENTED, 16 LY_CTX_SET_PRIV_PARSED
 *   D <name>                       (ctxo only) parse a data tree of the implemented module <name> and keep it
 *   features: `~` NULL, `-` empty array, `*` all, or comma list
 *
 * Output: one segment per op, joined by " | ":
 *   <ok|E|nomod>;cc<+|=>;<module> <module> ...;L:<latest rev per name a..h>;M:<implemented rev per name>;hash=<ok|DIFF>;O:<options>
 *   <module> = <name><rev><I|i><latest_revision flags, hex digit><T|t>{f+,g-}c=<-|[leaf,leaf]>r<=|+|0>
 *     I implemented, T to_compile, c = names of the x_ / y leaves of the compiled tree (the features it was compiled
 *     against), r: compiled tree is the same object as before the op (=), a new one (+), absent (0)
 *   hash=ok: ly_ctx_get_modules_hash() equals the hash recomputed by this driver from the printed fields (name,
 *   revision, enabled features, implemented flag of every module).
 * ctxo appends to every segment " # " and: data tree states (v valid and printing as before, s stale = the compiled
 *   tree it points into was freed, x prints differently), S<=|!> shadow context observable equal / different
 *   (successful ops only), hashes of the compiled YANG print per implemented module.
 */
#include "common.h"

#include <assert.h>
#include <stdarg.h>

#include "libyang.h"
#include "ly_common.h"
#include "tree_schema_internal.h"
#include "context.h"
#include "hash_table.h"

#define MAXREPO 24
#define MAXIMP 4
#define MAXFEAT 4
#define MAXDEP 3
#define NNAMES 8
#define MAXTREE 8

struct mdesc {
    char name;
    int rev;
    int nimp;
    struct {
        char name;
        int rev;
    } imp[MAXIMP];
    int nfeat;
    struct {
        char name[8];
        int ndep;
        char dep[MAXDEP][8];
    } feat[MAXFEAT];
    int fault;
    /* ctxr only */
    unsigned derive, augment, deviate, lref, mustref;  /* bit k: import k */
    int nnest;
    struct {
        int k, j;
    } nest[2];
    char subimp;                        /* 0 or the name of the module the submodule imports */
    int subfeat;                        /* 0 features in the module, 1 all in the submodule, 2 first in the module, rest in the
                                         * submodule, 3 all in a second submodule */
};

static struct mdesc repo[MAXREPO];
static int nrepo;
static const char *DATES[] = {NULL, "2001-01-01", "2002-02-02", "2003-03-03"};

static void
log_cb(LY_LOG_LEVEL level, const char *msg, const char *data_path, const char *schema_path, uint64_t line)
{
    (void)level; (void)data_path; (void)schema_path; (void)line;
    if (getenv("LYX_DEBUG")) {
        fprintf(stderr, "LOG: %s\n", msg);
    }
}

/* ---------- small dynamic string ---------- */
struct sbuf {
    char *s;
    size_t n, cap;
};

static void
sb_add(struct sbuf *b, const char *p, size_t n)
{
    if (b->n + n + 1 > b->cap) {
        b->cap = (b->n + n + 1) * 2;
        b->s = realloc(b->s, b->cap);
    }
    memcpy(b->s + b->n, p, n);
    b->n += n;
    b->s[b->n] = 0;
}

static void
sb_fmt(struct sbuf *b, const char *fmt, ...)
{
    char tmp[512];
    va_list ap;

    va_start(ap, fmt);
    vsnprintf(tmp, sizeof tmp, fmt, ap);
    va_end(ap);
    sb_add(b, tmp, strlen(tmp));
}

/* ---------- repo ---------- */
static int
rev_of_char(int ch)
{
    return ((ch >= '0') && (ch <= '3')) ? ch - '0' : -1;
}

/* parse one module description; returns 0 on success */
static int
parse_mdesc(char *s, struct mdesc *d)
{
    char *parts[5], *p, *q, *save;
    int n = 0;

    memset(d, 0, sizeof *d);
    for (p = s; n < 5; ++n) {
        parts[n] = p;
        q = strchr(p, ':');
        if (!q) {
            ++n;
            break;
        }
        *q = 0;
        p = q + 1;
    }
    if (((n != 4) && (n != 5)) || (strlen(parts[0]) != 2) || (rev_of_char(parts[0][1]) < 0)) {
        return 1;
    }
    if ((n == 5) && strcmp(parts[4], "-")) {
        for (p = strtok_r(parts[4], ",", &save); p; p = strtok_r(NULL, ",", &save)) {
            if ((p[0] == 'd') && isdigit((unsigned char)p[1])) {
                d->derive |= 1u << (p[1] - '0');
            } else if ((p[0] == 'a') && isdigit((unsigned char)p[1])) {
                d->augment |= 1u << (p[1] - '0');
            } else if ((p[0] == 'v') && isdigit((unsigned char)p[1])) {
                d->deviate |= 1u << (p[1] - '0');
            } else if ((p[0] == 'r') && isdigit((unsigned char)p[1])) {
                d->lref |= 1u << (p[1] - '0');
            } else if ((p[0] == 'w') && isdigit((unsigned char)p[1])) {
                d->mustref |= 1u << (p[1] - '0');
            } else if ((p[0] == 'n') && isdigit((unsigned char)p[1]) && isdigit((unsigned char)p[2]) && (d->nnest < 2)) {
                d->nest[d->nnest].k = p[1] - '0';
                d->nest[d->nnest].j = p[2] - '0';
                ++d->nnest;
            } else if ((p[0] == 's') && p[1]) {
                d->subimp = p[1];
            } else if (!strcmp(p, "q")) {
                d->subfeat = 1;
            } else if (!strcmp(p, "Q")) {
                d->subfeat = 2;
            } else if (!strcmp(p, "z")) {
                d->subfeat = 3;
            } else {
                return 1;
            }
        }
    }
    d->name = parts[0][0];
    d->rev = rev_of_char(parts[0][1]);
    if (strcmp(parts[1], "-")) {
        for (p = strtok_r(parts[1], ",", &save); p; p = strtok_r(NULL, ",", &save)) {
            if ((d->nimp == MAXIMP) || (strlen(p) != 2) || (rev_of_char(p[1]) < 0)) {
                return 1;
            }
            d->imp[d->nimp].name = p[0];
            d->imp[d->nimp].rev = rev_of_char(p[1]);
            ++d->nimp;
        }
    }
    if (strcmp(parts[2], "-")) {
        for (p = strtok_r(parts[2], ",", &save); p; p = strtok_r(NULL, ",", &save)) {
            char *deps, *save2, *r;

            if (d->nfeat == MAXFEAT) {
                return 1;
            }
            deps = strchr(p, '/');
            if (deps) {
                *deps++ = 0;
            }
            if (!p[0] || (strlen(p) > 7)) {
                return 1;
            }
            strcpy(d->feat[d->nfeat].name, p);
            if (deps) {
                for (r = strtok_r(deps, "+", &save2); r; r = strtok_r(NULL, "+", &save2)) {
                    if ((d->feat[d->nfeat].ndep == MAXDEP) || (strlen(r) > 7)) {
                        return 1;
                    }
                    strcpy(d->feat[d->nfeat].dep[d->feat[d->nfeat].ndep++], r);
                }
            }
            ++d->nfeat;
        }
    }
    d->fault = atoi(parts[3]);
    return 0;
}

static int
parse_repo(const char *field)
{
    char *copy = strdup(field), *p, *save;
    int rc = 0;

    nrepo = 0;
    if (strcmp(copy, "-")) {
        for (p = strtok_r(copy, ";", &save); p; p = strtok_r(NULL, ";", &save)) {
            if ((nrepo == MAXREPO) || parse_mdesc(p, &repo[nrepo])) {
                rc = 1;
                break;
            }
            ++nrepo;
        }
    }
    free(copy);
    return rc;
}

/* some entry of the name (all revisions of a name declare the same feature names) */
static const struct mdesc *
repo_by_name(char name)
{
    for (int i = 0; i < nrepo; ++i) {
        if (repo[i].name == name) {
            return &repo[i];
        }
    }
    return NULL;
}

static const struct mdesc *
repo_find(char name, int rev, int latest)
{
    for (int i = 0; i < nrepo; ++i) {
        if (repo[i].name != name) {
            continue;
        }
        /* without a revision: the FIRST entry of the name is what the callback serves as the latest one */
        if (latest || (repo[i].rev == rev)) {
            return &repo[i];
        }
    }
    return NULL;
}

/* YANG text of a module description with the given fault */
static char *
gen_text(const struct mdesc *d, int fault)
{
    struct sbuf b = {0};
    int i, j;

    sb_fmt(&b, "module %c {\n  yang-version 1.1;\n  namespace \"urn:%c\";\n  prefix %c;\n", d->name, d->name, d->name);
    for (i = 0; i < d->nimp; ++i) {
        sb_fmt(&b, "  import %c { prefix p%d;", d->imp[i].name, i);
        if (d->imp[i].rev) {
            sb_fmt(&b, " revision-date %s;", DATES[d->imp[i].rev]);
        }
        sb_fmt(&b, " }\n");
    }
    if (d->rev) {
        sb_fmt(&b, "  revision %s;\n", DATES[d->rev]);
    }
    for (i = 0; i < d->nfeat; ++i) {
        sb_fmt(&b, "  feature %s", d->feat[i].name);
        if (d->feat[i].ndep) {
            sb_fmt(&b, " { if-feature \"");
            for (j = 0; j < d->feat[i].ndep; ++j) {
                sb_fmt(&b, "%s%s", j ? " and " : "", d->feat[i].dep[j]);
            }
            sb_fmt(&b, "\"; }\n");
        } else {
            sb_fmt(&b, ";\n");
        }
    }
    if (fault == 2) {
        /* duplicate feature: found by lysp_check_dup_features(), after the imports were resolved */
        sb_fmt(&b, "  feature zdup;\n  feature zdup;\n");
    }
    sb_fmt(&b, "  leaf base { type string; }\n  leaf dat { type string; }\n");
    for (i = 0; i < d->nfeat; ++i) {
        sb_fmt(&b, "  leaf x_%s { if-feature %s; type string; }\n", d->feat[i].name, d->feat[i].name);
    }
    for (i = 0; i < d->nimp; ++i) {
        const struct mdesc *t = repo_by_name(d->imp[i].name);

        for (j = 0; t && (j < t->nfeat); ++j) {
            sb_fmt(&b, "  leaf y%d_%s { if-feature \"p%d:%s\"; type string; }\n", i, t->feat[j].name, i, t->feat[j].name);
        }
    }
    if (fault == 3) {
        sb_fmt(&b, "  leaf bad { type int8 { range \"5..1\"; } }\n");
    } else if (fault == 4) {
        sb_fmt(&b, "  leaf bad { type leafref { path \"../nonexistent\"; } }\n");
    } else if (fault == 5) {
        if (d->nfeat) {
            sb_fmt(&b, "  list kl { key k; leaf k { if-feature %s; type string; } }\n", d->feat[0].name);
        } else {
            sb_fmt(&b, "  leaf bad { type leafref { path \"../nonexistent\"; } }\n");
        }
    }
    if (fault == 1) {
        sb_fmt(&b, "  leaf { ;;; \n");
    }
    sb_fmt(&b, "}\n");
    return b.s;
}

/* ---------- richer modules (ctxr) ---------- */
static int rich_mode;

static void
gen_features(struct sbuf *b, const struct mdesc *d, int from, int to)
{
    int i, j;

    for (i = from; (i < to) && (i < d->nfeat); ++i) {
        sb_fmt(b, "  feature %s", d->feat[i].name);
        if (d->feat[i].ndep) {
            sb_fmt(b, " { if-feature \"");
            for (j = 0; j < d->feat[i].ndep; ++j) {
                sb_fmt(b, "%s%s", j ? " and " : "", d->feat[i].dep[j]);
            }
            sb_fmt(b, "\"; }\n");
        } else {
            sb_fmt(b, ";\n");
        }
    }
}

static char *
gen_text_rich(const struct mdesc *d, int fault)
{
    struct sbuf b = {0};
    int i, j, bad_done = 0;
    const char *bad = "leaf bad { type leafref { path \"../nonexistent\"; } }";

    sb_fmt(&b, "module %c {\n  yang-version 1.1;\n  namespace \"urn:%c\";\n  prefix %c;\n", d->name, d->name, d->name);
    for (i = 0; i < d->nimp; ++i) {
        sb_fmt(&b, "  import %c { prefix p%d;", d->imp[i].name, i);
        if (d->imp[i].rev) {
            sb_fmt(&b, " revision-date %s;", DATES[d->imp[i].rev]);
        }
        sb_fmt(&b, " }\n");
    }
    if (d->subimp || (d->subfeat && d->nfeat)) {
        sb_fmt(&b, "  include %c-sub;\n", d->name);
    }
    if ((d->subfeat == 3) && d->nfeat) {
        sb_fmt(&b, "  include %c-sub2;\n", d->name);
    }
    if (d->rev) {
        sb_fmt(&b, "  revision %s;\n", DATES[d->rev]);
    }
    gen_features(&b, d, 0, !d->subfeat ? d->nfeat : ((d->subfeat == 2) ? 1 : 0));
    if (fault == 2) {
        sb_fmt(&b, "  feature zdup;\n  feature zdup;\n");
    }
    sb_fmt(&b, "  identity base;\n");
    for (i = 0; i < d->nimp; ++i) {
        if (d->derive & (1u << i)) {
            sb_fmt(&b, "  identity d%d { base p%d:base; }\n", i, i);
        }
    }
    sb_fmt(&b, "  container c {\n    leaf base { type string; }\n    leaf dv { type string; }\n"
            "    leaf idr { type identityref { base base; } }\n");
    for (i = 0; i < d->nfeat; ++i) {
        sb_fmt(&b, "    leaf x_%s { if-feature %s; type string; }\n", d->feat[i].name, d->feat[i].name);
    }
    for (i = 0; i < d->nimp; ++i) {
        if (d->lref & (1u << i)) {
            sb_fmt(&b, "    leaf lr%d { type leafref { path \"/p%d:c/p%d:base\"; } }\n", i, i, i);
        }
        if (d->mustref & (1u << i)) {
            sb_fmt(&b, "    leaf mu%d { type string; must \"/p%d:c/p%d:base\"; }\n", i, i, i);
        }
    }
    sb_fmt(&b, "  }\n");
    for (i = 0; i < d->nimp; ++i) {
        if (d->augment & (1u << i)) {
            sb_fmt(&b, "  augment \"/p%d:c\" { container ac { leaf al { type string; } %s } }\n", i,
                    ((fault == 4) && !bad_done) ? bad : "");
            bad_done |= (fault == 4);
        }
    }
    for (i = 0; i < d->nnest; ++i) {
        sb_fmt(&b, "  augment \"/p%d:c/p%d:ac\" { leaf nl%d { type string; } %s }\n", d->nest[i].k, d->nest[i].j, i,
                ((fault == 4) && !bad_done) ? bad : "");
        bad_done |= (fault == 4);
    }
    for (i = 0; i < d->nimp; ++i) {
        if (d->deviate & (1u << i)) {
            sb_fmt(&b, "  deviation \"/p%d:c/p%d:dv\" { deviate not-supported; }\n", i, i);
        }
    }
    if (fault == 3) {
        sb_fmt(&b, "  leaf bad { type int8 { range \"5..1\"; } }\n");
    } else if (((fault == 4) && !bad_done) || ((fault == 5) && !d->nfeat)) {
        sb_fmt(&b, "  %s\n", bad);
    } else if (fault == 5) {
        sb_fmt(&b, "  list kl { key k; leaf k { if-feature %s; type string; } }\n", d->feat[0].name);
    }
    if (fault == 1) {
        sb_fmt(&b, "  leaf { ;;; \n");
    }
    sb_fmt(&b, "}\n");
    return b.s;
}

static char *
gen_text_sub(const struct mdesc *d, int second)
{
    struct sbuf b = {0};
    const struct mdesc *t = d->subimp ? repo_by_name(d->subimp) : NULL;

    sb_fmt(&b, "submodule %c-sub%s {\n  yang-version 1.1;\n  belongs-to %c { prefix %c; }\n", d->name, second ? "2" : "", d->name,
            d->name);
    if (second) {
        gen_features(&b, d, 0, d->nfeat);
        sb_fmt(&b, "}\n");
        return b.s;
    }
    if (d->subimp) {
        sb_fmt(&b, "  import %c { prefix sx;", d->subimp);
        if (t && t->rev) {
            sb_fmt(&b, " revision-date %s;", DATES[t->rev]);
        }
        sb_fmt(&b, " }\n");
    }
    if ((d->subfeat == 3) && d->nfeat) {
        sb_fmt(&b, "  include %c-sub2;\n", d->name);
    }
    if (d->subfeat == 1) {
        gen_features(&b, d, 0, d->nfeat);
    } else if (d->subfeat == 2) {
        gen_features(&b, d, 1, d->nfeat);
    }
    if (d->subimp) {
        sb_fmt(&b, "  identity sid { base sx:base; }\n");
    }
    sb_fmt(&b, "}\n");
    return b.s;
}

static void
free_text(void *module_data, void *user_data)
{
    (void)user_data;
    free(module_data);
}

static LY_ERR
imp_clb(const char *mod_name, const char *mod_rev, const char *submod_name, const char *submod_rev, void *user_data,
        LYS_INFORMAT *format, const char **module_data, ly_module_imp_data_free_clb *free_module_data)
{
    const struct mdesc *d = NULL;
    int r;

    (void)submod_rev; (void)user_data;
    if (strlen(mod_name) != 1) {
        return LY_ENOTFOUND;
    }
    if (submod_name) {
        d = repo_by_name(mod_name[0]);
        if (!rich_mode || !d || (!d->subimp && !(d->subfeat && d->nfeat))) {
            return LY_ENOTFOUND;
        }
        *format = LYS_IN_YANG;
        *module_data = gen_text_sub(d, strlen(submod_name) > 5);
        *free_module_data = free_text;
        return LY_SUCCESS;
    }
    if (mod_rev) {
        for (r = 1; r < 4; ++r) {
            if (!strcmp(mod_rev, DATES[r])) {
                d = repo_find(mod_name[0], r, 0);
            }
        }
        if (!d) {
            /* a sloppy callback: another revision of the module than the one asked for */
            d = repo_find(mod_name[0], 0, 1);
        }
    } else {
        d = repo_find(mod_name[0], 0, 1);
    }
    if (!d) {
        return LY_ENOTFOUND;
    }
    *format = LYS_IN_YANG;
    *module_data = rich_mode ? gen_text_rich(d, d->fault) : gen_text(d, d->fault);
    *free_module_data = free_text;
    return LY_SUCCESS;
}

/* ---------- observation ---------- */
static int rtag;        /* address used as the tag of `base` leaves (same compiled object as before the op) */
static int no_r;        /* the op changed options: LY_CTX_SET_PRIV_PARSED overwrites / clears the priv pointers, `r.` is printed */

static int
rev_of_mod(const struct lys_module *m)
{
    if (!m->revision) {
        return 0;
    }
    for (int r = 1; r < 4; ++r) {
        if (!strcmp(m->revision, DATES[r])) {
            return r;
        }
    }
    return 9;
}

static struct lysc_node *
first_node(const struct lys_module *m)
{
    return (m->compiled) ? m->compiled->data : NULL;
}

static struct lysc_node *
named_node(const struct lys_module *m, const char *name)
{
    struct lysc_node *n;

    if (!m->compiled) {
        return NULL;
    }
    LY_LIST_FOR(m->compiled->data, n) {
        if (!strcmp(n->name, name)) {
            return n;
        }
    }
    return NULL;
}

/* tag the compiled trees of all user modules before an op */
static void
tag_all(struct ly_ctx *ctx)
{
    uint32_t i = ly_ctx_internal_modules_count(ctx);
    struct lys_module *m;
    struct lysc_node *n;

    while ((m = ly_ctx_get_module_iter(ctx, &i))) {
        if ((n = first_node(m))) {
            n->priv = &rtag;
        }
    }
}

/* the hash of the fields ly_ctx_get_modules_hash() is documented to hash: name, revision, enabled features and the
 * implemented flag of every module after the internal ones */
static uint32_t
hash_as_coded(const struct ly_ctx *ctx)
{
    const struct lys_module *mod;
    uint32_t i = ly_ctx_internal_modules_count(ctx), hash = 0;
    LY_ARRAY_COUNT_TYPE u;

    while ((mod = ly_ctx_get_module_iter(ctx, &i))) {
        hash = lyht_hash_multi(hash, mod->name, strlen(mod->name));
        if (mod->revision) {
            hash = lyht_hash_multi(hash, mod->revision, strlen(mod->revision));
        }
        LY_ARRAY_FOR(mod->parsed->features, u) {
            if (mod->parsed->features[u].flags & LYS_FENABLED) {
                hash = lyht_hash_multi(hash, mod->parsed->features[u].name, strlen(mod->parsed->features[u].name));
            }
        }
        hash = lyht_hash_multi(hash, (char *)&mod->implemented, sizeof mod->implemented);
    }
    return lyht_hash_multi(hash, NULL, 0);
}

/* public observable only (what `obs` of the model holds): used for the shadow comparison */
static void
print_obs(struct ly_ctx *ctx, struct sbuf *o, int white)
{
    uint32_t i = ly_ctx_internal_modules_count(ctx);
    struct lys_module *m;
    struct lysc_node *n;
    LY_ARRAY_COUNT_TYPE u;
    int firstm = 1, k;
    char nm[2] = {0, 0};

    while ((m = ly_ctx_get_module_iter(ctx, &i))) {
        sb_fmt(o, "%s%s%d%c", firstm ? "" : " ", m->name, rev_of_mod(m), m->implemented ? 'I' : 'i');
        firstm = 0;
        if (white) {
            sb_fmt(o, "%x%c", m->latest_revision & 0xf, m->to_compile ? 'T' : 't');
        }
        sb_fmt(o, "{");
        LY_ARRAY_FOR(m->parsed->features, u) {
            LY_ERR r = lys_feature_value(m, m->parsed->features[u].name);

            sb_fmt(o, "%s%s%c", u ? "," : "", m->parsed->features[u].name, (r == LY_SUCCESS) ? '+' : ((r == LY_ENOT) ? '-' : '?'));
        }
        sb_fmt(o, "}c=");
        if (m->compiled) {
            int firstl = 1;

            sb_fmt(o, "[");
            LY_LIST_FOR(m->compiled->data, n) {
                if (!strncmp(n->name, "x_", 2) || (n->name[0] == 'y')) {
                    sb_fmt(o, "%s%s", firstl ? "" : ",", n->name);
                    firstl = 0;
                }
            }
            sb_fmt(o, "]");
        } else {
            sb_fmt(o, "-");
        }
        if (white) {
            n = first_node(m);
            sb_fmt(o, "r%c", no_r ? '.' : (!n ? '0' : ((n->priv == &rtag) ? '=' : '+')));
        }
    }
    sb_fmt(o, ";L:");
    for (k = 0; k < NNAMES; ++k) {
        nm[0] = 'a' + k;
        m = ly_ctx_get_module_latest(ctx, nm);
        if (m) {
            sb_fmt(o, "%d", rev_of_mod(m));
        } else {
            sb_fmt(o, "-");
        }
    }
    sb_fmt(o, ";M:");
    for (k = 0; k < NNAMES; ++k) {
        nm[0] = 'a' + k;
        m = ly_ctx_get_module_implemented(ctx, nm);
        if (m) {
            sb_fmt(o, "%d", rev_of_mod(m));
        } else {
            sb_fmt(o, "-");
        }
    }
    sb_fmt(o, ";hash=%s", (ly_ctx_get_modules_hash(ctx) == hash_as_coded(ctx)) ? "ok" : "DIFF");
    {
        uint16_t op = ly_ctx_get_options(ctx);

        sb_fmt(o, ";O:%d", ((op & LY_CTX_EXPLICIT_COMPILE) ? 1 : 0) | ((op & LY_CTX_ENABLE_IMP_FEATURES) ? 2 : 0) |
                ((op & LY_CTX_REF_IMPLEMENTED) ? 4 : 0) | ((op & LY_CTX_ALL_IMPLEMENTED) ? 8 : 0) |
                ((op & LY_CTX_SET_PRIV_PARSED) ? 16 : 0));
    }
}

/* ---------- operations ---------- */
static const char **
parse_features(char *w, const char **arr, size_t cap)
{
    size_t n = 0;
    char *p, *save;

    if (!strcmp(w, "~")) {
        return NULL;
    }
    if (strcmp(w, "-")) {
        for (p = strtok_r(w, ",", &save); p && (n + 1 < cap); p = strtok_r(NULL, ",", &save)) {
            arr[n++] = p;
        }
    }
    arr[n] = NULL;
    return arr;
}

/* returns 0 ok, 1 error, 2 nomod, 3 bad op */
static int
do_op(struct ly_ctx *ctx, const char *opstr)
{
    char *copy = strdup(opstr), *w[5], *p, *save;
    const char *farr[16], **feats;
    int nw = 0, rc = 3;

    for (p = strtok_r(copy, " ", &save); p && (nw < 5); p = strtok_r(NULL, " ", &save)) {
        w[nw++] = p;
    }
    if (!nw) {
        goto done;
    }
    if (!strcmp(w[0], "P") && (nw == 4)) {
        int idx = atoi(w[1]);
        char *text;
        struct ly_in *in = NULL;
        LY_ERR r;

        if ((idx < 0) || (idx >= nrepo)) {
            goto done;
        }
        text = (rich_mode ? gen_text_rich : gen_text)(&repo[idx], strcmp(w[2], "-") ? atoi(w[2]) : repo[idx].fault);
        feats = parse_features(w[3], farr, 16);
        ly_in_new_memory(text, &in);
        r = lys_parse(ctx, in, LYS_IN_YANG, feats, NULL);
        ly_in_free(in, 0);
        free(text);
        rc = r ? 1 : 0;
    } else if (!strcmp(w[0], "L") && (nw == 4) && (strlen(w[1]) == 1) && (rev_of_char(w[2][0]) >= 0)) {
        feats = parse_features(w[3], farr, 16);
        rc = ly_ctx_load_module(ctx, w[1], DATES[rev_of_char(w[2][0])], feats) ? 0 : 1;
    } else if (!strcmp(w[0], "I") && (nw == 4) && (strlen(w[1]) == 1) && (rev_of_char(w[2][0]) >= 0)) {
        struct lys_module *m = ly_ctx_get_module(ctx, w[1], DATES[rev_of_char(w[2][0])]);

        if (!m) {
            rc = 2;
        } else {
            feats = parse_features(w[3], farr, 16);
            rc = lys_set_implemented(m, feats) ? 1 : 0;
        }
    } else if (!strcmp(w[0], "C") && (nw == 1)) {
        rc = ly_ctx_compile(ctx) ? 1 : 0;
    } else if ((!strcmp(w[0], "O") || !strcmp(w[0], "U")) && (nw == 2)) {
        int fl = atoi(w[1]);
        uint16_t op = ((fl & 1) ? LY_CTX_EXPLICIT_COMPILE : 0) | ((fl & 2) ? LY_CTX_ENABLE_IMP_FEATURES : 0) |
                ((fl & 4) ? LY_CTX_REF_IMPLEMENTED : 0) | ((fl & 8) ? LY_CTX_ALL_IMPLEMENTED : 0) |
                ((fl & 16) ? LY_CTX_SET_PRIV_PARSED : 0);

        rc = ((w[0][0] == 'O') ? ly_ctx_set_options(ctx, op) : ly_ctx_unset_options(ctx, op)) ? 1 : 0;
    }
done:
    free(copy);
    return rc;
}

/* ---------- data trees (ctxo) ---------- */
struct dtree {
    struct lyd_node *tree;
    char name;
    char *printed;
    int *tag;
};

static uint32_t
str_hash(const char *s)
{
    return lyht_hash(s, strlen(s));
}

static void
run_script(struct vcase *c, int shadow)
{
    struct ly_ctx *ctx = NULL, *ctx2 = NULL;
    uint16_t opts = LY_CTX_NO_YANGLIBRARY | LY_CTX_DISABLE_SEARCHDIRS | LY_CTX_DISABLE_SEARCHDIR_CWD;
    int explicit_, f, ntree = 0, first = 1;
    struct dtree trees[MAXTREE];

    if ((c->nf < 3) || parse_repo(c->f[2])) {
        printf("?");
        return;
    }
    explicit_ = atoi(c->f[1]);
    if (ly_ctx_new(NULL, opts, &ctx) || (shadow && ly_ctx_new(NULL, opts, &ctx2))) {
        printf("?ctx");
        return;
    }
    ly_ctx_set_module_imp_clb(ctx, imp_clb, NULL);
    if (ctx2) {
        ly_ctx_set_module_imp_clb(ctx2, imp_clb, NULL);
    }
    if (explicit_) {
        ly_ctx_set_options(ctx, LY_CTX_EXPLICIT_COMPILE);
        if (ctx2) {
            ly_ctx_set_options(ctx2, LY_CTX_EXPLICIT_COMPILE);
        }
    }

    for (f = 3; f < c->nf; ++f) {
        struct sbuf o = {0};
        uint16_t cc0, cc1;
        int rc;

        if (!first) {
            printf(" | ");
        }
        first = 0;

        if (shadow && (c->f[f][0] == 'D') && (strlen(c->f[f]) == 3)) {
            /* data tree of an implemented module */
            char nm[2] = {c->f[f][2], 0}, xml[96];
            struct lys_module *m = ly_ctx_get_module_implemented(ctx, nm);
            struct lysc_node *n;

            if (!m || !(n = named_node(m, "dat")) || (ntree == MAXTREE)) {
                printf("dskip");
                continue;
            }
            snprintf(xml, sizeof xml, "<dat xmlns=\"urn:%s\">v%d</dat>", nm, ntree);
            trees[ntree].tree = NULL;
            if (lyd_parse_data_mem(ctx, xml, LYD_XML, LYD_PARSE_ONLY, 0, &trees[ntree].tree) || !trees[ntree].tree) {
                printf("dE");
                continue;
            }
            trees[ntree].name = nm[0];
            trees[ntree].printed = NULL;
            lyd_print_mem(&trees[ntree].printed, trees[ntree].tree, LYD_XML, LYD_PRINT_SHRINK);
            trees[ntree].tag = malloc(sizeof(int));
            n->priv = trees[ntree].tag;
            ++ntree;
            printf("d+");
            continue;
        }

        tag_all(ctx);
        cc0 = ly_ctx_get_change_count(ctx);
        no_r = (c->f[f][0] == 'O') || (c->f[f][0] == 'U');
        rc = do_op(ctx, c->f[f]);
        cc1 = ly_ctx_get_change_count(ctx);
        if (rc == 3) {
            printf("?op");
            continue;
        }
        sb_fmt(&o, "%s;cc%c;", (rc == 0) ? "ok" : ((rc == 1) ? "E" : "nomod"), (cc1 != cc0) ? '+' : '=');
        print_obs(ctx, &o, 1);
        fputs(o.s, stdout);
        free(o.s);

        if (shadow) {
            struct sbuf o1 = {0}, o2 = {0};
            uint32_t i;
            struct lys_module *m;
            int t;

            printf(" # ");
            for (t = 0; t < ntree; ++t) {
                char nm[2] = {trees[t].name, 0};
                struct lysc_node *n;
                char st = 's';

                m = ly_ctx_get_module_implemented(ctx, nm);
                n = m ? named_node(m, "dat") : NULL;
                if (n && (n->priv == trees[t].tag) && (trees[t].tree->schema == n)) {
                    /* the compiled tree the data points into is alive: the data must print as before */
                    char *s = NULL;

                    lyd_print_mem(&s, trees[t].tree, LYD_XML, LYD_PRINT_SHRINK);
                    st = (s && trees[t].printed && !strcmp(s, trees[t].printed)) ? 'v' : 'x';
                    free(s);
                }
                printf("%c", st);
            }
            if (rc == 0) {
                int rc2 = do_op(ctx2, c->f[f]);

                print_obs(ctx, &o1, 0);
                print_obs(ctx2, &o2, 0);
                printf(" S%c", (!rc2 && !strcmp(o1.s, o2.s)) ? '=' : '!');
                free(o1.s);
                free(o2.s);
            } else {
                printf(" S.");
            }
            i = ly_ctx_internal_modules_count(ctx);
            while ((m = ly_ctx_get_module_iter(ctx, &i))) {
                char *s = NULL;

                if (m->implemented && m->compiled && !lys_print_mem(&s, m, LYS_OUT_YANG_COMPILED, 0) && s) {
                    printf(" %s%d:%08x", m->name, rev_of_mod(m), str_hash(s));
                } else {
                    printf(" %s%d:-", m->name, rev_of_mod(m));
                }
                free(s);
            }
            printf(" H:%08x", ly_ctx_get_modules_hash(ctx));
        }
    }

    for (f = 0; f < ntree; ++f) {
        char nm[2] = {trees[f].name, 0};
        struct lys_module *m = ly_ctx_get_module_implemented(ctx, nm);
        struct lysc_node *n = m ? named_node(m, "dat") : NULL;

        if (n && (n->priv == trees[f].tag)) {
            lyd_free_all(trees[f].tree);
        } /* else: the tree points into freed schema nodes and cannot even be freed safely; it is leaked */
        free(trees[f].printed);
        free(trees[f].tag);
    }
    ly_ctx_destroy(ctx);
    if (ctx2) {
        ly_ctx_destroy(ctx2);
    }
}

/* the observable of ctxr: public fields only */
static int
cmp_str(const void *a, const void *b)
{
    return strcmp(*(char * const *)a, *(char * const *)b);
}

/* a compiled leafref that was never resolved (the YANG printer dereferences its NULL realtype) */
static LY_ERR
null_realtype_cb(struct lysc_node *node, void *data, ly_bool *dfs_continue)
{
    const struct lysc_type *t = NULL;

    (void)dfs_continue;
    if (node->nodetype == LYS_LEAF) {
        t = ((struct lysc_node_leaf *)node)->type;
    } else if (node->nodetype == LYS_LEAFLIST) {
        t = ((struct lysc_node_leaflist *)node)->type;
    }
    if (!t && (node->nodetype & (LYS_LEAF | LYS_LEAFLIST))) {
        *(int *)data = 1;
    } else if (t && (t->basetype == LY_TYPE_LEAFREF) && !((struct lysc_type_leafref *)t)->realtype) {
        *(int *)data = 1;
    }
    return LY_SUCCESS;
}

static void
print_obs_rich(struct ly_ctx *ctx, struct sbuf *o)
{
    uint32_t i = ly_ctx_internal_modules_count(ctx);
    struct lys_module *m;
    LY_ARRAY_COUNT_TYPE u, v;
    int firstm = 1, k, unsafe = 0;
    char nm[2] = {0, 0};

    /* an implemented module without a compiled tree: compiled modules may have leafrefs into it that are not resolved
     * (the YANG printer dereferences their NULL realtype), so nothing is printed (c=~) */
    while ((m = ly_ctx_get_module_iter(ctx, &i))) {
        if (m->implemented && !m->compiled) {
            unsafe = 1;
        }
    }
    i = ly_ctx_internal_modules_count(ctx);
    while ((m = ly_ctx_get_module_iter(ctx, &i))) {
        char *s = NULL;

        sb_fmt(o, "%s%s%d%c%s{", firstm ? "" : " ", m->name, rev_of_mod(m), m->implemented ? 'I' : 'i',
                (m->to_compile || (m->implemented && !m->compiled)) ? "*" : "");
        firstm = 0;
        {
            struct lysp_feature *f = NULL;
            uint32_t fi = 0;
            int nf = 0;

            while ((f = lysp_feature_next(f, m->parsed, &fi))) {
                sb_fmt(o, "%s%s%c", nf++ ? "," : "", f->name, (lys_feature_value(m, f->name) == LY_SUCCESS) ? '+' : '-');
            }
        }
        sb_fmt(o, "}id[");
        LY_ARRAY_FOR(m->identities, u) {
            char *names[32];
            size_t n = 0;

            sb_fmt(o, "%s%s(", u ? "," : "", m->identities[u].name);
            LY_ARRAY_FOR(m->identities[u].derived, v) {
                const struct lysc_ident *dr = m->identities[u].derived[v];
                char tmp[64];

                snprintf(tmp, sizeof tmp, "%s:%s", dr->module->name, dr->name);
                if (n < 32) {
                    names[n++] = strdup(tmp);
                }
            }
            qsort(names, n, sizeof *names, cmp_str);
            for (size_t x = 0; x < n; ++x) {
                sb_fmt(o, "%s%s", x ? "+" : "", names[x]);
                free(names[x]);
            }
            sb_fmt(o, ")");
        }
        sb_fmt(o, "]ab[");
        LY_ARRAY_FOR(m->augmented_by, u) {
            sb_fmt(o, "%s%s", u ? "," : "", m->augmented_by[u]->name);
        }
        sb_fmt(o, "]db[");
        LY_ARRAY_FOR(m->deviated_by, u) {
            sb_fmt(o, "%s%s", u ? "," : "", m->deviated_by[u]->name);
        }
        sb_fmt(o, "]c=");
        k = 0;
        if (m->compiled) {
            lysc_module_dfs_full(m, null_realtype_cb, &k);
        }
        if (k) {
            sb_fmt(o, "!");
        } else if (unsafe) {
            sb_fmt(o, m->compiled ? "~" : "-");
        } else if (m->implemented && m->compiled && !lys_print_mem(&s, m, LYS_OUT_YANG_COMPILED, 0) && s) {
            sb_fmt(o, "%08x", str_hash(s));
        } else {
            sb_fmt(o, "-");
        }
        free(s);
    }
    sb_fmt(o, ";L:");
    for (k = 0; k < NNAMES; ++k) {
        nm[0] = 'a' + k;
        m = ly_ctx_get_module_latest(ctx, nm);
        sb_fmt(o, m ? "%d" : "-", m ? rev_of_mod(m) : 0);
    }
    sb_fmt(o, ";M:");
    for (k = 0; k < NNAMES; ++k) {
        nm[0] = 'a' + k;
        m = ly_ctx_get_module_implemented(ctx, nm);
        sb_fmt(o, m ? "%d" : "-", m ? rev_of_mod(m) : 0);
    }
    {
        uint16_t op = ly_ctx_get_options(ctx);

        sb_fmt(o, ";O:%d", ((op & LY_CTX_EXPLICIT_COMPILE) ? 1 : 0) | ((op & LY_CTX_ENABLE_IMP_FEATURES) ? 2 : 0) |
                ((op & LY_CTX_REF_IMPLEMENTED) ? 4 : 0) | ((op & LY_CTX_ALL_IMPLEMENTED) ? 8 : 0) |
                ((op & LY_CTX_SET_PRIV_PARSED) ? 16 : 0));
    }
}

static void
run_rich(struct vcase *c)
{
    struct ly_ctx *ctx = NULL, *ctx2 = NULL;
    uint16_t opts = LY_CTX_NO_YANGLIBRARY | LY_CTX_DISABLE_SEARCHDIRS | LY_CTX_DISABLE_SEARCHDIR_CWD;
    int f, first = 1, flags;

    if ((c->nf < 3) || parse_repo(c->f[2])) {
        printf("?");
        return;
    }
    flags = atoi(c->f[1]);
    opts |= ((flags & 2) ? LY_CTX_ENABLE_IMP_FEATURES : 0) | ((flags & 4) ? LY_CTX_REF_IMPLEMENTED : 0) |
            ((flags & 8) ? LY_CTX_ALL_IMPLEMENTED : 0);
    rich_mode = 1;
    if (ly_ctx_new(NULL, opts, &ctx) || ly_ctx_new(NULL, opts, &ctx2)) {
        printf("?ctx");
        rich_mode = 0;
        return;
    }
    ly_ctx_set_module_imp_clb(ctx, imp_clb, NULL);
    ly_ctx_set_module_imp_clb(ctx2, imp_clb, NULL);
    if (flags & 1) {
        ly_ctx_set_options(ctx, LY_CTX_EXPLICIT_COMPILE);
        ly_ctx_set_options(ctx2, LY_CTX_EXPLICIT_COMPILE);
    }
    for (f = 3; f < c->nf; ++f) {
        struct sbuf o = {0}, o2 = {0};
        int rc;

        printf("%s", first ? "" : " | ");
        first = 0;
        rc = do_op(ctx, c->f[f]);
        if (rc == 3) {
            printf("?op");
            continue;
        }
        print_obs_rich(ctx, &o);
        printf("%s;%s", (rc == 0) ? "ok" : ((rc == 1) ? "E" : "nomod"), o.s ? o.s : "");
        if (rc == 0) {
            int rc2 = do_op(ctx2, c->f[f]);

            print_obs_rich(ctx2, &o2);
            printf(" S%c", (!rc2 && !strcmp(o.s ? o.s : "", o2.s ? o2.s : "")) ? '=' : '!');
        } else {
            printf(" S.");
        }
        free(o.s);
        free(o2.s);
    }
    ly_ctx_destroy(ctx);
    ly_ctx_destroy(ctx2);
    rich_mode = 0;
}

/* table of the internal modules: <name>:<I|i>:<S|s single dep set>:<D|d has dep mods>:<F|f has features>:<imports as indices> */
static void
print_internals(void)
{
    struct ly_ctx *ctx = NULL;
    uint32_t i = 0, j, cnt;
    struct lys_module *m, *m2;
    LY_ARRAY_COUNT_TYPE u;

    if (ly_ctx_new(NULL, LY_CTX_NO_YANGLIBRARY | LY_CTX_DISABLE_SEARCHDIRS | LY_CTX_DISABLE_SEARCHDIR_CWD, &ctx)) {
        printf("?ctx");
        return;
    }
    cnt = ly_ctx_internal_modules_count(ctx);
    while ((m = ly_ctx_get_module_iter(ctx, &i)) && (i <= cnt)) {
        printf("%s%s:%c:%c:%c:%c:%c:", (i > 1) ? " " : "", m->name, m->implemented ? 'I' : 'i',
                LYS_IS_SINGLE_DEP_SET(m) ? 'S' : 's', lys_has_dep_mods(m) ? 'D' : 'd',
                m->parsed->features ? 'F' : 'f', m->to_compile ? 'T' : 't');
        LY_ARRAY_FOR(m->parsed->imports, u) {
            j = 0;
            while ((m2 = ly_ctx_get_module_iter(ctx, &j))) {
                if (m2 == m->parsed->imports[u].module) {
                    printf("%s%u", u ? "," : "", j - 1);
                }
            }
        }
        if (m->parsed->includes) {
            printf("+inc");
        }
    }
    ly_ctx_destroy(ctx);
}

int
main(void)
{
    struct vcase c;

    ly_set_log_clb(log_cb);
    ly_log_options(getenv("LYX_DEBUG") ? (LY_LOLOG | LY_LOSTORE_LAST) : LY_LOSTORE_LAST);
    if (getenv("LYX_DEBUG")) {
        ly_log_level(LY_LLVRB);
    }
    while (vnext(&c)) {
        const char *comp = c.f[0];

        if (!strcmp(comp, "ctxs")) {
            run_script(&c, 0);
        } else if (!strcmp(comp, "ctxo")) {
            run_script(&c, 1);
        } else if (!strcmp(comp, "ctxr")) {
            run_rich(&c);
        } else if (!strcmp(comp, "ctxint")) {
            print_internals();
        } else {
            printf("?");
        }
        VEND();
    }
    return 0;
}
