/* t_depset.c — driver of slice `depset` (property C11): the dependency set lys_unres_dep_sets_create() computes for a
 * module (what is recompiled when that module changes), on a generated family of modules.
 *
 *   depset <start> <n> <flags_0> <imports_0> ... <flags_n-1> <imports_n-1>
 *     module m<k> (k = 0 .. n-1, loaded and implemented in this order) has, according to the letters of <flags_k>
 *     ("-" = none):  f a feature, d data nodes (container c<k> {leaf l}), g a grouping, t a typedef,
 *     a an augment and v a deviation of the first imported module that has data;  <imports_k> = comma separated
 *     indices smaller than k ("-" = none)
 *     -> the indices of the modules in the dependency set of m<start>, in the order of insertion; E when a module fails
 */
#include "common.h"
#include "libyang.h"
#include "ly_common.h"
#include "tree_schema_internal.h"
#include "schema_compile.h"

#define MAXM 16

static void
log_cb(LY_LOG_LEVEL level, const char *msg, const char *data_path, const char *schema_path, uint64_t line)
{
    (void)level; (void)data_path; (void)schema_path; (void)line;
    if (getenv("LYX_DEBUG")) {
        fprintf(stderr, "LOG: %s\n", msg);
    }
}

int
main(void)
{
    struct vcase c;

    ly_set_log_clb(log_cb);
    while (vnext(&c)) {
        if (strcmp(c.f[0], "depset") || (c.nf < 3) || (c.nf < 3 + 2 * atoi(c.f[2])) || (atoi(c.f[2]) > MAXM)) {
            printf("?");
            VEND();
            continue;
        }
        int start = atoi(c.f[1]), n = atoi(c.f[2]), ok = 1;
        struct ly_ctx *ctx = NULL;
        struct lys_module *mods[MAXM] = {0};
        int has_data[MAXM] = {0};

        ly_ctx_new(NULL, LY_CTX_NO_YANGLIBRARY, &ctx);
        for (int k = 0; k < n; k++) {
            has_data[k] = strchr(c.f[3 + 2 * k], 'd') ? 1 : 0;
        }
        for (int k = 0; (k < n) && ok; k++) {
            const char *fl = c.f[3 + 2 * k];
            char imps[256], text[4096], *p, tmp[256];
            int target = -1;
            size_t o = 0;

            snprintf(imps, sizeof imps, "%s", c.f[4 + 2 * k]);
            o += snprintf(text + o, sizeof text - o, "module m%d {yang-version 1.1; namespace urn:m%d; prefix p%d;\n", k, k, k);
            if (strcmp(imps, "-")) {
                snprintf(tmp, sizeof tmp, "%s", imps);
                for (p = strtok(tmp, ","); p; p = strtok(NULL, ",")) {
                    int j = atoi(p);

                    o += snprintf(text + o, sizeof text - o, "  import m%d {prefix p%d;}\n", j, j);
                    if ((target < 0) && has_data[j]) {
                        target = j;
                    }
                }
            }
            if (strchr(fl, 'f')) {
                o += snprintf(text + o, sizeof text - o, "  feature f%d;\n", k);
            }
            if (strchr(fl, 't')) {
                o += snprintf(text + o, sizeof text - o, "  typedef t%d {type string;}\n", k);
            }
            if (strchr(fl, 'g')) {
                o += snprintf(text + o, sizeof text - o, "  grouping g%d {leaf gl {type string;}}\n", k);
            }
            if (strchr(fl, 'd')) {
                o += snprintf(text + o, sizeof text - o, "  container c%d {leaf l {type string;}}\n", k);
            }
            if (strchr(fl, 'a') && (target >= 0)) {
                o += snprintf(text + o, sizeof text - o, "  augment /p%d:c%d {leaf a%d {type string;}}\n", target, target, k);
            }
            if (strchr(fl, 'v') && (target >= 0)) {
                o += snprintf(text + o, sizeof text - o, "  deviation /p%d:c%d/p%d:l {deviate add {must \"%d\";}}\n", target, target, target, k + 1);
            }
            o += snprintf(text + o, sizeof text - o, "}\n");
            if (getenv("LYX_DEBUG")) {
                fprintf(stderr, "%s", text);
            }
            if (lys_parse_mem(ctx, text, LYS_IN_YANG, &mods[k]) || !mods[k]) {
                ok = 0;
            }
        }
        if (!ok || (start < 0) || (start >= n)) {
            printf("E");
        } else {
            struct ly_set main_set = {0};

            if (lys_unres_dep_sets_create(ctx, &main_set, mods[start]) || !main_set.count) {
                printf("E2");
            } else {
                /* the set of the module is the last one created (the single-module sets come first) */
                struct ly_set *ds = NULL;

                for (uint32_t i = 0; i < main_set.count; i++) {
                    struct ly_set *s = main_set.objs[i];

                    for (uint32_t j = 0; j < s->count; j++) {
                        if (s->objs[j] == mods[start]) {
                            ds = s;
                        }
                    }
                }
                if (!ds) {
                    printf("E3");
                } else {
                    for (uint32_t j = 0; j < ds->count; j++) {
                        const struct lys_module *m = ds->objs[j];

                        printf("%s%s", j ? "," : "", (m->name[0] == 'm') ? m->name + 1 : m->name);
                    }
                }
            }
            for (uint32_t i = 0; i < main_set.count; i++) {
                ly_set_free(main_set.objs[i], NULL);
            }
            ly_set_erase(&main_set, NULL);
        }
        ly_ctx_destroy(ctx);
        VEND();
    }
    return 0;
}
